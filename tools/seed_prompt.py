#!/usr/bin/env python3
"""prints the prompt for a mutation sub-agent for one property; creates its scratch worktree"""
import json, subprocess, sys, os
pid = sys.argv[1]; tag = sys.argv[2] if len(sys.argv) > 2 else "a"
hint = sys.argv[3] if len(sys.argv) > 3 else ""
p = [json.loads(l) for l in open('/verif/properties.jsonl') if json.loads(l)['id'] == pid][0]
wt = "/tmp/seed/%s%s" % (pid, tag)
if not os.path.isdir(wt):
    subprocess.check_call(["git", "-C", "/repo", "worktree", "add", "--detach", wt, "HEAD"], stdout=subprocess.DEVNULL, stderr=subprocess.DEVNULL)
print(f"""You are helping to evaluate a test suite by mutation. You work ONLY inside the git worktree {wt} (a scratch checkout of the Go project skycoin/skycoin: full node and wallet). Never read or write anything under /verif or /repo, and do not touch other directories under /tmp/seed.

Every shell command needs: export GOFLAGS=-mod=mod GOPROXY=off GOSUMDB=off GOTOOLCHAIN=local   (no network; dependencies come from the module cache; first build takes ~20 s). Tool output may start with a harmless conda WARNING line.

Here is a semantic property of the project that should hold on the current tree:

{json.dumps(p, indent=1)}

Your task: produce ONE small source change to the project (non-test files under {wt}/src or {wt}/cmd) that BREAKS this property while
 (a) the project still compiles (`go build ./...` and `go vet`-free `go test -vet=off -count=1 -run '^$' ./...`), and
 (b) the existing tests of every package you touched, and of the packages that directly use the changed code, still pass (`go test -vet=off -count=1 ./src/<pkg>/...`; ignore tests that already fail on the untouched tree; known pre-existing failures: util/file TestIsWritable, wallet TestServiceNewAddresses/...writable=false, visor TestErrMissingSignatureRecreateDB, occasional flaky pex TestPexAddPeers).
The change should look like a realistic regression a developer could introduce (an off-by-one, a dropped check on one path, a wrong variable, a missed case, a reordering, state not updated on one branch, ...). It must NOT be exposed at once by ordinary use: it should need something specific to manifest — a particular multi-step sequence of operations, an unusual or boundary input, a crash/fault at a particular point, a particular interleaving, or two cooperating sites that each look fine alone. Do not add build tags, do not change test files, do not change exported signatures. {hint}

Then write a demonstration: a new Go test file (name it zz_seed_demo_test.go, in the most suitable package directory in the worktree) or a small program, which FAILS with your change and PASSES without it (verify both: run it with the change, then take the source change out with `git diff > /tmp/seed/<yourdir>.p; git apply -R /tmp/seed/<yourdir>.p`, run again, then `git apply /tmp/seed/<yourdir>.p`. NEVER use `git stash`: the stash is shared between all worktrees of this repository and other people work in sibling worktrees at the same time). The demonstration should show the property being broken in terms of observable behaviour, not just call the changed function's internals.

Deliverables, all written into {wt}/SEED/ (create the directory):
  - patch.diff : `git diff` of the source change only (not the demo file), applicable with `git apply` at the repository root;
  - the demonstration file (copy) and demo_cmd.txt with the exact command(s) to run it from the worktree root;
  - notes.md : which sentence of the property breaks, what is needed for it to manifest, which existing test packages you ran and their result with the change.
Leave the worktree with the source change applied and the demo file in place. In your final answer give a 5-line summary (what changed, file:line, what triggers it, demo command, test packages run). Do not write more than that.""")
