#!/usr/bin/env python3
"""seed_eval.py <name> <prop> [check ids...]
Confirms a seeded change produced by a sub-agent in /tmp/seed/<name> (SEED/patch.diff + demo test file) in a FRESH scratch
worktree of /repo HEAD, runs the given checks (default: <prop>) against it through VERIF_REPO, and files it under
/verif/seeded/<name>/ (patch.diff, demo, meta.json).  The scratch worktree is removed afterwards."""
import json, os, re, shutil, subprocess, sys, time

name, prop = sys.argv[1], sys.argv[2]
checks = [prop] + [c for c in sys.argv[3:] if c != prop]
src = "/tmp/seed/" + name
wt = "/tmp/seedchk/" + name
ENV = dict(os.environ, GOFLAGS="-mod=mod", GOPROXY="off", GOSUMDB="off", GOTOOLCHAIN="local")


def sh(cmd, cwd=None, timeout=3600):
    p = subprocess.run(cmd, shell=True, cwd=cwd, env=ENV, stdout=subprocess.PIPE, stderr=subprocess.STDOUT, text=True, timeout=timeout)
    return p.returncode, p.stdout


patch = os.path.join(src, "SEED", "patch.diff")
filed = "/verif/seeded/" + name
refiled = False
if not os.path.exists(patch):
    # the agent's worktree is gone: re-evaluate from what was filed under /verif/seeded/<name>
    if not os.path.exists(os.path.join(filed, "meta.json")):
        sys.exit("no patch.diff in " + src)
    old = json.load(open(os.path.join(filed, "meta.json")))
    src = "/tmp/seedsrc/" + name
    shutil.rmtree(src, ignore_errors=True)
    os.makedirs(os.path.join(src, "SEED"))
    shutil.copy(os.path.join(filed, "patch.diff"), os.path.join(src, "SEED", "patch.diff"))
    if os.path.exists(os.path.join(filed, "notes.md")):
        shutil.copy(os.path.join(filed, "notes.md"), os.path.join(src, "SEED", "notes.md"))
    subprocess.run("git init -q", shell=True, cwd=src)
    for d in old.get("demo_files", []):
        os.makedirs(os.path.dirname(os.path.join(src, d)), exist_ok=True)
        shutil.copy(os.path.join(filed, os.path.basename(d)), os.path.join(src, d))
    patch = os.path.join(src, "SEED", "patch.diff")
    refiled = True
os.makedirs("/tmp/seedchk", exist_ok=True)
sh("git -C /repo worktree remove --force %s" % wt)
rc, out = sh("git -C /repo worktree add --detach %s HEAD" % wt)
if rc:
    sys.exit(out)
meta = {"name": name, "property": prop, "repo_head": sh("git -C /repo rev-parse --short HEAD")[1].strip()}
try:
    # demo files: untracked *_test.go / *.go files in the agent's worktree
    rc, out = sh("git status --porcelain --untracked-files=all", cwd=src)
    demos = [l[3:] for l in out.splitlines() if l.startswith("??") and not l[3:].startswith("SEED/") and l.endswith(".go")]
    meta["demo_files"] = demos
    pkgs = sorted(set("./" + os.path.dirname(d) for d in demos))
    tests = []
    for d in demos:
        os.makedirs(os.path.dirname(os.path.join(wt, d)), exist_ok=True)
        shutil.copy(os.path.join(src, d), os.path.join(wt, d))
        tests += re.findall(r"^func (Test\w+)\(", open(os.path.join(src, d)).read(), re.M)
    runre = "^(%s)$" % "|".join(tests) if tests else "."
    democmd = "go test -tags verif -vet=off -count=1 -run '%s' %s" % (runre, " ".join(pkgs))
    meta["demo_cmd"] = democmd
    rc0, out0 = sh(democmd, cwd=wt)
    meta["demo_without_change"] = "pass" if rc0 == 0 else "FAIL"
    rc, out = sh("git apply %s" % patch, cwd=wt)
    if rc:
        meta["apply"] = "FAILED: " + out[-400:]
        print(json.dumps(meta, indent=1))
        sys.exit(1)
    changed = sh("git diff --name-only", cwd=wt)[1].split()
    meta["changed_files"] = changed
    rc1, out1 = sh(democmd, cwd=wt)
    meta["demo_with_change"] = "pass" if rc1 == 0 else "FAIL"
    meta["demo_with_change_tail"] = out1[-600:]
    rc, out = sh("go build ./... 2>&1 | tail -5", cwd=wt)
    meta["build"] = "ok" if "rror" not in out else out
    # existing tests of the touched packages (demo files removed so that only the existing tests run)
    for d in demos:
        os.remove(os.path.join(wt, d))
    tp = sorted(set("./" + os.path.dirname(f) + "/..." for f in changed if f.endswith(".go")))
    rc, out = sh("go test -vet=off -count=1 %s 2>&1 | grep -E '^(--- FAIL|FAIL|ok|panic)' | head -40" % " ".join(tp), cwd=wt)
    fails = [l for l in out.splitlines() if l.startswith("--- FAIL")]
    known = ("TestIsWritable", "TestServiceNewAddresses", "TestErrMissingSignatureRecreateDB", "TestPexAddPeers")
    meta["existing_tests"] = {"packages": tp, "failures": fails, "unexpected_failures": [f for f in fails if not any(k in f for k in known)]}
    # the checks
    res = {}
    for c in checks:
        t0 = time.time()
        e = dict(ENV, VERIF_REPO=wt)
        p = subprocess.run(["/verif/check", c, "quick"], cwd="/verif", env=e, stdout=subprocess.PIPE, stderr=subprocess.STDOUT, text=True)
        lines = [l for l in p.stdout.splitlines() if re.match(r"^(OK|VIOLATION|INCONCLUSIVE|KNOWN)", l)]
        detail = [l for l in p.stdout.splitlines() if "[rapid] draw" not in l]
        res[c] = {"exit": p.returncode, "verdict": lines[-1][:300] if lines else "", "wall_s": round(time.time() - t0, 1), "detail": "\n".join(detail[-25:])[-3000:] if p.returncode else ""}
    meta["checks_quick"] = res
    meta["detected_by"] = [c for c in checks if res[c]["exit"] == 1]
    dst = "/verif/seeded/" + name
    os.makedirs(dst, exist_ok=True)
    shutil.copy(patch, os.path.join(dst, "patch.diff"))
    for d in demos:
        shutil.copy(os.path.join(src, d), os.path.join(dst, os.path.basename(d)))
    if os.path.exists(os.path.join(src, "SEED", "notes.md")):
        shutil.copy(os.path.join(src, "SEED", "notes.md"), os.path.join(dst, "notes.md"))
    if os.path.exists(os.path.join(dst, "meta.json")):
        try:
            prev = json.load(open(os.path.join(dst, "meta.json")))
            for k in ("summary", "needs_to_manifest", "history", "what_was_run"):
                if k in prev and k not in meta:
                    meta[k] = prev[k]
        except Exception:
            pass
    json.dump(meta, open(os.path.join(dst, "meta.json"), "w"), indent=1)
    short = {k: meta[k] for k in ("name", "property", "demo_without_change", "demo_with_change", "changed_files", "detected_by")}
    short["unexpected_test_failures"] = meta["existing_tests"]["unexpected_failures"]
    short["verdicts"] = {c: res[c]["verdict"][:160] for c in checks}
    print(json.dumps(short, indent=1))
finally:
    sh("git -C /repo worktree remove --force %s" % wt)
    shutil.rmtree(os.path.join("/verif/.build/alt", ""), ignore_errors=False) if False else None
