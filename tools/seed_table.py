#!/usr/bin/env python3
"""prints the markdown table of seeded changes (from seeded/*/meta.json and notes.md) for DESIGN.md section 5"""
import json, glob, os, re
rows = []
for d in sorted(glob.glob('/verif/seeded/*/')):
    m = json.load(open(d + 'meta.json'))
    notes = open(d + 'notes.md').read() if os.path.exists(d + 'notes.md') else ''
    what = (m.get('summary') or '') + (' — needs: ' + m['needs_to_manifest'] if m.get('needs_to_manifest') else '')
    if not what:
        # first non-heading paragraph of the notes
        for para in re.split(r'\n\s*\n', notes):
            p = para.strip()
            if p and not p.startswith('#'):
                what = re.sub(r'\s+', ' ', p)[:230]
                break
    det = ', '.join(m.get('detected_by', [])) or ('equivalent on the current tree' if m.get('equivalent_on_current_tree') else '**missed**')
    hist = m.get('history', '')
    rows.append('| %s | %s | %s | %s | %s |' % (m['name'], m['property'], ', '.join(os.path.basename(f) for f in m.get('changed_files', [])), what.replace('|', '/'), det + (' — ' + hist if hist else '')))
print('| id | property | file | change (from the author\'s notes) | detected by (quick tier) |')
print('|---|---|---|---|---|')
print('\n'.join(rows))
