#!/usr/bin/env python3
"""Generates the build-tag-guarded codec registries (verif_codecs.go) in /repo for property C21."""
import glob, os, re
REPO = "/repo/src"
PKGS = ["coin", "daemon", "visor", "visor/blockdb", "visor/historydb"]
os.makedirs(REPO + "/cipher/encoder/verifcodec", exist_ok=True)
open(REPO + "/cipher/encoder/verifcodec/verifcodec.go", "w").write('''//go:build verif
// +build verif

// Package verifcodec describes a generated (skyencoder) codec for the external verification harness.
// It is only compiled with the build tag "verif".
package verifcodec

// Codec gives access to the five generated functions of one type.
type Codec struct {
	Name           string
	New            func() interface{} // pointer to a zero value
	EncodeSize     func(obj interface{}) uint64
	Encode         func(obj interface{}) ([]byte, error)
	EncodeToBuffer func(buf []byte, obj interface{}) error
	Decode         func(buf []byte, obj interface{}) (uint64, error)
	DecodeExact    func(buf []byte, obj interface{}) error
}
''')
for pkg in PKGS:
    entries = []
    needs_coin = False
    for f in sorted(glob.glob("%s/%s/*_skyencoder.go" % (REPO, pkg))):
        if f.endswith("_test.go"):
            continue
        m = re.search(r"func encodeSize([A-Za-z0-9]+)\(obj \*([A-Za-z0-9.]+)\)", open(f).read())
        name, typ = m.group(1), m.group(2)
        if typ.startswith("coin."):
            needs_coin = True
        entries.append((name, typ))
    pname = pkg.split("/")[-1]
    out = ["//go:build verif", "// +build verif", "", "package %s" % pname, "", "import (",
           '\t"github.com/skycoin/skycoin/src/cipher/encoder/verifcodec"']
    if needs_coin:
        out.append('\t"github.com/skycoin/skycoin/src/coin"')
    out += [")", "", "// VerifCodecs lists the generated codecs of this package (verification hook, build tag verif).",
            "func VerifCodecs() []verifcodec.Codec {", "\treturn []verifcodec.Codec{"]
    for name, typ in entries:
        out += ["\t\t{",
                '\t\t\tName: "%s.%s",' % (pname, name),
                "\t\t\tNew:  func() interface{} { return &%s{} }," % typ,
                "\t\t\tEncodeSize: func(o interface{}) uint64 { return encodeSize%s(o.(*%s)) }," % (name, typ),
                "\t\t\tEncode: func(o interface{}) ([]byte, error) { return encode%s(o.(*%s)) }," % (name, typ),
                "\t\t\tEncodeToBuffer: func(b []byte, o interface{}) error { return encode%sToBuffer(b, o.(*%s)) }," % (name, typ),
                "\t\t\tDecode: func(b []byte, o interface{}) (uint64, error) { return decode%s(b, o.(*%s)) }," % (name, typ),
                "\t\t\tDecodeExact: func(b []byte, o interface{}) error { return decode%sExact(b, o.(*%s)) }," % (name, typ),
                "\t\t},"]
    out += ["\t}", "}", ""]
    p = "%s/%s/verif_codecs.go" % (REPO, pkg)
    open(p, "w").write("\n".join(out))
    os.system("gofmt -w %s" % p)
    print(p, len(entries))
