package crypto

import (
	"bytes"
	"crypto/sha256"
	"encoding/hex"
	"fmt"
	"strings"
	"sync"
	"testing"

	"pgregory.net/rapid"

	"github.com/skycoin/skycoin/src/cipher/base58"
	"github.com/skycoin/skycoin/src/cipher/bip32"
	"github.com/skycoin/skycoin/src/cipher/bip39"
	"github.com/skycoin/skycoin/src/cipher/bip44"

	"verif/harness/internal/ev"
	"verif/harness/internal/hx"
	"verif/harness/internal/ref/bip"
	"verif/harness/internal/ref/curve"
)

// SHA-256 of the standard BIP39 English word list (2048 lines, "\n" terminated) as published with the BIP.
const englishListSHA256 = "2f5eed53a4727b4bf8880d8f3f199efc90e58503646d9ff8eff3a2ed3b24dbda"

var (
	wlOnce sync.Once
	wl     []string
	wlErr  error
)

// wordList recovers the 2048 words through the public API (first word of the mnemonic of an
// entropy whose top 11 bits are the index) and pins the list by the hash of the standard list.
func wordList() ([]string, error) {
	wlOnce.Do(func() {
		for i := 0; i < 2048; i++ {
			ent := make([]byte, 16)
			ent[0] = byte(i >> 3)
			ent[1] = byte(i&7) << 5
			m, err := bip39.NewMnemonic(ent)
			if err != nil {
				wlErr = err
				return
			}
			wl = append(wl, strings.Split(m, " ")[0])
		}
		h := sha256.Sum256([]byte(strings.Join(wl, "\n") + "\n"))
		if hex.EncodeToString(h[:]) != englishListSHA256 {
			wlErr = fmt.Errorf("word list recovered through NewMnemonic has SHA-256 %x, the standard English list has %s", h, englishListSHA256)
		}
	})
	return wl, wlErr
}

const ruleC16 = "entropies of 16..32 bytes (and invalid sizes), word sequences = valid mnemonics with one mutation (word swapped for another list word / a non-list word, two words exchanged, wrong word count, doubled / leading / trailing space, upper case), ASCII passphrases, seeds of 0..80 bytes, derivation paths of depth <=5 with child numbers from {0,1,2,2^31-1,2^31,2^31+1,2^32-1,44',8000',random}; oracle: BIP39/BIP32/BIP44 reference on the textbook curve with stdlib HMAC-SHA512/PBKDF2 and x/crypto ripemd160; non-trivial = mutated mnemonic, or path with both hardened and normal children, or a seed/entropy size edge; distinct by input"

func TestC16_BIP39(t *testing.T) {
	r := ev.Get("C16")
	r.Rule(ruleC16)
	r.Assume("non-ASCII mnemonics/passphrases are not generated (no NFKD implementation offline); English word list pinned by its published SHA-256")
	words, err := wordList()
	if err != nil {
		t.Fatal(err)
	}
	hx.Check(t, "C16", 150, 8000, func(t *rapid.T) {
		size := rapid.SampledFrom([]int{16, 20, 24, 28, 32, 16, 32, 0, 1, 4, 12, 15, 17, 31, 33, 36, 40, 64}).Draw(t, "size")
		ent := rapid.SliceOfN(rapid.Byte(), size, size).Draw(t, "entropy")
		got, err := bip39.NewMnemonic(ent)
		want, ok := bip.Mnemonic(words, ent)
		if ok != (err == nil) {
			t.Fatalf("NewMnemonic(%d bytes): err=%v reference ok=%v", size, err, ok)
		}
		if !ok {
			r.Case(true, append([]byte("ent-bad/"), ent...))
			return
		}
		if got != want {
			t.Fatalf("NewMnemonic(%x)=%q want %q", ent, got, want)
		}
		if err := bip39.ValidateMnemonic(got); err != nil {
			t.Fatalf("ValidateMnemonic(own mnemonic %q): %v", got, err)
		}
		back, err := bip39.EntropyFromMnemonic(got)
		if err != nil || !bytes.Equal(back, ent) {
			t.Fatalf("EntropyFromMnemonic(%q)=%x,%v want %x", got, back, err, ent)
		}
		// mutated sentence
		ws := strings.Split(got, " ")
		class := rapid.SampledFrom([]string{"swap_word", "nonword", "exchange", "drop", "add", "double_space", "lead_space", "trail_space", "upper", "tab", "same"}).Draw(t, "mut")
		switch class {
		case "swap_word":
			ws[rapid.IntRange(0, len(ws)-1).Draw(t, "pos")] = words[rapid.IntRange(0, 2047).Draw(t, "w")]
		case "nonword":
			ws[rapid.IntRange(0, len(ws)-1).Draw(t, "pos")] = rapid.SampledFrom([]string{"abandonn", "zzz", "", "Ability", "été", "abandon\x00"}).Draw(t, "nw")
		case "exchange":
			i, j := rapid.IntRange(0, len(ws)-1).Draw(t, "i"), rapid.IntRange(0, len(ws)-1).Draw(t, "j")
			ws[i], ws[j] = ws[j], ws[i]
		case "drop":
			ws = ws[:len(ws)-rapid.IntRange(1, 3).Draw(t, "n")]
		case "add":
			for i := rapid.IntRange(1, 3).Draw(t, "n"); i > 0; i-- {
				ws = append(ws, words[rapid.IntRange(0, 2047).Draw(t, "w")])
			}
		}
		s := strings.Join(ws, " ")
		switch class {
		case "double_space":
			s = strings.Replace(s, " ", "  ", 1)
		case "lead_space":
			s = " " + s
		case "trail_space":
			s = s + rapid.SampledFrom([]string{" ", "\n", "\t"}).Draw(t, "ws")
		case "upper":
			s = strings.ToUpper(s[:1]) + s[1:]
		case "tab":
			s = strings.Replace(s, " ", "\t", 1)
		}
		refEnt, refOK := bip.Entropy(words, s)
		var verr error
		if p := call(func() { verr = bip39.ValidateMnemonic(s) }); p != nil {
			t.Fatalf("ValidateMnemonic(%q) panicked: %v", s, p)
		}
		if refOK != (verr == nil) {
			t.Fatalf("ValidateMnemonic(%q) [%s]: err=%v, reference valid=%v", s, class, verr, refOK)
		}
		var e2 []byte
		var eerr error
		if p := call(func() { e2, eerr = bip39.EntropyFromMnemonic(s) }); p != nil {
			t.Fatalf("EntropyFromMnemonic(%q) panicked: %v", s, p)
		}
		if refOK != (eerr == nil) || (refOK && !bytes.Equal(e2, refEnt)) {
			t.Fatalf("EntropyFromMnemonic(%q) [%s] = %x,%v; reference %x ok=%v", s, class, e2, eerr, refEnt, refOK)
		}
		// seed
		pass := rapid.StringOfN(rapid.RuneFrom(nil, asciiPrintable), 0, 24, -1).Draw(t, "pass")
		seed, serr := bip39.NewSeed(s, pass)
		if refOK != (serr == nil) {
			t.Fatalf("NewSeed(%q): err=%v, reference valid=%v", s, serr, refOK)
		}
		if refOK {
			if want := bip.Seed(s, pass); !bytes.Equal(seed, want) {
				t.Fatalf("NewSeed(%q,%q)=%x want %x", s, pass, seed, want)
			}
		}
		r.Count("bip39_" + class)
		if refOK && class != "same" {
			r.Count("bip39_mutant_still_valid")
		}
		nt := class != "same"
		r.Case(nt, []byte("m/"+s+"/"+pass))
		if r.WantSample(nt) {
			r.Sample(nt, map[string]interface{}{"kind": "bip39", "class": class, "sentence": s, "valid": refOK})
		}
	})
}

var asciiPrintable = &unicodeRange

// genChildNum draws a child number with the hardened boundary well represented.
func genChildNum() *rapid.Generator[uint32] {
	return rapid.OneOf(
		rapid.SampledFrom([]uint32{0, 1, 2, 0x7fffffff, 0x80000000, 0x80000001, 0xffffffff, 0x80000000 + 44, 0x80000000 + 8000}),
		rapid.Uint32(),
		rapid.Uint32Range(0, 20),
		rapid.Map(rapid.Uint32Range(0, 20), func(v uint32) uint32 { return v + bip.Hardened }),
	)
}

func cmpPriv(t *rapid.T, where string, got *bip32.PrivateKey, want *bip.XKey) {
	if !bytes.Equal(got.Key, b32(want.Priv)) || !bytes.Equal(got.ChainCode, want.Chain) || got.Depth != want.Depth ||
		!bytes.Equal(got.ParentFingerprint, want.ParentFP) || got.ChildNumber() != want.ChildNum {
		t.Fatalf("%s: private key mismatch: got key=%x chain=%x depth=%d fp=%x child=%d; reference key=%x chain=%x depth=%d fp=%x child=%d",
			where, got.Key, got.ChainCode, got.Depth, got.ParentFingerprint, got.ChildNumber(), b32(want.Priv), want.Chain, want.Depth, want.ParentFP, want.ChildNum)
	}
	if s := got.String(); s != base58Ref(want.Serialize()) {
		t.Fatalf("%s: xprv %q want %q", where, s, base58Ref(want.Serialize()))
	}
	if !bytes.Equal(got.Fingerprint(), want.Fingerprint()) || !bytes.Equal(got.Identifier(), want.Identifier()) {
		t.Fatalf("%s: fingerprint/identifier mismatch", where)
	}
}

func cmpPub(t *rapid.T, where string, got *bip32.PublicKey, want *bip.XKey) {
	if !bytes.Equal(got.Key, curve.Compress(want.Pub)) || !bytes.Equal(got.ChainCode, want.Chain) || got.Depth != want.Depth ||
		!bytes.Equal(got.ParentFingerprint, want.ParentFP) || got.ChildNumber() != want.ChildNum {
		t.Fatalf("%s: public key mismatch: got key=%x chain=%x depth=%d fp=%x child=%d; reference key=%x chain=%x depth=%d fp=%x child=%d",
			where, got.Key, got.ChainCode, got.Depth, got.ParentFingerprint, got.ChildNumber(), curve.Compress(want.Pub), want.Chain, want.Depth, want.ParentFP, want.ChildNum)
	}
	if s := got.String(); s != base58Ref(want.Neuter().Serialize()) {
		t.Fatalf("%s: xpub %q want %q", where, s, base58Ref(want.Neuter().Serialize()))
	}
}

func base58Ref(b []byte) string { return refB58Encode(b) }

func TestC16_BIP32(t *testing.T) {
	r := ev.Get("C16")
	r.Rule(ruleC16)
	hx.Check(t, "C16", 100, 6000, func(t *rapid.T) {
		slen := rapid.SampledFrom([]int{16, 32, 64, 16, 32, 64, 0, 1, 15, 17, 63, 65, 80}).Draw(t, "slen")
		if rapid.Bool().Draw(t, "anylen") {
			slen = rapid.IntRange(16, 64).Draw(t, "slen2")
		}
		seed := rapid.SliceOfN(rapid.Byte(), slen, slen).Draw(t, "seed")
		mk, err := bip32.NewMasterKey(seed)
		if slen < 16 || slen > 64 {
			if err == nil {
				t.Fatalf("NewMasterKey accepted a %d-byte seed", slen)
			}
			r.Case(true, append([]byte("seedlen/"), seed...))
			return
		}
		ref, rerr := bip.Master(seed)
		if (rerr == nil) != (err == nil) {
			t.Fatalf("NewMasterKey(%x): err=%v reference err=%v", seed, err, rerr)
		}
		if rerr != nil {
			return
		}
		cmpPriv(t, "master", mk, ref)
		depth := rapid.IntRange(0, 5).Draw(t, "depth")
		var path []uint32
		pathStr := "m"
		hardenedSeen, normalSeen := false, false
		cur, refCur := mk, ref
		for i := 0; i < depth; i++ {
			c := genChildNum().Draw(t, fmt.Sprintf("child%d", i))
			path = append(path, c)
			if c >= bip.Hardened {
				pathStr += fmt.Sprintf("/%d'", c-bip.Hardened)
				hardenedSeen = true
			} else {
				pathStr += fmt.Sprintf("/%d", c)
				normalSeen = true
			}
			next, err := cur.NewPrivateChildKey(c)
			refNext, rerr := refCur.CKDpriv(c)
			if (err == nil) != (rerr == nil) {
				t.Fatalf("NewPrivateChildKey(%d) at %s: err=%v reference err=%v", c, pathStr, err, rerr)
			}
			if err != nil {
				return
			}
			cmpPriv(t, pathStr, next, refNext)
			// N(CKDpriv) via the private key
			pc, err := cur.NewPublicChildKey(c)
			if err != nil {
				t.Fatalf("PrivateKey.NewPublicChildKey(%d): %v", c, err)
			}
			cmpPub(t, pathStr+" N(CKDpriv)", pc, refNext)
			// CKDpub from the neutered parent
			parentPub := cur.PublicKey()
			cmpPub(t, pathStr+" parent pub", parentPub, refCur)
			pc2, err := parentPub.NewPublicChildKey(c)
			if c >= bip.Hardened {
				if err == nil {
					t.Fatalf("PublicKey.NewPublicChildKey(%d) derived a hardened child", c)
				}
			} else {
				if err != nil {
					t.Fatalf("PublicKey.NewPublicChildKey(%d): %v", c, err)
				}
				refPub, _ := refCur.Neuter().CKDpub(c)
				cmpPub(t, pathStr+" CKDpub", pc2, refPub)
				if !bytes.Equal(pc2.Key, pc.Key) || !bytes.Equal(pc2.ChainCode, pc.ChainCode) {
					t.Fatalf("CKDpub(N(k),%d) != N(CKDpriv(k,%d)) at %s", c, c, pathStr)
				}
			}
			cur, refCur = next, refNext
		}
		// path string API
		pk, err := bip32.NewPrivateKeyFromPath(seed, pathStr)
		if err != nil {
			t.Fatalf("NewPrivateKeyFromPath(%q): %v", pathStr, err)
		}
		cmpPriv(t, "from path "+pathStr, pk, refCur)
		// the same path written with leading zeros is the same path (child numbers are decimal), and an element that is
		// not a plain decimal number (with an optional ') is no path
		if depth > 0 {
			padded := "m"
			for _, c := range path {
				z := strings.Repeat("0", rapid.IntRange(0, 2).Draw(t, "zeros"))
				if c >= bip.Hardened {
					padded += fmt.Sprintf("/%s%d'", z, c-bip.Hardened)
				} else {
					padded += fmt.Sprintf("/%s%d", z, c)
				}
			}
			pk2, err := bip32.NewPrivateKeyFromPath(seed, padded)
			if err != nil {
				t.Fatalf("NewPrivateKeyFromPath(%q) (leading zeros): %v", padded, err)
			}
			if pk2.String() != pk.String() {
				t.Fatalf("path %q and path %q (leading zeros) give different keys: %s / %s", pathStr, padded, pk.String(), pk2.String())
			}
			els := strings.Split(pathStr, "/")
			k := rapid.IntRange(1, len(els)-1).Draw(t, "badelem")
			els[k] = rapid.SampledFrom([]string{"0x2c", "0X2C'", "0b11", "0o17", "1_0", "+5", "-1", " 5", "5 ", "", "'", "5''", "4294967296", "2147483648'", "1e3", "٣"}).Draw(t, "badspelling")
			badPath := strings.Join(els, "/")
			if bk, err := bip32.NewPrivateKeyFromPath(seed, badPath); err == nil {
				t.Fatalf("NewPrivateKeyFromPath accepted %q (element %q is not a decimal child number) and derived %s", badPath, els[k], bk.String())
			}
		}
		// serialisation round trips
		xprv := cur.String()
		d, err := bip32.DeserializeEncodedPrivateKey(xprv)
		if err != nil || d.String() != xprv {
			t.Fatalf("DeserializeEncodedPrivateKey(%q): %v", xprv, err)
		}
		xpub := cur.PublicKey().String()
		dp, err := bip32.DeserializeEncodedPublicKey(xpub)
		if err != nil || dp.String() != xpub {
			t.Fatalf("DeserializeEncodedPublicKey(%q): %v", xpub, err)
		}
		// public derivation from a key that came from its serialisation: the children equal the reference, and neither the
		// caller's bytes nor the parent key change, however often it is derived from (watch-only wallets start this way)
		if refCur.Depth < 255 {
			rawPub, _ := base58.Decode(xpub)
			keep := append([]byte(nil), rawPub...)
			dk, err := bip32.DeserializePublicKey(rawPub)
			if err != nil {
				t.Fatalf("DeserializePublicKey(%x): %v", rawPub, err)
			}
			ckv := dk.Clone()
			ck := &ckv
			for _, i := range []uint32{rapid.Uint32Range(0, bip.Hardened-1).Draw(t, "pubchild1"), rapid.Uint32Range(0, bip.Hardened-1).Draw(t, "pubchild2")} {
				want, werr := refCur.Neuter().CKDpub(i)
				for _, parent := range []*bip32.PublicKey{dk, ck} {
					got, gerr := parent.NewPublicChildKey(i)
					if (werr == nil) != (gerr == nil) {
						t.Fatalf("NewPublicChildKey(%d) of the deserialised %s: err=%v, reference err=%v", i, xpub, gerr, werr)
					}
					if werr == nil {
						cmpPub(t, fmt.Sprintf("child %d of deserialised %s", i, xpub), got, want)
					}
				}
				if !bytes.Equal(rawPub, keep) {
					t.Fatalf("deriving child %d changed the caller's serialised key bytes: %x -> %x", i, keep, rawPub)
				}
				if dk.String() != xpub || ck.String() != xpub {
					t.Fatalf("deriving child %d changed the parent key: %s / %s, was %s", i, dk.String(), ck.String(), xpub)
				}
			}
		}
		if _, err := bip32.DeserializeEncodedPrivateKey(xpub); err == nil {
			t.Fatalf("xpub accepted as xprv")
		}
		if _, err := bip32.DeserializeEncodedPublicKey(xprv); err == nil {
			t.Fatalf("xprv accepted as xpub")
		}
		// a corrupted encoding must not decode to something else silently
		raw, _ := base58.Decode(xprv)
		pos := rapid.IntRange(0, len(raw)-1).Draw(t, "flip")
		raw[pos] ^= byte(1 << uint(rapid.IntRange(0, 7).Draw(t, "bit")))
		var derr error
		if p := call(func() { _, derr = bip32.DeserializePrivateKey(raw) }); p != nil {
			t.Fatalf("DeserializePrivateKey panicked on corrupted bytes %x: %v", raw, p)
		}
		if derr == nil {
			t.Fatalf("DeserializePrivateKey accepted a corrupted encoding %x", raw)
		}
		nt := hardenedSeen && normalSeen || slen == 16 || slen == 64
		r.Case(nt, append([]byte("b32/"+pathStr+"/"), seed...))
		if r.WantSample(nt) {
			r.Sample(nt, map[string]interface{}{"kind": "bip32", "seed": hex.EncodeToString(seed), "path": pathStr, "xprv": xprv})
		}
	})
}

func TestC16_BIP44(t *testing.T) {
	r := ev.Get("C16")
	r.Rule(ruleC16)
	hx.Check(t, "C16", 60, 4000, func(t *rapid.T) {
		seed := rapid.SliceOfN(rapid.Byte(), 16, 64).Draw(t, "seed")
		ct := rapid.OneOf(rapid.SampledFrom([]uint32{0, 1, 8000, 0x7fffffff, 0x80000000, 0xffffffff}), rapid.Uint32()).Draw(t, "coin")
		acct := rapid.OneOf(rapid.SampledFrom([]uint32{0, 1, 2, 0x7fffffff, 0x80000000, 0xffffffff}), rapid.Uint32Range(0, 10)).Draw(t, "account")
		chain := rapid.IntRange(0, 1).Draw(t, "chain")
		idx := genChildNum().Draw(t, "index")
		c, err := bip44.NewCoin(seed, bip44.CoinType(ct))
		if ct >= bip.Hardened {
			if err == nil {
				t.Fatalf("NewCoin accepted coin type %d", ct)
			}
			r.Case(true, []byte(fmt.Sprintf("b44badcoin/%d", ct)))
			return
		}
		if err != nil {
			t.Fatalf("NewCoin: %v", err)
		}
		a, err := c.Account(acct)
		if acct >= bip.Hardened {
			if err == nil {
				t.Fatalf("Account accepted %d", acct)
			}
			r.Case(true, []byte(fmt.Sprintf("b44badacct/%d", acct)))
			return
		}
		if err != nil {
			t.Fatalf("Account: %v", err)
		}
		var ck *bip32.PrivateKey
		if chain == 0 {
			ck, err = a.External()
		} else {
			ck, err = a.Change()
		}
		if err != nil {
			t.Fatalf("chain: %v", err)
		}
		leaf, err := ck.NewPrivateChildKey(idx)
		if err != nil {
			t.Fatalf("leaf: %v", err)
		}
		m, _ := bip.Master(seed)
		ref, rerr := m.Derive([]uint32{bip.Hardened + 44, bip.Hardened + ct, bip.Hardened + acct, uint32(chain), idx})
		if rerr != nil {
			t.Fatalf("reference derivation failed: %v", rerr)
		}
		cmpPriv(t, fmt.Sprintf("m/44'/%d'/%d'/%d/%d", ct, acct, chain, idx), leaf, ref)
		r.Case(true, append([]byte(fmt.Sprintf("b44/%d/%d/%d/%d/", ct, acct, chain, idx)), seed...))
		if r.WantSample(true) {
			r.Sample(true, map[string]interface{}{"kind": "bip44", "path": fmt.Sprintf("m/44'/%d'/%d'/%d/%d", ct, acct, chain, idx), "xprv": leaf.String()})
		}
	})
}
