package crypto

import (
	"fmt"
	"math/big"
	"testing"
	"unicode"

	"pgregory.net/rapid"

	"github.com/skycoin/skycoin/src/cipher"

	"verif/harness/internal/hx"
	"verif/harness/internal/ref/curve"
)

func TestMain(m *testing.M) {
	hx.Main(m)
}

var (
	one    = big.NewInt(1)
	two255 = new(big.Int).Lsh(one, 255)
	two256 = new(big.Int).Lsh(one, 256)
)

func b32(x *big.Int) []byte {
	out := make([]byte, 32)
	x.FillBytes(out)
	return out
}

// scalarEdges are the interesting 256-bit values for keys, hashes, r and s.
func scalarEdges() []*big.Int {
	n := curve.N
	p := curve.P
	vals := []*big.Int{
		big.NewInt(0), big.NewInt(1), big.NewInt(2), big.NewInt(3),
		new(big.Int).Sub(n, big.NewInt(2)), new(big.Int).Sub(n, one), new(big.Int).Set(n), new(big.Int).Add(n, one),
		new(big.Int).Set(curve.HalfN), new(big.Int).Add(curve.HalfN, one), new(big.Int).Sub(curve.HalfN, one),
		new(big.Int).Sub(two255, one), new(big.Int).Set(two255), new(big.Int).Add(two255, one),
		new(big.Int).Sub(p, one), new(big.Int).Set(p), new(big.Int).Add(p, one),
		new(big.Int).Sub(p, n), new(big.Int).Sub(new(big.Int).Sub(p, n), one),
		new(big.Int).Sub(two256, one),
	}
	return vals
}

var sEdges = scalarEdges()

// genScalar draws a 256-bit value: mostly random, often an edge or near one.
func genScalar() *rapid.Generator[*big.Int] {
	return rapid.Custom(func(t *rapid.T) *big.Int {
		switch rapid.IntRange(0, 9).Draw(t, "smode") {
		case 0, 1:
			return new(big.Int).Set(rapid.SampledFrom(sEdges).Draw(t, "edge"))
		case 2:
			return big.NewInt(int64(rapid.IntRange(0, 1000).Draw(t, "small")))
		default:
			b := rapid.SliceOfN(rapid.Byte(), 32, 32).Draw(t, "bytes")
			return new(big.Int).SetBytes(b)
		}
	})
}

// genValidScalar draws d with 1 <= d < n.
func genValidScalar() *rapid.Generator[*big.Int] {
	return rapid.Custom(func(t *rapid.T) *big.Int {
		for i := 0; ; i++ {
			d := genScalar().Draw(t, fmt.Sprintf("d%d", i))
			if curve.ValidScalar(d) {
				return d
			}
		}
	})
}

func mustSec(d *big.Int) cipher.SecKey {
	var s cipher.SecKey
	copy(s[:], b32(d))
	return s
}

func hashOf(m *big.Int) cipher.SHA256 {
	var h cipher.SHA256
	copy(h[:], b32(m))
	return h
}

func sigOf(r, s *big.Int, recid byte) cipher.Sig {
	var sig cipher.Sig
	copy(sig[0:32], b32(r))
	copy(sig[32:64], b32(s))
	sig[64] = recid
	return sig
}

// call runs f and converts a panic into an error so that the oracle can say "must not panic".
func call(f func()) (p interface{}) {
	defer func() { p = recover() }()
	f()
	return nil
}

func errf(format string, a ...interface{}) error { return fmt.Errorf(format, a...) }

var unicodeRange = unicode.RangeTable{R16: []unicode.Range16{{Lo: 0x20, Hi: 0x7e, Stride: 1}}, LatinOffset: 1}
