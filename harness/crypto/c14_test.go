package crypto

import (
	"bytes"
	"crypto/sha256"
	"encoding/hex"
	"fmt"
	"math/big"
	"testing"

	"pgregory.net/rapid"

	"github.com/skycoin/skycoin/src/cipher"

	"verif/harness/internal/ev"
	"verif/harness/internal/hx"
	"verif/harness/internal/ref/curve"
)

const ruleC14 = "secret scalars / hashes / r / s drawn from {random 256-bit, 0,1,2, n-2..n+1, n/2-1..n/2+1, 2^255-1..2^255+1, p-1..p+1, p-n, 2^256-1, small ints}; 33-byte public keys from {valid, negated, wrong prefix byte, x>=p, x off curve, random}; signatures = reference-signed with chosen nonce, then mutated (r/s replaced by edges or by tiny values below p-n with recovery ids 0-3, recid 0..255, s negated); every answer compared with the textbook math/big implementation; non-trivial = an edge-class value is involved or the case is a mutated/invalid input; distinct by input bytes"

func isEdge(x *big.Int) bool {
	for _, e := range sEdges {
		if e.Cmp(x) == 0 {
			return true
		}
	}
	return false
}

// --- keys -------------------------------------------------------------------

func TestC14_SecKeyPubKey(t *testing.T) {
	r := ev.Get("C14")
	r.Rule(ruleC14)
	r.Assume("math/big and crypto/sha256 are correct; the reference curve is written from SEC1/SEC2")
	hx.Check(t, "C14", 400, 30000, func(t *rapid.T) {
		d := genScalar().Draw(t, "d")
		raw := b32(d)
		valid := curve.ValidScalar(d)
		var sk cipher.SecKey
		var err error
		if p := call(func() { sk, err = cipher.NewSecKey(raw) }); p != nil {
			t.Fatalf("NewSecKey(%x) panicked: %v", raw, p)
		}
		if valid != (err == nil) {
			t.Fatalf("NewSecKey(%x): err=%v, reference valid=%v", raw, err, valid)
		}
		var skRaw cipher.SecKey
		copy(skRaw[:], raw)
		var pk cipher.PubKey
		if p := call(func() { pk, err = cipher.PubKeyFromSecKey(skRaw) }); p != nil {
			if !valid {
				// documented contract of the low-level package: callers must validate first; the
				// exported cipher function however returns an error type, so a panic is a finding
				t.Fatalf("PubKeyFromSecKey(invalid %x) panicked: %v", raw, p)
			}
			t.Fatalf("PubKeyFromSecKey(%x) panicked: %v", raw, p)
		}
		if valid {
			if err != nil {
				t.Fatalf("PubKeyFromSecKey(%x): %v", raw, err)
			}
			want := curve.PubKey(d)
			if !bytes.Equal(pk[:], want) {
				t.Fatalf("PubKeyFromSecKey(%x)=%x want %x", raw, pk[:], want)
			}
			if sk != skRaw {
				t.Fatalf("NewSecKey changed the bytes")
			}
			addr, err := cipher.AddressFromSecKey(sk)
			if err != nil || addr != cipher.AddressFromPubKey(pk) {
				t.Fatalf("AddressFromSecKey mismatch: %v", err)
			}
		} else if err == nil {
			t.Fatalf("PubKeyFromSecKey accepted invalid secret key %x -> %x", raw, pk[:])
		}
		nt := isEdge(d) || !valid
		r.Case(nt, append([]byte("sk/"), raw...))
		if r.WantSample(nt) {
			r.Sample(nt, map[string]interface{}{"kind": "seckey", "d": hex.EncodeToString(raw), "valid": valid})
		}
	})
}

// genPubBytes draws 33 bytes covering the valid and every invalid class.
func genPubBytes(t *rapid.T) (b []byte, class string) {
	mode := rapid.IntRange(0, 8).Draw(t, "pmode")
	switch mode {
	case 7, 8: // tiny x or x just below p: y^2 = x^3+7 is tiny (or just below p), so the unreduced field values inside the
		// point arithmetic sit right at the modulus, where a carry in the reduction is easiest to lose
		k := big.NewInt(int64(rapid.IntRange(1, 4096).Draw(t, "tinyx")))
		x := k
		if mode == 8 {
			x = new(big.Int).Sub(curve.P, k)
		}
		b = append([]byte{byte(2 + rapid.IntRange(0, 1).Draw(t, "par"))}, b32(x)...)
		return b, "tiny_or_near_p_x"
	case 0:
		d := genValidScalar().Draw(t, "d")
		return curve.PubKey(d), "valid"
	case 1: // valid x, flipped parity = the negated point (still valid)
		d := genValidScalar().Draw(t, "d")
		b = curve.PubKey(d)
		b[0] ^= 1
		return b, "valid_negated"
	case 2:
		d := genValidScalar().Draw(t, "d")
		b = curve.PubKey(d)
		b[0] = rapid.SampledFrom([]byte{0, 1, 4, 5, 6, 7, 0x82, 0xff}).Draw(t, "prefix")
		return b, "bad_prefix"
	case 3: // x >= p
		off := big.NewInt(int64(rapid.IntRange(0, 1000).Draw(t, "off")))
		x := new(big.Int).Add(curve.P, off)
		if rapid.Bool().Draw(t, "top") {
			x = new(big.Int).Sub(two256, new(big.Int).Add(off, one))
		}
		b = append([]byte{byte(2 + rapid.IntRange(0, 1).Draw(t, "par"))}, b32(x)...)
		return b, "x_ge_p"
	case 4: // small / edge x
		x := genScalar().Draw(t, "x")
		b = append([]byte{byte(2 + rapid.IntRange(0, 1).Draw(t, "par"))}, b32(x)...)
		return b, "edge_x"
	default:
		b = rapid.SliceOfN(rapid.Byte(), 33, 33).Draw(t, "raw")
		if rapid.Bool().Draw(t, "fixprefix") {
			b[0] = 2 + b[0]&1
		}
		return b, "random"
	}
}

func TestC14_PubKeyParse(t *testing.T) {
	r := ev.Get("C14")
	r.Rule(ruleC14)
	hx.Check(t, "C14", 1500, 100000, func(t *rapid.T) {
		b, class := genPubBytes(t)
		_, refOK := curve.ParseCompressed(b)
		var err error
		var pk cipher.PubKey
		if p := call(func() { pk, err = cipher.NewPubKey(b) }); p != nil {
			t.Fatalf("NewPubKey(%x) [%s] panicked: %v (reference valid=%v)", b, class, p, refOK)
		}
		if refOK != (err == nil) {
			t.Fatalf("NewPubKey(%x) [%s]: err=%v, reference valid=%v", b, class, err, refOK)
		}
		if refOK && !bytes.Equal(pk[:], b) {
			t.Fatalf("NewPubKey changed bytes")
		}
		// PubKey.Verify on a raw array must agree too
		var raw cipher.PubKey
		copy(raw[:], b)
		var verr error
		if p := call(func() { verr = raw.Verify() }); p != nil {
			t.Fatalf("PubKey.Verify(%x) panicked: %v", b, p)
		}
		if refOK != (verr == nil) {
			t.Fatalf("PubKey.Verify(%x): %v, reference valid=%v", b, verr, refOK)
		}
		r.Count("pub_" + class)
		nt := class != "valid"
		r.Case(nt, append([]byte("pk/"), b...))
		if r.WantSample(nt) && class != "random" {
			r.Sample(nt, map[string]interface{}{"kind": "pubkey", "bytes": hex.EncodeToString(b), "class": class, "reference_valid": refOK})
		}
	})
}

// --- signing ------------------------------------------------------------------

func TestC14_Sign(t *testing.T) {
	r := ev.Get("C14")
	r.Rule(ruleC14)
	hx.Check(t, "C14", 150, 10000, func(t *rapid.T) {
		d := genValidScalar().Draw(t, "d")
		m := genScalar().Draw(t, "m")
		sk := mustSec(d)
		h := hashOf(m)
		var sig cipher.Sig
		var err error
		if p := call(func() { sig, err = cipher.SignHash(h, sk) }); p != nil {
			t.Fatalf("SignHash(m=%x,d=%x) panicked: %v", h[:], sk[:], p)
		}
		if m.Sign() == 0 {
			if err == nil {
				t.Fatalf("SignHash signed the null hash")
			}
			r.Case(true, []byte("sign/null"))
			return
		}
		if err != nil {
			t.Fatalf("SignHash(m=%x,d=%x): %v", h[:], sk[:], err)
		}
		rr := new(big.Int).SetBytes(sig[0:32])
		ss := new(big.Int).SetBytes(sig[32:64])
		Q := curve.Mul(d, curve.G())
		if !curve.Verify(Q, m, rr, ss) {
			t.Fatalf("signature by SignHash does not verify under the reference: m=%x d=%x sig=%x", h[:], sk[:], sig[:])
		}
		if ss.Cmp(curve.HalfN) > 0 {
			t.Fatalf("SignHash produced a high-s signature %x", sig[:])
		}
		if sig[64] >= 4 {
			t.Fatalf("SignHash produced recid %d", sig[64])
		}
		rec, ok := curve.Recover(m, rr, ss, int(sig[64]))
		if !ok || !rec.Equal(Q) {
			t.Fatalf("reference recovery from SignHash output gives another key (recid %d)", sig[64])
		}
		pk, err := cipher.PubKeyFromSig(sig, h)
		if err != nil || !bytes.Equal(pk[:], curve.Compress(Q)) {
			t.Fatalf("PubKeyFromSig(SignHash) = %x,%v want %x", pk[:], err, curve.Compress(Q))
		}
		nt := isEdge(d) || isEdge(m)
		r.Case(nt, append(append([]byte("sign/"), sk[:]...), h[:]...))
	})
}

// refJudge evaluates a 65-byte signature for (pub, m) with the textbook maths.
// validECDSA: r,s in range and verifies; recovered: what recovery with this recid yields.
func refJudge(pub []byte, m *big.Int, sig cipher.Sig) (validECDSA bool, recovered []byte, recOK bool) {
	rr := new(big.Int).SetBytes(sig[0:32])
	ss := new(big.Int).SetBytes(sig[32:64])
	if q, ok := curve.ParseCompressed(pub); ok {
		validECDSA = curve.Verify(q, m, rr, ss)
	}
	if sig[64] < 4 {
		if p, ok := curve.Recover(m, rr, ss, int(sig[64])); ok {
			recovered, recOK = curve.Compress(p), true
		}
	}
	return
}

// genSigCase builds (pub, m, sig) starting from a reference signature and applying a mutation.
func genSigCase(t *rapid.T) (pub []byte, m *big.Int, sig cipher.Sig, class string) {
	d := genValidScalar().Draw(t, "d")
	k := genValidScalar().Draw(t, "k")
	m = genScalar().Draw(t, "m")
	mut := rapid.IntRange(0, 14).Draw(t, "mut")
	related := ""
	if mut >= 12 {
		// key, nonce and hash algebraically related so that the point additions inside verification / recovery meet
		// their special cases (adding a point to itself or to its negation) - honest signatures never do
		c := big.NewInt(int64(2*rapid.IntRange(0, 7).Draw(t, "c") + 1))
		kr := curve.Mul(k, curve.G())
		r0 := new(big.Int).Mod(kr.X, curve.N)
		switch mut {
		case 12: // recovery: s*R and -m*G coincide (d = 2ck, m = -c*k*r)
			d = new(big.Int).Mul(big.NewInt(2), c)
			d.Mul(d, k).Mod(d, curve.N)
			m = new(big.Int).Mul(c, k)
			m.Mul(m, r0).Neg(m).Mod(m, curve.N)
			related = "related_recover_doubling"
		case 13: // verification: (m/s)*G and (r/s)*Q coincide (m = r*d)
			m = new(big.Int).Mul(r0, d)
			m.Mod(m, curve.N)
			related = "related_verify_doubling"
		case 14: // small multiples: d = c*k, m = c*k*r (u1*G = u2*Q as well, through a different table entry)
			d = new(big.Int).Mul(c, k)
			d.Mod(d, curve.N)
			m = new(big.Int).Mul(d, r0)
			m.Mod(m, curve.N)
			related = "related_small_multiple"
		}
		if !curve.ValidScalar(d) || m.Sign() == 0 {
			d, m, related = big.NewInt(7), big.NewInt(11), ""
		}
	}
	rr, ss, recid, ok := curve.Sign(d, m, k)
	if !ok {
		rr, ss, recid = big.NewInt(1), big.NewInt(1), 0
	}
	pub = curve.PubKey(d)
	class = "valid"
	if related != "" && ok {
		return pub, m, sigOf(rr, ss, byte(recid)), related
	}
	switch mut {
	case 0, 1:
	case 2:
		ss = new(big.Int).Sub(curve.N, ss) // high-s twin, recid not flipped
		class = "s_negated"
	case 3:
		ss = new(big.Int).Sub(curve.N, ss)
		recid ^= 1
		class = "s_negated_recid_flipped"
	case 4:
		rr = new(big.Int).Set(rapid.SampledFrom(sEdges).Draw(t, "redge"))
		class = "r_edge"
		if rapid.Bool().Draw(t, "rtiny") {
			// r is the x coordinate of the point the recovery starts from: anyone can choose it
			rr = big.NewInt(int64(rapid.IntRange(1, 4096).Draw(t, "tinyr")))
			if ss.Cmp(curve.HalfN) > 0 {
				ss = new(big.Int).Sub(curve.N, ss)
			}
			// (recovery ids 2 and 3 say that the x coordinate is r + n; that is below p only for r < p - n, about
			// 2^128 - exactly the tiny values)
			recid = rapid.IntRange(0, 3).Draw(t, "tinyrecid")
			if recid >= 2 && rapid.Bool().Draw(t, "tinywide") {
				rr = new(big.Int).SetBytes(rapid.SliceOfN(rapid.Byte(), 16, 16).Draw(t, "tinyr128"))
				if rr.Sign() == 0 {
					rr = big.NewInt(1)
				}
			}
			class = "r_tiny"
		}
	case 5:
		ss = new(big.Int).Set(rapid.SampledFrom(sEdges).Draw(t, "sedge"))
		class = "s_edge"
	case 6:
		recid = rapid.IntRange(0, 255).Draw(t, "recid")
		if rapid.Bool().Draw(t, "recid_alias") {
			// bytes whose low two bits are the true recovery id: code that masks the byte instead of judging it takes them
			recid = (recid & 3) | rapid.SampledFrom([]int{4, 8, 16, 32, 64, 128, 252}).Draw(t, "recid_high")
		}
		class = "recid_any"
	case 7:
		recid ^= 1
		class = "recid_parity"
	case 8:
		recid ^= 2
		class = "recid_overflow_bit"
	case 9:
		m = new(big.Int).Xor(m, new(big.Int).Lsh(one, uint(rapid.IntRange(0, 255).Draw(t, "bit"))))
		class = "other_message"
	case 10:
		pub = curve.PubKey(genValidScalar().Draw(t, "d2"))
		class = "other_key"
	case 11:
		raw := rapid.SliceOfN(rapid.Byte(), 65, 65).Draw(t, "rawsig")
		copy(sig[:], raw)
		if rapid.Bool().Draw(t, "lowrec") {
			sig[64] &= 3
		}
		return pub, m, sig, "random_sig"
	}
	if rr.Cmp(two256) >= 0 || ss.Cmp(two256) >= 0 || rr.Sign() < 0 || ss.Sign() < 0 {
		rr, ss = big.NewInt(1), big.NewInt(1)
	}
	return pub, m, sigOf(rr, ss, byte(recid)), class
}

func TestC14_VerifyRecover(t *testing.T) {
	r := ev.Get("C14")
	r.Rule(ruleC14)
	hx.Check(t, "C14", 300, 20000, func(t *rapid.T) {
		pub, m, sig, class := genSigCase(t)
		h := hashOf(m)
		var pk cipher.PubKey
		copy(pk[:], pub)
		validECDSA, recovered, recOK := refJudge(pub, m, sig)
		ss := new(big.Int).SetBytes(sig[32:64])
		lowS := ss.Cmp(curve.HalfN) <= 0
		band := !lowS && ss.Cmp(two255) < 0 // the bit-255 test lets these through (tracked under C10)

		// 1. verification by public key
		var verr error
		if p := call(func() { verr = cipher.VerifyPubKeySignedHash(pk, sig, h) }); p != nil {
			t.Fatalf("VerifyPubKeySignedHash panicked [%s]: %v  pub=%x m=%x sig=%x", class, p, pub, h[:], sig[:])
		}
		refAccept := validECDSA && sig[64] < 4 && recOK && bytes.Equal(recovered, pub)
		if verr == nil && !refAccept {
			t.Fatalf("VerifyPubKeySignedHash accepted [%s] but the reference rejects (validECDSA=%v recid=%d recOK=%v): pub=%x m=%x sig=%x", class, validECDSA, sig[64], recOK, pub, h[:], sig[:])
		}
		if verr != nil && refAccept && lowS {
			t.Fatalf("VerifyPubKeySignedHash rejected [%s] (%v) a valid low-s signature with a correct recovery id: pub=%x m=%x sig=%x", class, verr, pub, h[:], sig[:])
		}
		// 2. verification by address
		addr := cipher.AddressFromPubKey(pk)
		var aerr error
		if p := call(func() { aerr = cipher.VerifyAddressSignedHash(addr, sig, h) }); p != nil {
			t.Fatalf("VerifyAddressSignedHash panicked [%s]: %v  m=%x sig=%x", class, p, h[:], sig[:])
		}
		if aerr == nil && !refAccept {
			t.Fatalf("VerifyAddressSignedHash accepted [%s] but the reference rejects: pub=%x m=%x sig=%x", class, pub, h[:], sig[:])
		}
		if aerr != nil && refAccept && lowS {
			t.Fatalf("VerifyAddressSignedHash rejected [%s] (%v) a valid signature: pub=%x m=%x sig=%x", class, aerr, pub, h[:], sig[:])
		}
		// 3. recovery
		var rpk cipher.PubKey
		var rerr error
		if p := call(func() { rpk, rerr = cipher.PubKeyFromSig(sig, h) }); p != nil {
			t.Fatalf("PubKeyFromSig panicked [%s]: %v m=%x sig=%x", class, p, h[:], sig[:])
		}
		if sig[64] < 4 {
			if recOK != (rerr == nil) {
				t.Fatalf("PubKeyFromSig [%s]: err=%v, reference recoverable=%v  m=%x sig=%x", class, rerr, recOK, h[:], sig[:])
			}
			if recOK && !bytes.Equal(rpk[:], recovered) {
				t.Fatalf("PubKeyFromSig [%s] = %x, reference %x  m=%x sig=%x", class, rpk[:], recovered, h[:], sig[:])
			}
		}
		// 4. VerifySignatureRecoverPubKey: accept => recoverable, low bit-255, recid<4
		var verr2 error
		if p := call(func() { verr2 = cipher.VerifySignatureRecoverPubKey(sig, h) }); p != nil {
			t.Fatalf("VerifySignatureRecoverPubKey panicked [%s]: %v", class, p)
		}
		if verr2 == nil && (!recOK || sig[64] >= 4) {
			t.Fatalf("VerifySignatureRecoverPubKey accepted an unrecoverable signature [%s] m=%x sig=%x", class, h[:], sig[:])
		}
		if verr2 != nil && recOK && lowS {
			t.Fatalf("VerifySignatureRecoverPubKey rejected (%v) a recoverable low-s signature [%s] m=%x sig=%x", verr2, class, h[:], sig[:])
		}
		if band {
			r.Count("sig_high_s_band_seen")
		}
		r.Count("sig_" + class)
		if verr == nil {
			r.Count("sig_accepted")
		}
		nt := class != "valid"
		r.Case(nt, append(append(append([]byte("vr/"), pub...), h[:]...), sig[:]...))
		if r.WantSample(nt) && class != "random_sig" {
			r.Sample(nt, map[string]interface{}{"kind": "verify", "class": class, "pub": hex.EncodeToString(pub), "hash": h.Hex(), "sig": hex.EncodeToString(sig[:]), "accepted": verr == nil, "reference_accepts": refAccept})
		}
	})
}

// --- ECDH ---------------------------------------------------------------------

func TestC14_ECDH(t *testing.T) {
	r := ev.Get("C14")
	r.Rule(ruleC14)
	hx.Check(t, "C14", 200, 15000, func(t *rapid.T) {
		pub, class := genPubBytes(t)
		d := genScalar().Draw(t, "sec")
		var pk cipher.PubKey
		copy(pk[:], pub)
		sk := mustSec(d)
		q, pubOK := curve.ParseCompressed(pub)
		secOK := curve.ValidScalar(d)
		var out []byte
		var err error
		if p := call(func() { out, err = cipher.ECDH(pk, sk) }); p != nil {
			t.Fatalf("ECDH(%x,%x) panicked: %v", pub, sk[:], p)
		}
		if (pubOK && secOK) != (err == nil) {
			t.Fatalf("ECDH(pub=%x [%s],sec=%x): err=%v reference pubOK=%v secOK=%v", pub, class, sk[:], err, pubOK, secOK)
		}
		if err == nil {
			pt, _ := curve.ECDHPoint(q, d)
			want := sha256.Sum256(pt)
			if !bytes.Equal(out, want[:]) {
				t.Fatalf("ECDH(pub=%x,sec=%x)=%x want %x", pub, sk[:], out, want)
			}
			// symmetry with a second key pair
			d2 := genValidScalar().Draw(t, "d2")
			pk2 := cipher.MustPubKeyFromSecKey(mustSec(d2))
			pkA := cipher.MustPubKeyFromSecKey(sk)
			a, e1 := cipher.ECDH(pk2, sk)
			b, e2 := cipher.ECDH(pkA, mustSec(d2))
			if e1 != nil || e2 != nil || !bytes.Equal(a, b) {
				t.Fatalf("ECDH not symmetric: %v %v", e1, e2)
			}
		}
		nt := class != "valid" || isEdge(d)
		r.Case(nt, append(append([]byte("ecdh/"), pub...), sk[:]...))
	})
}

// --- deterministic sequences ----------------------------------------------------

func TestC14_Deterministic(t *testing.T) {
	r := ev.Get("C14")
	r.Rule(ruleC14)
	hx.Check(t, "C14", 40, 3000, func(t *rapid.T) {
		seed := rapid.SliceOfN(rapid.Byte(), 1, 80).Draw(t, "seed")
		n := rapid.IntRange(1, 4).Draw(t, "n")
		next, keys, err := cipher.GenerateDeterministicKeyPairsSeed(seed, n)
		if err != nil {
			t.Fatalf("GenerateDeterministicKeyPairsSeed: %v", err)
		}
		cur := seed
		for i := 0; i < n; i++ {
			nx, pub, sec := curve.DeterministicKeyPairIterator(cur)
			if !bytes.Equal(keys[i][:], sec) {
				t.Fatalf("deterministic key %d of seed %x: got %x, reference %x", i, seed, keys[i][:], sec)
			}
			pk, err := cipher.PubKeyFromSecKey(keys[i])
			if err != nil || !bytes.Equal(pk[:], pub) {
				t.Fatalf("deterministic pubkey %d mismatch", i)
			}
			cur = nx
		}
		if !bytes.Equal(next, cur) {
			t.Fatalf("next seed mismatch: %x vs %x", next, cur)
		}
		// reproducible and single-step API agrees
		next2, keys2, _ := cipher.GenerateDeterministicKeyPairsSeed(seed, n)
		if !bytes.Equal(next, next2) || fmt.Sprint(keys) != fmt.Sprint(keys2) {
			t.Fatalf("deterministic generation not reproducible")
		}
		p1, s1, err := cipher.GenerateDeterministicKeyPair(seed)
		if err != nil || s1 != keys[0] || p1 != cipher.MustPubKeyFromSecKey(keys[0]) {
			t.Fatalf("GenerateDeterministicKeyPair disagrees with the sequence")
		}
		// split generation = one-shot generation
		if n >= 2 {
			mid, a, _ := cipher.GenerateDeterministicKeyPairsSeed(seed, 1)
			_, b, _ := cipher.GenerateDeterministicKeyPairsSeed(mid, n-1)
			if fmt.Sprint(append(a, b...)) != fmt.Sprint(keys) {
				t.Fatalf("split deterministic generation differs")
			}
		}
		r.Case(n >= 2, append([]byte("det/"), seed...))
		if r.WantSample(n >= 2) {
			r.Sample(n >= 2, map[string]interface{}{"kind": "deterministic", "seed": hex.EncodeToString(seed), "n": n})
		}
	})
	if _, _, err := cipher.GenerateDeterministicKeyPair(nil); err == nil {
		t.Fatal("empty seed accepted")
	}
}
