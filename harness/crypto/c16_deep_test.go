package crypto

import (
	"bytes"
	"fmt"
	"testing"

	"pgregory.net/rapid"

	"github.com/skycoin/skycoin/src/cipher/bip32"

	"verif/harness/internal/ev"
	"verif/harness/internal/hx"
	"verif/harness/internal/ref/bip"
)

// TestC16_DeepChains: derivation chains down to the deepest level an extended key can describe (the depth is one byte).
// At every level the private child, the public child of the private parent and the public child of the neutered parent
// are compared with the reference; public derivation must succeed exactly where private derivation does - including
// the last step to depth 255 and the refusal to go beyond it.
func TestC16_DeepChains(t *testing.T) {
	r := ev.Get("C16")
	r.Rule("deep chains: a generated seed and 255 generated child numbers (normal and hardened mixed, the last ten normal) derived level by level down to depth 255 and one step beyond; oracle: every private child, its neutered form and (for normal indexes) the child of the neutered parent equal the reference derivation, key serialisations carry the level in their depth byte and round-trip, public derivation of a normal child succeeds exactly when private derivation does - both work from depth 254, both refuse from depth 255; non-trivial = the chain reached depth 255; distinct by seed and path")
	hx.Check(t, "C16", 2, 36, func(t *rapid.T) {
		seed := rapid.SliceOfN(rapid.Byte(), 32, 32).Draw(t, "seed")
		mk, err := bip32.NewMasterKey(seed)
		ref, rerr := bip.Master(seed)
		if (err == nil) != (rerr == nil) {
			t.Fatalf("NewMasterKey(%x): err=%v reference err=%v", seed, err, rerr)
		}
		if err != nil {
			t.Skip("seed gives no master key")
		}
		cur, refCur := mk, ref
		reached := 0
		for d := 0; d <= 255; d++ {
			var c uint32
			if d >= 245 || rapid.IntRange(0, 3).Draw(t, "hardened") != 0 {
				c = rapid.Uint32Range(0, 50).Draw(t, "child")
			} else {
				c = bip.Hardened + rapid.Uint32Range(0, 50).Draw(t, "hchild")
			}
			where := fmt.Sprintf("depth %d child %d", d, c)
			if int(cur.Depth) != d {
				t.Fatalf("%s: key reports depth %d", where, cur.Depth)
			}
			next, perr := cur.NewPrivateChildKey(c)
			var pubFromPriv, pubFromPub *bip32.PublicKey
			var e1, e2 error
			if c < bip.Hardened {
				pubFromPriv, e1 = cur.NewPublicChildKey(c)
				pubFromPub, e2 = cur.PublicKey().NewPublicChildKey(c)
				if (perr == nil) != (e1 == nil) || (perr == nil) != (e2 == nil) {
					t.Fatalf("%s: private derivation err=%v, public derivation via the private key err=%v, via the public key err=%v - they must succeed or fail together", where, perr, e1, e2)
				}
			}
			if d == 255 {
				if perr == nil {
					t.Fatalf("%s: derived a child below the deepest level (child depth byte %d)", where, next.Depth)
				}
				break
			}
			refNext, rerr := refCur.CKDpriv(c)
			if (perr == nil) != (rerr == nil) {
				t.Fatalf("%s: NewPrivateChildKey err=%v, reference err=%v", where, perr, rerr)
			}
			if perr != nil {
				t.Skip("invalid child on the way down") // probability 2^-127
			}
			if d%16 == 0 || d >= 240 {
				cmpPriv(t, where, next, refNext)
			} else if !bytes.Equal(next.Key, b32(refNext.Priv)) || !bytes.Equal(next.ChainCode, refNext.Chain) {
				t.Fatalf("%s: private child differs from the reference", where)
			}
			if c < bip.Hardened {
				cmpPub(t, where+" N(CKDpriv)", pubFromPriv, refNext)
				cmpPub(t, where+" CKDpub", pubFromPub, refNext)
			}
			if d >= 250 {
				xprv, xpub := next.String(), next.PublicKey().String()
				if dk, err := bip32.DeserializeEncodedPrivateKey(xprv); err != nil || dk.String() != xprv || dk.Depth != next.Depth {
					t.Fatalf("%s: xprv of the child does not round-trip: %v", where, err)
				}
				if dk, err := bip32.DeserializeEncodedPublicKey(xpub); err != nil || dk.String() != xpub || dk.Depth != next.Depth {
					t.Fatalf("%s: xpub of the child does not round-trip: %v", where, err)
				}
			}
			cur, refCur = next, refNext
			reached = d + 1
		}
		nt := reached == 255
		r.Case(nt, append([]byte("deep/"), seed...))
		r.Count("deep_chains")
		if r.WantSample(nt) {
			r.Sample(nt, map[string]interface{}{"kind": "deep chain", "depth_reached": reached, "xpub_at_255": cur.PublicKey().String()})
		}
	})
}
