package crypto

import (
	"bytes"
	"crypto/sha256"
	"encoding/hex"
	"math/big"
	"strconv"
	"strings"
	"testing"

	"pgregory.net/rapid"

	"github.com/skycoin/skycoin/src/cipher"
	"github.com/skycoin/skycoin/src/cipher/base58"

	"verif/harness/internal/ev"
	"verif/harness/internal/hx"
)

const b58Alphabet = "123456789ABCDEFGHJKLMNPQRSTUVWXYZabcdefghijkmnopqrstuvwxyz"

var big58 = big.NewInt(58)

// refB58Encode is the big-integer definition of base58 with '1' for each leading zero byte.
func refB58Encode(b []byte) string {
	z := 0
	for z < len(b) && b[z] == 0 {
		z++
	}
	n := new(big.Int).SetBytes(b)
	var digits []byte
	m := new(big.Int)
	for n.Sign() > 0 {
		n.DivMod(n, big58, m)
		digits = append(digits, b58Alphabet[m.Int64()])
	}
	for i, j := 0, len(digits)-1; i < j; i, j = i+1, j-1 {
		digits[i], digits[j] = digits[j], digits[i]
	}
	return strings.Repeat("1", z) + string(digits)
}

// refB58Decode: ok=false for the empty string or any character outside the alphabet.
func refB58Decode(s string) ([]byte, bool) {
	if s == "" {
		return nil, false
	}
	n := new(big.Int)
	for i := 0; i < len(s); i++ {
		idx := strings.IndexByte(b58Alphabet, s[i])
		if idx < 0 {
			return nil, false
		}
		n.Mul(n, big58)
		n.Add(n, big.NewInt(int64(idx)))
	}
	z := 0
	for z < len(s) && s[z] == '1' {
		z++
	}
	return append(make([]byte, z), n.Bytes()...), true
}

func checkB58Bytes(b []byte) error {
	got := base58.Encode(b)
	want := refB58Encode(b)
	if got != want {
		return errf("Encode(%x)=%q want %q", b, got, want)
	}
	if len(b) == 0 {
		return nil // the empty string is documented as not decodable
	}
	back, err := base58.Decode(got)
	if err != nil || !bytes.Equal(back, b) {
		return errf("Decode(Encode(%x)=%q) = %x,%v", b, got, back, err)
	}
	return nil
}

func checkB58String(s string) (bool, error) {
	var got []byte
	var err error
	if p := call(func() { got, err = base58.Decode(s) }); p != nil {
		return false, errf("Decode(%q) panicked: %v", s, p)
	}
	want, ok := refB58Decode(s)
	if ok != (err == nil) {
		return ok, errf("Decode(%q): err=%v, reference ok=%v (%x)", s, err, ok, want)
	}
	if ok {
		if !bytes.Equal(got, want) {
			return ok, errf("Decode(%q)=%x want %x", s, got, want)
		}
		if re := base58.Encode(got); re != s {
			return ok, errf("Decode(%q) succeeded but Encode gives %q (not canonical)", s, re)
		}
	}
	return ok, nil
}

const ruleC15 = "exhaustive: all byte strings of length <=2 and all strings of length <=3 over a 70-symbol set (58 alphabet chars + 0 O I l space NUL 0x7f 0x80 e-acute U+FFFD U+1F600 '-'); random: byte strings up to 80 bytes with leading zero runs, strings over alphabet+hostile symbols up to 60 chars, address strings = valid addresses with 0-2 character edits / bad checksum / bad version / wrong length; oracle: math/big definition of base58, canonical re-encoding, reference address construction (sha256); non-trivial = input has a leading zero/'1' run, a non-alphabet character, or is an edited address; distinct by input"

func TestC15_Exhaustive(t *testing.T) {
	r := ev.Get("C15")
	r.Rule(ruleC15)
	r.Assume("math/big and crypto/sha256 are correct")
	n := 0
	for l := 0; l <= 2; l++ {
		b := make([]byte, l)
		total := 1
		for i := 0; i < l; i++ {
			total *= 256
		}
		for v := 0; v < total; v++ {
			x := v
			for i := l - 1; i >= 0; i-- {
				b[i] = byte(x)
				x >>= 8
			}
			if err := checkB58Bytes(b); err != nil {
				t.Fatal(err)
			}
			r.Case(l > 0 && b[0] == 0, append([]byte("xb/"), b...))
			n++
		}
	}
	syms := []string{}
	for _, c := range b58Alphabet {
		syms = append(syms, string(c))
	}
	syms = append(syms, "0", "O", "I", "l", " ", "\x00", "\x7f", "\x80", "é", "�", "\U0001F600", "-")
	var rec func(prefix string, depth int)
	rec = func(prefix string, depth int) {
		ok, err := checkB58String(prefix)
		if err != nil {
			t.Fatal(err)
		}
		nt := !ok || strings.HasPrefix(prefix, "1")
		r.Case(nt, []byte("xs/"+prefix))
		n++
		if depth == 3 {
			return
		}
		for _, s := range syms {
			rec(prefix+s, depth+1)
		}
	}
	rec("", 0)
	r.Set("exhaustive_part_cases", n)
	r.Sample(true, map[string]interface{}{"kind": "exhaustive", "byte_strings_up_to_len": 2, "strings_up_to_len": 3, "symbols": len(syms), "cases": n})
}

func genB58ish() *rapid.Generator[string] {
	hostile := []rune(b58Alphabet + "0OIl \x00\x7f\u0080é�-+/=")
	return rapid.OneOf(
		rapid.StringOfN(rapid.RuneFrom([]rune(b58Alphabet)), 0, 60, -1),
		rapid.StringOfN(rapid.RuneFrom(hostile), 0, 40, -1),
		rapid.Custom(func(t *rapid.T) string {
			return strings.Repeat("1", rapid.IntRange(0, 40).Draw(t, "ones")) + rapid.StringOfN(rapid.RuneFrom([]rune(b58Alphabet)), 0, 40, -1).Draw(t, "tail")
		}),
		rapid.String(),
	)
}

func TestC15_Random(t *testing.T) {
	r := ev.Get("C15")
	r.Rule(ruleC15)
	hx.Check(t, "C15", 20000, 1000000, func(t *rapid.T) {
		if rapid.Bool().Draw(t, "bytes") {
			z := rapid.IntRange(0, 12).Draw(t, "zeros")
			if rapid.Bool().Draw(t, "nozeros") {
				z = 0
			}
			b := append(make([]byte, z), rapid.SliceOfN(rapid.Byte(), 0, 80).Draw(t, "b")...)
			if err := checkB58Bytes(b); err != nil {
				t.Fatal(err)
			}
			nt := len(b) > 0 && b[0] == 0
			r.Case(nt, append([]byte("rb/"), b...))
			if r.WantSample(nt) {
				r.Sample(nt, map[string]interface{}{"kind": "bytes", "hex": hex.EncodeToString(b), "base58": base58.Encode(b)})
			}
			return
		}
		s := genB58ish().Draw(t, "s")
		ok, err := checkB58String(s)
		if err != nil {
			t.Fatal(err)
		}
		nt := !ok || strings.HasPrefix(s, "1")
		r.Case(nt, []byte("rs/"+s))
	})
}

// refAddressText builds the canonical text of an address from its parts.
func refAddressText(key [20]byte, version byte) string {
	body := append(append([]byte{}, key[:]...), version)
	sum := sha256.Sum256(body)
	return refB58Encode(append(body, sum[:4]...))
}

// refAddressDecode: the 25 bytes must be key||0||checksum.
func refAddressDecode(s string) (key [20]byte, ok bool) {
	b, ok := refB58Decode(s)
	if !ok || len(b) != 25 || b[20] != 0 {
		return key, false
	}
	sum := sha256.Sum256(b[:21])
	if !bytes.Equal(sum[:4], b[21:]) {
		return key, false
	}
	copy(key[:], b[:20])
	return key, true
}

func TestC15_Address(t *testing.T) {
	r := ev.Get("C15")
	r.Rule(ruleC15)
	alpha := []rune(b58Alphabet + "0OIl é")
	hx.Check(t, "C15", 10000, 500000, func(t *rapid.T) {
		var key [20]byte
		z := rapid.IntRange(0, 4).Draw(t, "zeros")
		copy(key[z:], rapid.SliceOfN(rapid.Byte(), 20-z, 20-z).Draw(t, "key"))
		addr := cipher.Address{Version: 0, Key: cipher.Ripemd160(key)}
		text := addr.String()
		if want := refAddressText(key, 0); text != want {
			t.Fatalf("Address.String()=%q want %q", text, want)
		}
		back, err := cipher.DecodeBase58Address(text)
		if err != nil || back != addr {
			t.Fatalf("DecodeBase58Address(%q)=%v,%v", text, back, err)
		}
		// mutated texts
		class := rapid.SampledFrom([]string{"edit1", "edit2", "version", "checksum", "length", "prefix1", "random", "valid_plus_tail", "valid_cut"}).Draw(t, "class")
		var s string
		switch class {
		case "edit1", "edit2":
			rs := []rune(text)
			n := 1
			if class == "edit2" {
				n = 2
			}
			for i := 0; i < n; i++ {
				pos := rapid.IntRange(0, len(rs)-1).Draw(t, "pos")
				switch rapid.IntRange(0, 2).Draw(t, "op") {
				case 0:
					rs[pos] = rapid.SampledFrom(alpha).Draw(t, "ch")
				case 1:
					rs = append(rs[:pos], rs[pos+1:]...)
				default:
					rs = append(rs[:pos], append([]rune{rapid.SampledFrom(alpha).Draw(t, "ch")}, rs[pos:]...)...)
				}
				if len(rs) == 0 {
					rs = []rune("1")
				}
			}
			s = string(rs)
		case "version":
			s = refAddressText(key, byte(rapid.IntRange(1, 255).Draw(t, "ver")))
		case "checksum":
			body := append(append([]byte{}, key[:]...), 0)
			sum := sha256.Sum256(body)
			cs := append([]byte{}, sum[:4]...)
			cs[rapid.IntRange(0, 3).Draw(t, "csb")] ^= byte(1 << uint(rapid.IntRange(0, 7).Draw(t, "bit")))
			s = refB58Encode(append(body, cs...))
		case "length":
			n := rapid.SampledFrom([]int{0, 1, 20, 21, 24, 26, 32}).Draw(t, "n")
			raw := rapid.SliceOfN(rapid.Byte(), n, n).Draw(t, "raw")
			s = refB58Encode(raw)
		case "valid_plus_tail", "valid_cut":
			// the 25 bytes of a correct address (key, version, checksum) followed by more bytes, or cut short:
			// the text is well-formed base58 and starts / ends like an address, only the length is wrong
			body := append(append([]byte{}, key[:]...), 0)
			sum := sha256.Sum256(body)
			full := append(body, sum[:4]...)
			if class == "valid_plus_tail" {
				full = append(full, rapid.SliceOfN(rapid.Byte(), 1, 8).Draw(t, "tail")...)
			} else {
				full = full[:rapid.IntRange(20, 24).Draw(t, "keep")]
			}
			s = refB58Encode(full)
		case "prefix1":
			s = "1" + text
		default:
			s = genB58ish().Draw(t, "s")
		}
		var got cipher.Address
		if p := call(func() { got, err = cipher.DecodeBase58Address(s) }); p != nil {
			t.Fatalf("DecodeBase58Address(%q) panicked: %v", s, p)
		}
		wantKey, wantOK := refAddressDecode(s)
		if wantOK != (err == nil) {
			t.Fatalf("DecodeBase58Address(%q) [%s]: err=%v, reference ok=%v", s, class, err, wantOK)
		}
		if wantOK {
			if got.Version != 0 || [20]byte(got.Key) != wantKey {
				t.Fatalf("DecodeBase58Address(%q) = %v want key %x", s, got, wantKey)
			}
			if got.String() != s {
				t.Fatalf("address text %q decodes but is not canonical (String()=%q)", s, got.String())
			}
		}
		r.Count("addr_" + class)
		if wantOK {
			r.Count("addr_mutant_still_valid")
		}
		r.Case(true, []byte("ad/"+s))
		if r.WantSample(true) {
			r.Sample(true, map[string]interface{}{"kind": "address", "class": class, "text": s, "decodes": wantOK})
		}
	})
}

// TestC15_ValuesStayPut: "address text and address values correspond one-to-one" also means that a decoded value is the
// caller's: it must not change when other texts are decoded or other byte strings encoded afterwards (a decoder that hands
// out a shared buffer breaks this only for whoever keeps the result).
func TestC15_ValuesStayPut(t *testing.T) {
	r := ev.Get("C15")
	hx.Check(t, "C15", 3000, 100000, func(t *rapid.T) {
		n := rapid.IntRange(2, 6).Draw(t, "n")
		type kept struct {
			text string
			val  []byte
			copy []byte
		}
		var ks []kept
		for i := 0; i < n; i++ {
			var text string
			if rapid.Bool().Draw(t, "short") {
				// address-sized and shorter values
				b := append(make([]byte, rapid.IntRange(0, 3).Draw(t, "zeros")), rapid.SliceOfN(rapid.Byte(), 0, 25).Draw(t, "b")...)
				text = refB58Encode(b)
			} else {
				text = refB58Encode(rapid.SliceOfN(rapid.Byte(), 0, 90).Draw(t, "long"))
			}
			val, err := base58.Decode(text)
			if err != nil {
				if text == "" {
					continue
				}
				t.Fatalf("Decode(%q): %v", text, err)
			}
			ks = append(ks, kept{text, val, append([]byte(nil), val...)})
			// an encode in between must not disturb anything either
			_ = base58.Encode(rapid.SliceOfN(rapid.Byte(), 0, 40).Draw(t, "enc"))
			for j, k := range ks {
				if !bytes.Equal(k.val, k.copy) {
					t.Fatalf("the value decoded from %q changed from %x to %x after %d later calls", k.text, k.copy, k.val, len(ks)-1-j)
				}
			}
		}
		for _, k := range ks {
			want, _ := refB58Decode(k.text)
			if !bytes.Equal(k.val, want) {
				t.Fatalf("the value kept for %q is %x, the text denotes %x", k.text, k.val, want)
			}
		}
		first := ""
		if len(ks) > 0 {
			first = ks[0].text
		}
		r.Case(len(ks) >= 2, []byte("keep/"+strconv.Itoa(len(ks))+"/"+first))
		r.Count("decoded_values_kept_across_calls")
	})
}
