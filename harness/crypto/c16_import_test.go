package crypto

import (
	"crypto/sha256"
	"fmt"
	"math/big"
	"testing"

	"pgregory.net/rapid"

	"github.com/skycoin/skycoin/src/cipher/bip32"

	"verif/harness/internal/ev"
	"verif/harness/internal/hx"
	"verif/harness/internal/ref/curve"
)

// TestC16_ImportedKeyRange: extended keys written by hand, byte by byte, with key material at and around the limits of
// what BIP32 allows: private keys 0, 1, small (1-3 significant bytes), n-1, n, n+1, 2^256-1; public keys that are valid
// points, x coordinates without a point, x >= p and prefixes other than 02/03.  Importing must succeed exactly for the
// keys the standard allows (1 <= k < n; a point on the curve) and then reproduce the text and the key bytes.
func TestC16_ImportedKeyRange(t *testing.T) {
	r := ev.Get("C16")
	r.Rule("imported key range: extended private and public keys are serialised by the harness (version, depth 0-5, fingerprint, child number, chain code, key material, double-SHA256 checksum, reference base58) with private keys drawn from {0, 1, 1-3 significant bytes, n-1, n, n+1, 2^256-1, random} and public keys from {valid point, x without a point, x >= p, wrong prefix}; the implementation must import exactly the keys BIP32 allows (1 <= k < n; a point on the curve), and an imported key must print as the same text and hold the same key bytes; non-trivial = key material at a limit (not the random / valid-point class)")
	hx.Check(t, "C16", 300, 20000, func(t *rapid.T) {
		depth := byte(rapid.IntRange(0, 5).Draw(t, "depth"))
		var fp, child [4]byte
		if depth > 0 {
			copy(fp[:], rapid.SliceOfN(rapid.Byte(), 4, 4).Draw(t, "fp"))
			copy(child[:], rapid.SliceOfN(rapid.Byte(), 4, 4).Draw(t, "child"))
		}
		cc := rapid.SliceOfN(rapid.Byte(), 32, 32).Draw(t, "chaincode")
		build := func(version []byte, keydata []byte) string {
			b := append([]byte{}, version...)
			b = append(b, depth)
			b = append(b, fp[:]...)
			b = append(b, child[:]...)
			b = append(b, cc...)
			b = append(b, keydata...)
			h1 := sha256.Sum256(b)
			h2 := sha256.Sum256(h1[:])
			return refB58Encode(append(b, h2[:4]...))
		}
		if rapid.Bool().Draw(t, "private") {
			class := rapid.SampledFrom([]string{"zero", "one", "small", "small", "n-1", "n", "n+1", "max", "random"}).Draw(t, "class")
			k := new(big.Int)
			switch class {
			case "one":
				k.SetInt64(1)
			case "small":
				k.SetBytes(rapid.SliceOfN(rapid.Byte(), 1, 3).Draw(t, "k"))
			case "n-1":
				k.Sub(curve.N, big.NewInt(1))
			case "n":
				k.Set(curve.N)
			case "n+1":
				k.Add(curve.N, big.NewInt(1))
			case "max":
				k.Sub(new(big.Int).Lsh(big.NewInt(1), 256), big.NewInt(1))
			case "random":
				k.SetBytes(rapid.SliceOfN(rapid.Byte(), 32, 32).Draw(t, "k"))
			}
			kb := make([]byte, 32)
			k.FillBytes(kb)
			text := build([]byte{0x04, 0x88, 0xAD, 0xE4}, append([]byte{0}, kb...))
			want := curve.ValidScalar(k)
			var got *bip32.PrivateKey
			var err error
			if p := call(func() { got, err = bip32.DeserializeEncodedPrivateKey(text) }); p != nil {
				t.Fatalf("DeserializeEncodedPrivateKey(%s) panicked (key %x): %v", text, kb, p)
			}
			if want != (err == nil) {
				t.Fatalf("extended private key with key %x (class %s): BIP32 allows it = %v, import error = %v\n text %s", kb, class, want, err, text)
			}
			if err == nil {
				if got.String() != text || fmt.Sprintf("%x", got.Key) != fmt.Sprintf("%x", kb) {
					t.Fatalf("imported private key %s prints as %s with key %x, want key %x", text, got.String(), got.Key, kb)
				}
				if pk := got.PublicKey(); fmt.Sprintf("%x", pk.Key) != fmt.Sprintf("%x", curve.PubKey(k)) {
					t.Fatalf("public key of imported %s: %x, reference %x", text, pk.Key, curve.PubKey(k))
				}
			}
			nt := class != "random"
			r.Case(nt, []byte("imp/"+text))
			r.Count("import_private_" + class)
			return
		}
		class := rapid.SampledFrom([]string{"valid", "valid", "no_point", "x_ge_p", "prefix"}).Draw(t, "class")
		var kd []byte
		want := false
		switch class {
		case "valid":
			d := new(big.Int).SetBytes(rapid.SliceOfN(rapid.Byte(), 32, 32).Draw(t, "d"))
			if !curve.ValidScalar(d) {
				t.Skip("scalar out of range")
			}
			kd, want = curve.PubKey(d), true
		case "no_point":
			x := new(big.Int).SetBytes(rapid.SliceOfN(rapid.Byte(), 32, 32).Draw(t, "x"))
			for tries := 0; ; tries++ {
				if _, ok := curve.LiftX(x, false); !ok && x.Cmp(curve.P) < 0 {
					break
				}
				x.Add(x, big.NewInt(1))
				x.Mod(x, curve.P)
				if tries > 64 {
					t.Skip("no x without a point found")
				}
			}
			kd = append([]byte{byte(2 + rapid.IntRange(0, 1).Draw(t, "odd"))}, make([]byte, 32)...)
			x.FillBytes(kd[1:])
		case "x_ge_p":
			x := new(big.Int).Add(curve.P, big.NewInt(int64(rapid.IntRange(0, 900).Draw(t, "over"))))
			kd = append([]byte{byte(2 + rapid.IntRange(0, 1).Draw(t, "odd"))}, make([]byte, 32)...)
			x.FillBytes(kd[1:])
		case "prefix":
			d := new(big.Int).SetBytes(rapid.SliceOfN(rapid.Byte(), 32, 32).Draw(t, "d"))
			if !curve.ValidScalar(d) {
				t.Skip("scalar out of range")
			}
			kd = curve.PubKey(d)
			kd[0] = rapid.SampledFrom([]byte{0, 1, 4, 5, 6, 7, 0x82, 0xff}).Draw(t, "prefix")
		}
		text := build([]byte{0x04, 0x88, 0xB2, 0x1E}, kd)
		var got *bip32.PublicKey
		var err error
		if p := call(func() { got, err = bip32.DeserializeEncodedPublicKey(text) }); p != nil {
			t.Fatalf("DeserializeEncodedPublicKey(%s) panicked (key %x): %v", text, kd, p)
		}
		if want != (err == nil) {
			t.Fatalf("extended public key with key data %x (class %s): BIP32 allows it = %v, import error = %v\n text %s", kd, class, want, err, text)
		}
		if err == nil && (got.String() != text || fmt.Sprintf("%x", got.Key) != fmt.Sprintf("%x", kd)) {
			t.Fatalf("imported public key %s prints as %s with key %x, want %x", text, got.String(), got.Key, kd)
		}
		nt := class != "valid"
		r.Case(nt, []byte("imp/"+text))
		r.Count("import_public_" + class)
	})
}
