package crypto

import (
	"bytes"
	"crypto/sha256"
	"encoding/hex"
	"math/big"
	"testing"

	"github.com/skycoin/skycoin/src/cipher"

	"verif/harness/internal/ev"
	"verif/harness/internal/ref/curve"
)

// Replay tier of C14: the recorded failing inputs (KNOWN_FINDINGS.txt) as plain cases.
func TestC14_Regressions(t *testing.T) {
	r := ev.Get("C14")
	// scalar multiplication of the point with x = 43 (and other tiny x) against the textbook curve, through ECDH
	for xv := int64(1); xv <= 64; xv++ {
		pb := append([]byte{2}, b32(big.NewInt(xv))...)
		q, ok := curve.ParseCompressed(pb)
		var pk cipher.PubKey
		copy(pk[:], pb)
		for i := 0; i < 24; i++ {
			h := sha256.Sum256([]byte{byte(xv), byte(i), 1})
			d := new(big.Int).SetBytes(h[:])
			d.Mod(d, curve.N)
			if i == 0 {
				d, _ = new(big.Int).SetString("0104010100000400010000050a00000100000000000000000000000000000000", 16)
			}
			if !curve.ValidScalar(d) {
				continue
			}
			sk := mustSec(d)
			var out []byte
			var err error
			if p := call(func() { out, err = cipher.ECDH(pk, sk) }); p != nil {
				t.Fatalf("ECDH(%x,%x) panicked: %v", pb, sk[:], p)
			}
			if ok != (err == nil) {
				t.Fatalf("ECDH(%x,%x): err=%v, reference says the public key is valid=%v", pb, sk[:], err, ok)
			}
			if ok {
				want, _ := curve.ECDHPoint(q, d)
				ws := sha256.Sum256(want)
				if !bytes.Equal(out, ws[:]) {
					t.Fatalf("ECDH(%x,%x) = %x, reference %x", pb, sk[:], out, ws[:])
				}
			}
			r.CaseS(true, "regress/ecdh/"+hex.EncodeToString(pb)+hex.EncodeToString(sk[:]))
		}
	}
	// recovery from signatures whose r is tiny
	for rv := int64(1); rv <= 64; rv++ {
		for i := 0; i < 12; i++ {
			h := sha256.Sum256([]byte{byte(rv), byte(i), 2})
			s := new(big.Int).SetBytes(h[:])
			s.Mod(s, curve.HalfN)
			if s.Sign() == 0 {
				continue
			}
			m := sha256.Sum256([]byte{byte(rv), byte(i), 3})
			sig := sigOf(big.NewInt(rv), s, byte(i%2))
			var hash cipher.SHA256
			copy(hash[:], m[:])
			var pk cipher.PubKey
			var err error
			if p := call(func() { pk, err = cipher.PubKeyFromSig(sig, hash) }); p != nil {
				t.Fatalf("PubKeyFromSig(sig=%x, hash=%x) panicked: %v", sig[:], hash[:], p)
			}
			want, ok := curve.Recover(new(big.Int).SetBytes(hash[:]), big.NewInt(rv), s, i%2)
			if ok != (err == nil) {
				t.Fatalf("PubKeyFromSig(sig=%x, hash=%x): err=%v, reference recoverable=%v", sig[:], hash[:], err, ok)
			}
			if ok && !bytes.Equal(pk[:], curve.Compress(want)) {
				t.Fatalf("PubKeyFromSig(sig=%x, hash=%x) = %x, reference %x", sig[:], hash[:], pk[:], curve.Compress(want))
			}
			if p := call(func() { _ = cipher.VerifySignatureRecoverPubKey(sig, hash) }); p != nil {
				t.Fatalf("VerifySignatureRecoverPubKey(sig=%x) panicked: %v", sig[:], p)
			}
			r.CaseS(true, "regress/recover/"+hex.EncodeToString(sig[:]))
		}
	}
	// secret key = n, public key with x >= p
	if p := call(func() { _, _ = cipher.PubKeyFromSecKey(mustSec(curve.N)) }); p != nil {
		t.Fatalf("PubKeyFromSecKey(n) panicked: %v", p)
	}
	bad, _ := hex.DecodeString("02fffffffffffffffffffffffffffffffffffffffffffffffffffffffefffffc2f")
	if p := call(func() { _, _ = cipher.NewPubKey(bad) }); p != nil {
		t.Fatalf("NewPubKey(x=p) panicked: %v", p)
	}
}
