package crypto

import (
	"bytes"
	"encoding/hex"
	"fmt"
	"math/big"
	"testing"

	"pgregory.net/rapid"

	"github.com/skycoin/skycoin/src/cipher"
	"github.com/skycoin/skycoin/src/cipher/encoder"
	"github.com/skycoin/skycoin/src/coin"

	"verif/harness/internal/ev"
	"verif/harness/internal/gen"
	"verif/harness/internal/hx"
	"verif/harness/internal/ref/curve"
)

const ruleC10 = "valid signatures / signed transactions (1-3 inputs, 1-3 outputs) / signed blocks over harness keys, then third-party mutations: every single bit of the encoding (sampled in quick, all bits in thorough), s->n-s with and without recovery-id flip, r->r+n, recid+4k, appended/prepended/truncated bytes, input/signature reordering, Length changes, re-encoding; plus signatures constructed algebraically with a chosen s (high half, and the (n/2,2^255) band); oracle: any accepted mutant must be byte-identical to the original, every accepted/produced signature has s<=n/2 and recid<4 (math/big); non-trivial = the mutant still decodes (txn/block) or is a structured signature mutation; distinct by mutant bytes"

// accepts reports whether the node-side checks accept sig for (pub/addr, h) in the role "signature of this key".
func sigAccepted(pk cipher.PubKey, sig cipher.Sig, h cipher.SHA256) (bool, string) {
	var e1, e2 error
	if p := call(func() { e1 = cipher.VerifyPubKeySignedHash(pk, sig, h) }); p != nil {
		return false, fmt.Sprintf("panic: %v", p)
	}
	if p := call(func() { e2 = cipher.VerifyAddressSignedHash(cipher.AddressFromPubKey(pk), sig, h) }); p != nil {
		return false, fmt.Sprintf("panic: %v", p)
	}
	if (e1 == nil) != (e2 == nil) {
		// the two verifiers are allowed to differ only in the checks VerifyPubKeySignedHash adds; report through caller
		return e1 == nil || e2 == nil, ""
	}
	return e1 == nil, ""
}

func TestC10_SigMutation(t *testing.T) {
	r := ev.Get("C10")
	r.Rule(ruleC10)
	r.Assume("third-party model: the mutator knows every byte of the signed object and all public data but no secret key; no attempt is made to break ECDSA or SHA256")
	hx.Check(t, "C10", 120, 6000, func(t *rapid.T) {
		d := genValidScalar().Draw(t, "d")
		m := genScalar().Draw(t, "m")
		if m.Sign() == 0 {
			m = big.NewInt(1)
		}
		sk := mustSec(d)
		h := hashOf(m)
		pk := cipher.MustPubKeyFromSecKey(sk)
		sig := cipher.MustSignHash(h, sk)
		ss := new(big.Int).SetBytes(sig[32:64])
		rr := new(big.Int).SetBytes(sig[0:32])
		if ss.Cmp(curve.HalfN) > 0 || sig[64] >= 4 {
			t.Fatalf("SignHash produced a high-s / bad recid signature %x", sig[:])
		}
		if ok, p := sigAccepted(pk, sig, h); !ok {
			t.Fatalf("fresh signature not accepted %s", p)
		}
		try := func(mut cipher.Sig, class string) {
			if mut == sig {
				return
			}
			ok, p := sigAccepted(pk, mut, h)
			if p != "" {
				t.Fatalf("verification panicked on mutant [%s] %x: %s", class, mut[:], p)
			}
			if ok {
				t.Fatalf("malleated signature accepted [%s]: original %x mutant %x (pub %x hash %x)", class, sig[:], mut[:], pk[:], h[:])
			}
			r.Count("sigmut_" + class)
			r.Case(class != "bitflip", append([]byte("sm/"), mut[:]...))
		}
		// s -> n-s
		neg := new(big.Int).Sub(curve.N, ss)
		try(sigOf(rr, neg, sig[64]), "s_negated")
		try(sigOf(rr, neg, sig[64]^1), "s_negated_recid_flipped")
		// r -> r+n when it fits
		if rn := new(big.Int).Add(rr, curve.N); rn.Cmp(two256) < 0 {
			try(sigOf(rn, ss, sig[64]), "r_plus_n")
			try(sigOf(rn, ss, sig[64]^2), "r_plus_n_recid")
		}
		// s -> s+n when it fits
		if sn := new(big.Int).Add(ss, curve.N); sn.Cmp(two256) < 0 {
			try(sigOf(rr, sn, sig[64]), "s_plus_n")
		}
		// recovery id re-encodings
		for k := 1; k < 64; k++ {
			mut := sig
			mut[64] = sig[64] + byte(4*k)
			try(mut, "recid_plus_4k")
		}
		for _, rec := range []byte{0, 1, 2, 3} {
			mut := sig
			mut[64] = rec
			try(mut, "recid_other")
		}
		// bit flips
		var bits []int
		if hx.Thorough() {
			for i := 0; i < 65*8; i++ {
				bits = append(bits, i)
			}
		} else {
			bits = rapid.SliceOfN(rapid.IntRange(0, 65*8-1), 24, 24).Draw(t, "bits")
			for i := 64 * 8; i < 65*8; i++ {
				bits = append(bits, i)
			}
		}
		for _, b := range bits {
			mut := sig
			mut[b/8] ^= 1 << uint(b%8)
			try(mut, "bitflip")
		}
		if r.WantSample(true) {
			r.Sample(true, map[string]interface{}{"kind": "sig_mutation", "pub": hex.EncodeToString(pk[:]), "hash": h.Hex(), "sig": hex.EncodeToString(sig[:]), "mutants_tried": len(bits) + 70})
		}
	})
}

// constructSig builds a signature valid for public key d*G with a chosen s:
// pick k, r = (kG).x mod n, then m = s*k - r*d (mod n).
func constructSig(d, k, s *big.Int) (m *big.Int, sig cipher.Sig, ok bool) {
	R := curve.Mul(k, curve.G())
	if R.Inf {
		return nil, sig, false
	}
	rr := new(big.Int).Mod(R.X, curve.N)
	if rr.Sign() == 0 {
		return nil, sig, false
	}
	recid := 0
	if R.X.Cmp(curve.N) >= 0 {
		recid |= 2
	}
	if R.Y.Bit(0) == 1 {
		recid |= 1
	}
	m = new(big.Int).Mul(s, k)
	m.Sub(m, new(big.Int).Mul(rr, d))
	m.Mod(m, curve.N)
	if m.Sign() == 0 {
		return nil, sig, false
	}
	return m, sigOf(rr, s, byte(recid)), true
}

// TestC10_ChosenS: signatures that verify mathematically but carry a chosen s.
// s <= n/2 must be accepted, s >= 2^255 must be rejected, and the band n/2 < s < 2^255
// is the known finding (bit-255 test instead of a comparison with n/2).
func TestC10_ChosenS(t *testing.T) {
	r := ev.Get("C10")
	r.Rule(ruleC10)
	bandWidth := new(big.Int).Sub(two255, curve.HalfN) // s in (HalfN, 2^255)
	bandAccepted := 0
	var bandExample string
	hx.Check(t, "C10", 120, 6000, func(t *rapid.T) {
		d := genValidScalar().Draw(t, "d")
		k := genValidScalar().Draw(t, "k")
		zone := rapid.SampledFrom([]string{"low", "band", "high", "high", "edge"}).Draw(t, "zone")
		var s *big.Int
		switch zone {
		case "low":
			s = new(big.Int).Mod(genValidScalar().Draw(t, "s"), curve.HalfN)
			s.Add(s, one)
		case "band":
			off := new(big.Int).Mod(genScalar().Draw(t, "off"), new(big.Int).Sub(bandWidth, one))
			s = new(big.Int).Add(curve.HalfN, one)
			s.Add(s, off)
		case "high":
			span := new(big.Int).Sub(curve.N, two255)
			off := new(big.Int).Mod(genScalar().Draw(t, "off"), span)
			s = new(big.Int).Add(two255, off)
		default:
			s = new(big.Int).Set(rapid.SampledFrom([]*big.Int{
				new(big.Int).Set(curve.HalfN), new(big.Int).Add(curve.HalfN, one), new(big.Int).Sub(two255, one), new(big.Int).Set(two255),
				new(big.Int).Sub(curve.N, one), big.NewInt(1)}).Draw(t, "sedge"))
		}
		m, sig, ok := constructSig(d, k, s)
		if !ok {
			return
		}
		pk := cipher.MustPubKeyFromSecKey(mustSec(d))
		Q := curve.Mul(d, curve.G())
		if !curve.Verify(Q, m, new(big.Int).SetBytes(sig[0:32]), s) {
			panic("harness: constructed signature does not verify under the reference")
		}
		h := hashOf(m)
		accepted, p := sigAccepted(pk, sig, h)
		if p != "" {
			t.Fatalf("verification panicked on constructed signature: %s", p)
		}
		isLow := s.Cmp(curve.HalfN) <= 0
		inBand := !isLow && s.Cmp(two255) < 0
		switch {
		case isLow && !accepted:
			t.Fatalf("valid low-s signature rejected: pub=%x hash=%x sig=%x", pk[:], h[:], sig[:])
		case !isLow && !inBand && accepted:
			t.Fatalf("high-s signature (s >= 2^255) accepted: pub=%x hash=%x sig=%x", pk[:], h[:], sig[:])
		case inBand && accepted:
			if !hx.IsKnown("C10", "high-s-band") {
				t.Fatalf("high-s signature accepted: s=%x lies in (n/2, 2^255): pub=%x hash=%x sig=%x", b32(s), pk[:], h[:], sig[:])
			}
			bandAccepted++
			if bandExample == "" {
				bandExample = fmt.Sprintf("pub=%x hash=%x sig=%x", pk[:], h[:], sig[:])
			}
			r.Count("excluded_known_high_s_band")
			// the same signature inside a transaction is then accepted as well; nothing more to learn
		}
		r.Count("chosen_s_" + zone)
		r.Case(true, append([]byte("cs/"), sig[:]...))
		if r.WantSample(true) {
			r.Sample(true, map[string]interface{}{"kind": "chosen_s", "zone": zone, "sig": hex.EncodeToString(sig[:]), "hash": h.Hex(), "accepted": accepted})
		}
	})
	if bandAccepted > 0 {
		hx.ReportKnown("C10", "high-s-band")
		ev.Get("C10").Set("known_high_s_band_example", bandExample)
	}
}

// --- transactions -------------------------------------------------------------------

type txnCase struct {
	txn    coin.Transaction
	uxs    coin.UxArray
	owners []gen.Key
	bytes  []byte
}

func genSignedTxn(t *rapid.T) txnCase {
	nIn := rapid.IntRange(1, 3).Draw(t, "nin")
	nOut := rapid.IntRange(1, 3).Draw(t, "nout")
	var c txnCase
	total := uint64(0)
	for i := 0; i < nIn; i++ {
		k := gen.KeyN(rapid.IntRange(0, 5).Draw(t, fmt.Sprintf("owner%d", i)))
		ux := gen.Ux(t, fmt.Sprintf("ux%d", i), k.Addr, 1e12, 1e9)
		c.uxs = append(c.uxs, ux)
		c.owners = append(c.owners, k)
		total += ux.Body.Coins
	}
	var outs []coin.TransactionOutput
	rem := total
	for i := 0; i < nOut; i++ {
		if rem == 0 {
			break
		}
		amt := rem
		if i < nOut-1 {
			amt = 1 + rapid.Uint64Range(0, (rem-1)/uint64(nOut)).Draw(t, fmt.Sprintf("amt%d", i))
		}
		if amt == 0 {
			break
		}
		rem -= amt
		outs = append(outs, coin.TransactionOutput{Address: gen.KeyN(6 + i).Addr, Coins: amt, Hours: uint64(i)})
	}
	c.txn = gen.SignedTxn(c.uxs, c.owners, outs)
	c.bytes = c.txn.MustSerialize()
	return c
}

// txnAccepted: would a node accept these bytes as a spend of the same unspent outputs?
func txnAccepted(b []byte, uxByHash map[cipher.SHA256]coin.UxOut) (ok bool, decoded bool, panicMsg string) {
	var txn coin.Transaction
	var err error
	if p := call(func() { txn, err = coin.DeserializeTransaction(b) }); p != nil {
		return false, false, fmt.Sprintf("DeserializeTransaction panic: %v", p)
	}
	if err != nil {
		return false, false, ""
	}
	decoded = true
	if p := call(func() { err = txn.Verify() }); p != nil {
		return false, true, fmt.Sprintf("Verify panic: %v", p)
	}
	if err != nil {
		return false, true, ""
	}
	var uxs coin.UxArray
	for _, in := range txn.In {
		ux, found := uxByHash[in]
		if !found {
			return false, true, "" // spends something that does not exist
		}
		uxs = append(uxs, ux)
	}
	if p := call(func() { err = txn.VerifyInputSignatures(uxs) }); p != nil {
		return false, true, fmt.Sprintf("VerifyInputSignatures panic: %v", p)
	}
	if err != nil {
		return false, true, ""
	}
	return true, true, ""
}

func TestC10_TxnMutation(t *testing.T) {
	r := ev.Get("C10")
	r.Rule(ruleC10)
	hx.Check(t, "C10", 60, 3000, func(t *rapid.T) {
		c := genSignedTxn(t)
		uxm := map[cipher.SHA256]coin.UxOut{}
		for _, ux := range c.uxs {
			uxm[ux.Hash()] = ux
		}
		if ok, _, p := txnAccepted(c.bytes, uxm); !ok {
			t.Fatalf("harness: fresh signed txn not accepted %s", p)
		}
		try := func(mut []byte, class string) {
			if bytes.Equal(mut, c.bytes) {
				return
			}
			ok, decoded, p := txnAccepted(mut, uxm)
			if p != "" {
				t.Fatalf("[%s] %s  original=%x mutant=%x", class, p, c.bytes, mut)
			}
			if ok {
				t.Fatalf("malleated transaction accepted [%s]:\n original=%x\n mutant  =%x", class, c.bytes, mut)
			}
			r.Count("txnmut_" + class)
			if decoded {
				r.Count("txnmut_decoded")
			}
			r.Case(decoded || class != "bitflip", append([]byte("tm/"), mut...))
		}
		reenc := func(tx coin.Transaction, fixLen bool) []byte {
			if fixLen {
				// Length and InnerHash are public, a third party can recompute them
				if s, err := tx.Size(); err == nil {
					tx.Length = s
				}
			}
			b, err := tx.Serialize()
			if err != nil {
				return c.bytes
			}
			return b
		}
		// structured mutations
		for i := range c.txn.Sigs {
			tx := c.txn
			tx.Sigs = append([]cipher.Sig(nil), c.txn.Sigs...)
			s := new(big.Int).SetBytes(tx.Sigs[i][32:64])
			rr := new(big.Int).SetBytes(tx.Sigs[i][0:32])
			neg := new(big.Int).Sub(curve.N, s)
			tx.Sigs[i] = sigOf(rr, neg, tx.Sigs[i][64]^1)
			try(reenc(tx, false), "sig_s_negated_recid_flipped")
			tx.Sigs[i] = sigOf(rr, neg, c.txn.Sigs[i][64])
			try(reenc(tx, false), "sig_s_negated")
			tx.Sigs[i] = c.txn.Sigs[i]
			tx.Sigs[i][64] += 4
			try(reenc(tx, false), "sig_recid_plus_4")
		}
		if len(c.txn.In) >= 2 {
			for _, swapSigs := range []bool{false, true} {
				for _, fix := range []bool{false, true} {
					tx := c.txn
					tx.In = append([]cipher.SHA256(nil), c.txn.In...)
					tx.Sigs = append([]cipher.Sig(nil), c.txn.Sigs...)
					tx.In[0], tx.In[1] = tx.In[1], tx.In[0]
					if swapSigs {
						tx.Sigs[0], tx.Sigs[1] = tx.Sigs[1], tx.Sigs[0]
					}
					if fix {
						tx.InnerHash = tx.HashInner()
					}
					try(reenc(tx, true), fmt.Sprintf("swap_inputs_sigs%v_rehash%v", swapSigs, fix))
				}
			}
		}
		if len(c.txn.Out) >= 2 {
			tx := c.txn
			tx.Out = append([]coin.TransactionOutput(nil), c.txn.Out...)
			tx.Out[0], tx.Out[1] = tx.Out[1], tx.Out[0]
			try(reenc(tx, true), "swap_outputs")
			tx.InnerHash = tx.HashInner()
			try(reenc(tx, true), "swap_outputs_rehash")
		}
		{ // duplicate a signature / drop one / extra null sig
			tx := c.txn
			tx.Sigs = append(append([]cipher.Sig(nil), c.txn.Sigs...), c.txn.Sigs[0])
			try(reenc(tx, true), "extra_sig")
			tx.Sigs = append([]cipher.Sig(nil), c.txn.Sigs[:len(c.txn.Sigs)-1]...)
			try(reenc(tx, true), "dropped_sig")
			for _, dl := range []int{-1, 1, 4, 256} {
				tx := c.txn
				tx.Length = uint32(int(c.txn.Length) + dl)
				try(reenc(tx, false), "length_field")
			}
			tx = c.txn
			tx.Type = 1
			try(reenc(tx, false), "type_field")
		}
		// byte-level: append / prepend / truncate
		for _, n := range []int{1, 2, 4, 8} {
			try(append(append([]byte(nil), c.bytes...), make([]byte, n)...), "append_zero")
			try(append(append([]byte(nil), c.bytes...), bytes.Repeat([]byte{0xff}, n)...), "append_ff")
			try(append(make([]byte, n), c.bytes...), "prepend")
			try(c.bytes[:len(c.bytes)-n], "truncate")
		}
		// patch the length prefixes of the three slices (re-encoding attempts)
		for _, off := range []int{37} {
			for _, d := range []byte{1, 0xff} {
				mut := append([]byte(nil), c.bytes...)
				mut[off] += d
				try(mut, "slice_len_prefix")
			}
		}
		// bit flips
		total := len(c.bytes) * 8
		var bits []int
		if hx.Thorough() && len(c.txn.In) <= 2 {
			for i := 0; i < total; i++ {
				bits = append(bits, i)
			}
		} else {
			bits = rapid.SliceOfN(rapid.IntRange(0, total-1), 64, 64).Draw(t, "bits")
		}
		for _, b := range bits {
			mut := append([]byte(nil), c.bytes...)
			mut[b/8] ^= 1 << uint(b%8)
			try(mut, "bitflip")
		}
		if r.WantSample(true) {
			r.Sample(true, map[string]interface{}{"kind": "txn_mutation", "inputs": len(c.txn.In), "outputs": len(c.txn.Out), "encoded_len": len(c.bytes), "bitflips": len(bits), "txn_hex": hex.EncodeToString(c.bytes)})
		}
	})
}

// --- blocks -----------------------------------------------------------------------------

// blockAccepted: signature by the publisher key over the decoded header, and the body hash matches the header.
func blockAccepted(b []byte, pub cipher.PubKey) (ok bool, decoded bool, panicMsg string) {
	var sb coin.SignedBlock
	var err error
	if p := call(func() { err = encoder.DeserializeRawExact(b, &sb) }); p != nil {
		return false, false, fmt.Sprintf("decode panic: %v", p)
	}
	if err != nil {
		return false, false, ""
	}
	decoded = true
	if p := call(func() { err = sb.VerifySignature(pub) }); p != nil {
		return false, true, fmt.Sprintf("VerifySignature panic: %v", p)
	}
	if err != nil {
		return false, true, ""
	}
	var bh cipher.SHA256
	if p := call(func() { bh = sb.Body.Hash() }); p != nil {
		return false, true, fmt.Sprintf("Body.Hash panic: %v", p)
	}
	if bh != sb.Head.BodyHash {
		return false, true, ""
	}
	for i := range sb.Body.Transactions {
		if p := call(func() { err = sb.Body.Transactions[i].Verify() }); p != nil {
			return false, true, fmt.Sprintf("txn Verify panic: %v", p)
		}
		if err != nil {
			return false, true, ""
		}
	}
	return true, true, ""
}

func TestC10_BlockMutation(t *testing.T) {
	r := ev.Get("C10")
	r.Rule(ruleC10)
	hx.Check(t, "C10", 40, 2000, func(t *rapid.T) {
		publisher := gen.KeyN(9)
		nTx := rapid.IntRange(1, 2).Draw(t, "ntx")
		var txns coin.Transactions
		for i := 0; i < nTx; i++ {
			txns = append(txns, genSignedTxn(t).txn)
		}
		body := coin.BlockBody{Transactions: txns}
		head := coin.BlockHeader{
			Version:  0,
			Time:     rapid.Uint64Range(1, 1<<40).Draw(t, "time"),
			BkSeq:    rapid.Uint64Range(1, 1<<30).Draw(t, "seq"),
			Fee:      rapid.Uint64().Draw(t, "fee"),
			PrevHash: gen.SHA(t, "prev"),
			BodyHash: body.Hash(),
			UxHash:   gen.SHA(t, "uxhash"),
		}
		sb := coin.SignedBlock{Block: coin.Block{Head: head, Body: body}}
		sb.Sig = cipher.MustSignHash(head.Hash(), publisher.Sec)
		orig := encoder.Serialize(sb)
		if ok, _, p := blockAccepted(orig, publisher.Pub); !ok {
			t.Fatalf("harness: fresh signed block not accepted %s", p)
		}
		try := func(mut []byte, class string) {
			if bytes.Equal(mut, orig) {
				return
			}
			ok, decoded, p := blockAccepted(mut, publisher.Pub)
			if p != "" {
				t.Fatalf("[%s] %s original=%x mutant=%x", class, p, orig, mut)
			}
			if ok {
				t.Fatalf("malleated block accepted [%s]:\n original=%x\n mutant  =%x", class, orig, mut)
			}
			r.Count("blockmut_" + class)
			r.Case(decoded || class != "bitflip", append([]byte("bm/"), mut...))
		}
		// signature malleation
		s := new(big.Int).SetBytes(sb.Sig[32:64])
		rr := new(big.Int).SetBytes(sb.Sig[0:32])
		neg := new(big.Int).Sub(curve.N, s)
		for _, ms := range []cipher.Sig{sigOf(rr, neg, sb.Sig[64]), sigOf(rr, neg, sb.Sig[64]^1)} {
			m := sb
			m.Sig = ms
			try(encoder.Serialize(m), "block_sig_s_negated")
		}
		m := sb
		m.Sig[64] += 4
		try(encoder.Serialize(m), "block_sig_recid_plus_4")
		// malleate a signature of a transaction inside the body (body hash covers it)
		{
			m := sb
			m.Body.Transactions = append(coin.Transactions(nil), sb.Body.Transactions...)
			tx := m.Body.Transactions[0]
			tx.Sigs = append([]cipher.Sig(nil), tx.Sigs...)
			ts := new(big.Int).SetBytes(tx.Sigs[0][32:64])
			tr := new(big.Int).SetBytes(tx.Sigs[0][0:32])
			tx.Sigs[0] = sigOf(tr, new(big.Int).Sub(curve.N, ts), tx.Sigs[0][64]^1)
			m.Body.Transactions[0] = tx
			try(encoder.Serialize(m), "inner_txn_sig_negated")
			m.Head.BodyHash = m.Body.Hash() // public recomputation; header signature must then fail
			try(encoder.Serialize(m), "inner_txn_sig_negated_bodyhash_fixed")
		}
		if len(txns) == 2 {
			m := sb
			m.Body.Transactions = coin.Transactions{txns[1], txns[0]}
			try(encoder.Serialize(m), "txn_reorder")
			m.Head.BodyHash = m.Body.Hash()
			try(encoder.Serialize(m), "txn_reorder_bodyhash_fixed")
		}
		for _, n := range []int{1, 4} {
			try(append(append([]byte(nil), orig...), make([]byte, n)...), "append")
			try(orig[:len(orig)-n], "truncate")
		}
		total := len(orig) * 8
		var bits []int
		if hx.Thorough() && nTx == 1 {
			for i := 0; i < total; i++ {
				bits = append(bits, i)
			}
		} else {
			bits = rapid.SliceOfN(rapid.IntRange(0, total-1), 64, 64).Draw(t, "bits")
		}
		for _, b := range bits {
			mut := append([]byte(nil), orig...)
			mut[b/8] ^= 1 << uint(b%8)
			try(mut, "bitflip")
		}
		if r.WantSample(true) {
			r.Sample(true, map[string]interface{}{"kind": "block_mutation", "txns": nTx, "encoded_len": len(orig), "bitflips": len(bits)})
		}
	})
}
