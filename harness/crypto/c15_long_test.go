package crypto

import (
	"fmt"
	"strings"
	"testing"

	"pgregory.net/rapid"

	"verif/harness/internal/ev"
	"verif/harness/internal/hx"
)

// TestC15_LongInputs: "every byte string" includes strings far longer than any key or address.  The encoder works in a
// buffer whose size it estimates from the input length and the decoder in one estimated from the text length; an estimate
// that is slightly short only shows on long inputs with a large value (high leading byte), so these are generated on
// purpose: 100-4096 bytes, filled with 0xff / a high first byte / random bytes, with and without leading zero bytes, and
// the matching texts (all 'z', which is the largest digit) for the decoder.
func TestC15_LongInputs(t *testing.T) {
	r := ev.Get("C15")
	r.Rule("long inputs: byte strings of 100-4096 bytes (all 0xff, high first byte then random, random; 0-3 leading zero bytes) are encoded and decoded by the library and by the big-integer reference and must agree in both directions, and texts of 100-5000 digits (all 'z', 'z' then random digits, random digits; 0-3 leading '1') are decoded by both and re-encoded; a panic is a failure; non-trivial = at least 1500 bytes or 2000 digits")
	hx.Check(t, "C15", 240, 6000, func(t *rapid.T) {
		if rapid.IntRange(0, 2).Draw(t, "text") == 1 {
			n := rapid.IntRange(100, 5000).Draw(t, "digits")
			var sb strings.Builder
			sb.WriteString(strings.Repeat("1", rapid.IntRange(0, 3).Draw(t, "ones")))
			switch rapid.SampledFrom([]string{"all_z", "z_then_random", "random"}).Draw(t, "fill") {
			case "all_z":
				sb.WriteString(strings.Repeat("z", n))
			case "z_then_random":
				sb.WriteString("z")
				sb.WriteString(rapid.StringOfN(rapid.RuneFrom([]rune(b58Alphabet)), n-1, n-1, -1).Draw(t, "tail"))
			default:
				sb.WriteString(rapid.StringOfN(rapid.RuneFrom([]rune(b58Alphabet)), n, n, -1).Draw(t, "s"))
			}
			s := sb.String()
			var err error
			if p := call(func() { _, err = checkB58String(s) }); p != nil {
				t.Fatalf("panic on a text of %d digits (%.20s...): %v", len(s), s, p)
			}
			if err != nil {
				t.Fatal(err)
			}
			nt := n >= 2000
			r.Case(nt, []byte("lt/"+s))
			r.Count("long_text")
			return
		}
		n := rapid.IntRange(100, 4096).Draw(t, "len")
		z := rapid.IntRange(0, 3).Draw(t, "zeros")
		b := make([]byte, z, z+n)
		switch rapid.SampledFrom([]string{"all_ff", "high_then_random", "random"}).Draw(t, "fill") {
		case "all_ff":
			for i := 0; i < n; i++ {
				b = append(b, 0xff)
			}
		case "high_then_random":
			b = append(b, byte(rapid.IntRange(0x80, 0xff).Draw(t, "first")))
			b = append(b, rapid.SliceOfN(rapid.Byte(), n-1, n-1).Draw(t, "tail")...)
		default:
			b = append(b, rapid.SliceOfN(rapid.Byte(), n, n).Draw(t, "b")...)
		}
		var err error
		if p := call(func() { err = checkB58Bytes(b) }); p != nil {
			t.Fatalf("panic on a byte string of %d bytes (first byte %#x): %v", len(b), b[0], p)
		}
		if err != nil {
			t.Fatal(err)
		}
		nt := n >= 1500
		r.Case(nt, append([]byte("lb/"), b...))
		r.Count("long_bytes")
		if r.WantSample(nt) {
			r.Sample(nt, map[string]interface{}{"kind": "long bytes", "len": len(b), "first": fmt.Sprintf("%#x", b[z])})
		}
	})
}
