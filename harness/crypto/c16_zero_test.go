package crypto

import (
	"fmt"
	"testing"

	"pgregory.net/rapid"

	"github.com/skycoin/skycoin/src/cipher/bip32"

	"verif/harness/internal/ev"
	"verif/harness/internal/hx"
	"verif/harness/internal/ref/bip"
)

// TestC16_ShortChildKeys aims at child private keys that are numerically short (one, two or more leading zero bytes
// when written as 32 bytes).  They occur once per 256 / 65536 derivations, so random paths practically never meet
// the two-byte case; here the reference derivation (HMAC only, no curve operation) scans hardened indices of a
// generated parent for such children, and the implementation must derive exactly the reference key for each of them.
func TestC16_ShortChildKeys(t *testing.T) {
	r := ev.Get("C16")
	r.Rule("aimed short keys: for a generated seed (and optionally one level of derivation) the reference scans 150000 hardened child indices for children whose 32-byte private key starts with >= 2 zero bytes (about 2 per scan) and a few with exactly 1; the implementation's private child, its public key and its serialisation must equal the reference for each; non-trivial = a child with >= 2 leading zero bytes was compared")
	hx.Check(t, "C16", 3, 160, func(t *rapid.T) {
		seed := rapid.SliceOfN(rapid.Byte(), 16, 64).Draw(t, "seed")
		mk, err := bip32.NewMasterKey(seed)
		ref, rerr := bip.Master(seed)
		if (err == nil) != (rerr == nil) {
			t.Fatalf("master key: implementation err=%v reference err=%v", err, rerr)
		}
		if err != nil {
			return
		}
		where := fmt.Sprintf("seed %x m", seed)
		if rapid.Bool().Draw(t, "deeper") {
			i := bip.Hardened + rapid.Uint32Range(0, 1000).Draw(t, "first")
			c1, e1 := mk.NewPrivateChildKey(i)
			c2, e2 := ref.CKDpriv(i)
			if (e1 == nil) != (e2 == nil) {
				t.Fatalf("%s/%d': implementation err=%v reference err=%v", where, i-bip.Hardened, e1, e2)
			}
			if e1 != nil {
				return
			}
			mk, ref = c1, c2
			where += fmt.Sprintf("/%d'", i-bip.Hardened)
		}
		start := rapid.Uint32Range(0, 1<<30).Draw(t, "start")
		var two, one []uint32
		for j := uint32(0); j < 150000; j++ {
			i := bip.Hardened + start + j
			ki, ok := ref.HardenedChildScalar(i)
			if !ok {
				continue
			}
			switch bl := ki.BitLen(); {
			case bl <= 240:
				two = append(two, i)
			case bl <= 248 && len(one) < 3:
				one = append(one, i)
			}
		}
		for _, i := range append(append([]uint32{}, two...), one...) {
			want, werr := ref.CKDpriv(i)
			got, gerr := mk.NewPrivateChildKey(i)
			if werr != nil {
				continue
			}
			if gerr != nil {
				t.Fatalf("%s/%d': the standard defines this child (key %x) but the implementation fails: %v", where, i-bip.Hardened, b32(want.Priv), gerr)
			}
			cmpPriv(t, fmt.Sprintf("%s/%d'", where, i-bip.Hardened), got, want)
			cmpPub(t, fmt.Sprintf("%s/%d' public", where, i-bip.Hardened), got.PublicKey(), want.Neuter())
			// a normal child below the short key (parent key with leading zeros enters the public-derivation path)
			w2, e2 := want.CKDpriv(1)
			g2, ge2 := got.NewPrivateChildKey(1)
			if (e2 == nil) != (ge2 == nil) {
				t.Fatalf("%s/%d'/1: implementation err=%v reference err=%v", where, i-bip.Hardened, ge2, e2)
			}
			if e2 == nil {
				cmpPriv(t, fmt.Sprintf("%s/%d'/1", where, i-bip.Hardened), g2, w2)
			}
			r.Count("short_child_keys_compared")
		}
		r.CountN("children_with_two_leading_zero_bytes", int64(len(two)))
		r.CaseS(len(two) > 0, fmt.Sprintf("short/%x/%s/%d", seed, where, start))
		if r.WantSample(len(two) > 0) && len(two) > 0 {
			r.Sample(true, map[string]interface{}{"parent": where, "hardened_indices_with_short_child_key": two})
		}
	})
}
