package txn

import (
	"bytes"
	"encoding/hex"
	"fmt"
	"math/big"
	"testing"

	"pgregory.net/rapid"

	"github.com/skycoin/skycoin/src/cipher"
	"github.com/skycoin/skycoin/src/coin"

	"verif/harness/internal/ev"
	"verif/harness/internal/gen"
	"verif/harness/internal/hx"
	"verif/harness/internal/ref/rules"
	"verif/harness/internal/ref/txref"
)

const ruleC09 = "constructive generator: well-formed transactions (1-4 inputs, 1-4 outputs, valid reference-made signatures, optionally some null signatures) followed by 0-2 rule-breaking mutations (no inputs/outputs, signature count, duplicate input, duplicate output, type, zero-coin output, output sums reaching 2^64, Length +-1, inner hash, null/corrupted signature with r/s/recid edge values), each optionally followed by recomputing the public header fields so that deeper rules are reached; byte strings: encodings with byte edits, patched length prefixes, truncations, extensions, random bytes; oracle: independent predicate wellFormed(txn, signed) using big-int sums, the reference encoder and the textbook curve must equal Verify()/VerifyUnsigned()==nil; decode ok => re-encoding is identical; non-trivial = a mutated transaction / a mutated or random byte string that still decodes; distinct by encoding"

// wellFormed is the rule set of the property statement, written independently (harness/internal/ref/rules).
func wellFormed(t *coin.Transaction, signed bool) (bool, string) { return rules.WellFormed(t, signed) }

type txnDraft struct {
	txn   coin.Transaction
	muts  []string
	nulls int
}

func fixHeader(t *coin.Transaction, length, inner bool) {
	if inner {
		t.InnerHash = txref.InnerHash(t)
	}
	if length {
		t.Length = uint32(txref.TxnSize(t))
	}
}

func signAll(t *coin.Transaction, nullMask uint) {
	t.Sigs = make([]cipher.Sig, len(t.In))
	for i := range t.In {
		if nullMask&(1<<uint(i)) != 0 {
			continue
		}
		sec := gen.KeyN(i % 4).Sec
		d := new(big.Int).SetBytes(sec[:])
		t.Sigs[i] = fastSign(d, txref.SigHash(t.InnerHash, t.In[i]), i)
	}
}

func genDraft(t *rapid.T) txnDraft {
	var d txnDraft
	nIn := rapid.IntRange(1, 4).Draw(t, "nin")
	nOut := rapid.IntRange(1, 4).Draw(t, "nout")
	for i := 0; i < nIn; i++ {
		d.txn.In = append(d.txn.In, gen.SHA(t, fmt.Sprintf("in%d", i)))
	}
	for i := 0; i < nOut; i++ {
		d.txn.Out = append(d.txn.Out, coin.TransactionOutput{
			Address: gen.KeyN(rapid.IntRange(0, 3).Draw(t, "oaddr")).Addr,
			Coins:   1 + gen.Amount(1e15).Draw(t, "ocoins"),
			Hours:   rapid.OneOf(gen.Amount(1e12), rapid.Uint64()).Draw(t, "ohours"),
		})
	}
	// force distinct outputs in the base transaction
	for i := range d.txn.Out {
		for j := 0; j < i; j++ {
			if d.txn.Out[i] == d.txn.Out[j] {
				d.txn.Out[i].Hours++
			}
		}
	}
	d.txn.InnerHash = txref.InnerHash(&d.txn)
	nullMask := uint(0)
	if rapid.IntRange(0, 2).Draw(t, "partial") == 0 {
		nullMask = uint(rapid.IntRange(0, 1<<uint(nIn)-1).Draw(t, "nullmask"))
	}
	signAll(&d.txn, nullMask)
	fixHeader(&d.txn, true, false)

	nm := rapid.SampledFrom([]int{0, 1, 1, 1, 2}).Draw(t, "nmut")
	for m := 0; m < nm; m++ {
		mut := rapid.SampledFrom([]string{"no_inputs", "no_outputs", "extra_sig", "missing_sig", "dup_input", "dup_output", "type", "zero_coin",
			"coin_overflow", "coin_max_ok", "length", "inner_hash", "null_sig", "bad_sig", "swap_outputs", "add_output"}).Draw(t, "mut")
		tx := &d.txn
		refix := rapid.Bool().Draw(t, "refix")
		resign := false
		switch mut {
		case "no_inputs":
			tx.In, tx.Sigs = nil, nil
		case "no_outputs":
			tx.Out = nil
		case "extra_sig":
			if len(tx.Sigs) > 0 {
				tx.Sigs = append(tx.Sigs, tx.Sigs[0])
			} else {
				tx.Sigs = append(tx.Sigs, cipher.Sig{})
			}
		case "missing_sig":
			if len(tx.Sigs) > 0 {
				tx.Sigs = tx.Sigs[:len(tx.Sigs)-1]
			}
		case "dup_input":
			if len(tx.In) > 0 {
				tx.In = append(tx.In, tx.In[rapid.IntRange(0, len(tx.In)-1).Draw(t, "which")])
				resign = true
			}
		case "dup_output":
			if len(tx.Out) > 0 {
				tx.Out = append(tx.Out, tx.Out[rapid.IntRange(0, len(tx.Out)-1).Draw(t, "which")])
				resign = true
			}
		case "type":
			tx.Type = byte(rapid.IntRange(1, 255).Draw(t, "type"))
		case "zero_coin":
			if len(tx.Out) > 0 {
				tx.Out[rapid.IntRange(0, len(tx.Out)-1).Draw(t, "which")].Coins = 0
				resign = true
			}
		case "coin_overflow", "coin_max_ok":
			// make the exact sum 2^64 - 1 + delta
			if len(tx.Out) >= 2 {
				for i := range tx.Out {
					tx.Out[i].Coins = 10 + uint64(i)
				}
				rest := uint64(0)
				for i := 1; i < len(tx.Out); i++ {
					rest += tx.Out[i].Coins
				}
				delta := uint64(0)
				if mut == "coin_overflow" {
					delta = 1 + rapid.Uint64Range(0, 3).Draw(t, "over")
				}
				tx.Out[0].Coins = ^uint64(0) - rest + delta // rest >= 11 > delta: no wrap here
				if mut == "coin_overflow" && len(tx.Out) >= 3 && rapid.Bool().Draw(t, "early") {
					// the sum passes 2^64 before the last output is added (and may come back to a small number)
					tx.Out[0].Coins, tx.Out[1].Coins = 1<<63, 1<<63+uint64(rapid.IntRange(0, 1).Draw(t, "plus"))
					ev.Get("C09").Count("coin_overflow_before_last_output")
				}
				resign = true
			}
		case "length":
			tx.Length = uint32(int64(tx.Length) + int64(rapid.SampledFrom([]int{-1, 1, 4, -37, 65}).Draw(t, "dl")))
			refix = false
		case "inner_hash":
			tx.InnerHash[rapid.IntRange(0, 31).Draw(t, "byte")] ^= byte(1 << uint(rapid.IntRange(0, 7).Draw(t, "bit")))
			refix = false
		case "null_sig":
			if len(tx.Sigs) > 0 {
				tx.Sigs[rapid.IntRange(0, len(tx.Sigs)-1).Draw(t, "which")] = cipher.Sig{}
			}
		case "bad_sig":
			if len(tx.Sigs) > 0 {
				i := rapid.IntRange(0, len(tx.Sigs)-1).Draw(t, "which")
				switch rapid.IntRange(0, 8).Draw(t, "how") {
				case 7, 8: // r is a tiny number (anyone can write that into a signature); recovery starts from the point with that x
					for j := 0; j < 32; j++ {
						tx.Sigs[i][j] = 0
					}
					rv := rapid.IntRange(1, 4096).Draw(t, "tinyr")
					tx.Sigs[i][30], tx.Sigs[i][31] = byte(rv>>8), byte(rv)
					tx.Sigs[i][32] &= 0x3f // keep s low
					tx.Sigs[i][64] = byte(rapid.IntRange(0, 1).Draw(t, "tinyrecid"))
				case 0:
					copy(tx.Sigs[i][:], rapid.SliceOfN(rapid.Byte(), 65, 65).Draw(t, "raw"))
				case 1:
					tx.Sigs[i][64] = byte(rapid.IntRange(4, 255).Draw(t, "recid"))
				case 2:
					tx.Sigs[i][32] |= 0x80 // s >= 2^255
				case 3:
					for j := 0; j < 32; j++ {
						tx.Sigs[i][j] = 0 // r = 0
					}
				case 4:
					for j := 32; j < 64; j++ {
						tx.Sigs[i][j] = 0 // s = 0
					}
				case 5:
					for j := 0; j < 32; j++ {
						tx.Sigs[i][j] = 0xff // r >= n
					}
				default:
					tx.Sigs[i][rapid.IntRange(0, 63).Draw(t, "byte")] ^= byte(1 << uint(rapid.IntRange(0, 7).Draw(t, "bit")))
				}
			}
			refix = false
		case "swap_outputs":
			if len(tx.Out) >= 2 {
				tx.Out[0], tx.Out[1] = tx.Out[1], tx.Out[0]
				resign = true
			}
		case "add_output":
			tx.Out = append(tx.Out, coin.TransactionOutput{Address: gen.KeyN(4).Addr, Coins: 1 + rapid.Uint64Range(0, 1000).Draw(t, "c"), Hours: 7})
			resign = true
		}
		if refix {
			fixHeader(tx, true, true)
			if resign && len(tx.Sigs) == len(tx.In) {
				mask := uint(0)
				for i, s := range tx.Sigs {
					if s == (cipher.Sig{}) {
						mask |= 1 << uint(i)
					}
				}
				signAll(tx, mask)
			}
		}
		d.muts = append(d.muts, fmt.Sprintf("%s(refix=%v)", mut, refix))
	}
	return d
}

func checkVerify(tx *coin.Transaction) (string, error) {
	var e1, e2 error
	if p := call(func() { e1 = tx.Verify() }); p != nil {
		return "", errf("Verify panicked: %v", p)
	}
	if p := call(func() { e2 = tx.VerifyUnsigned() }); p != nil {
		return "", errf("VerifyUnsigned panicked: %v", p)
	}
	w1, why1 := wellFormed(tx, true)
	w2, why2 := wellFormed(tx, false)
	if w1 != (e1 == nil) {
		return "", errf("Verify()=%v but reference wellFormed(signed)=%v (%s)", e1, w1, why1)
	}
	if w2 != (e2 == nil) {
		return "", errf("VerifyUnsigned()=%v but reference wellFormed(unsigned)=%v (%s)", e2, w2, why2)
	}
	switch {
	case w1:
		return "valid_signed", nil
	case w2:
		return "valid_unsigned", nil
	}
	return "invalid:" + why1, nil
}

func TestC09_Verify(t *testing.T) {
	r := ev.Get("C09")
	r.Rule(ruleC09)
	r.Assume("signature validity is judged by the textbook curve (harness/internal/ref/curve); signatures with n/2 < s < 2^255 are not generated here (C10 known finding)")
	hx.Check(t, "C09", 3000, 200000, func(t *rapid.T) {
		d := genDraft(t)
		class, err := checkVerify(&d.txn)
		if err != nil {
			b, _ := d.txn.Serialize()
			t.Fatalf("%v\n mutations=%v\n txn=%x", err, d.muts, b)
		}
		// the encoder of the code under test must agree with the reference encoder
		if b, err := d.txn.Serialize(); err == nil {
			if !bytes.Equal(b, txref.EncodeTxn(&d.txn)) {
				t.Fatalf("Serialize differs from the reference encoding: %x vs %x", b, txref.EncodeTxn(&d.txn))
			}
			if d.txn.Hash() != txref.TxnHash(&d.txn) {
				t.Fatalf("Hash differs from reference")
			}
			if d.txn.HashInner() != txref.InnerHash(&d.txn) {
				t.Fatalf("HashInner differs from reference")
			}
		}
		r.Count("verify_" + class)
		nt := len(d.muts) > 0
		b, _ := d.txn.Serialize()
		r.Case(nt, append([]byte("v/"), b...))
		if r.WantSample(nt) {
			r.Sample(nt, map[string]interface{}{"kind": "verify", "mutations": d.muts, "class": class, "inputs": len(d.txn.In), "outputs": len(d.txn.Out), "txn_hex": hex.EncodeToString(b)})
		}
	})
}

// TestC09_BoundarySizes exercises the 65535-element limits (a few cases, they are large).
func TestC09_BoundarySizes(t *testing.T) {
	r := ev.Get("C09")
	sizes := []int{65535, 65536}
	for _, n := range sizes {
		for _, which := range []string{"in", "out", "sigs"} {
			var tx coin.Transaction
			nin, nout := 1, 1
			if which == "in" {
				nin = n
			} else if which == "out" {
				nout = n
			}
			for i := 0; i < nin; i++ {
				var h cipher.SHA256
				h[0], h[1], h[2] = byte(i), byte(i>>8), byte(i>>16)
				tx.In = append(tx.In, h)
			}
			for i := 0; i < nout; i++ {
				tx.Out = append(tx.Out, coin.TransactionOutput{Address: gen.KeyN(0).Addr, Coins: 1, Hours: uint64(i)})
			}
			tx.Sigs = make([]cipher.Sig, len(tx.In)) // all null: unsigned check
			if which == "sigs" {
				tx.Sigs = make([]cipher.Sig, n) // more signatures than inputs: never valid, but it is an encoding
			}
			tx.InnerHash = txref.InnerHash(&tx)
			tx.Length = uint32(txref.TxnSize(&tx))
			// decode side at the boundary: the reference encoding either fails to decode or re-encodes identically
			// (only the field under test is at the boundary: the decoder meets Sigs before In before Out)
			dtx := tx
			if which == "in" {
				dtx.Sigs = dtx.Sigs[:1]
			}
			if _, derr := checkDecode(txref.EncodeTxn(&dtx)); derr != nil {
				t.Fatalf("encoding with %d %s: %v", n, which, trimErr(derr))
			}
			if which == "sigs" {
				r.Case(true, []byte(fmt.Sprintf("boundary/%s/%d", which, n)))
				continue
			}
			var err error
			if p := call(func() { err = tx.VerifyUnsigned() }); p != nil {
				t.Fatalf("VerifyUnsigned panicked at %s=%d: %v", which, n, p)
			}
			want := n <= 65535
			if want != (err == nil) {
				t.Fatalf("VerifyUnsigned with %d %sputs: err=%v want ok=%v", n, which, err, want)
			}
			if want {
				b, err := tx.Serialize()
				if err != nil {
					t.Fatal(err)
				}
				back, err := coin.DeserializeTransaction(b)
				if err != nil {
					t.Fatalf("decode of %d %sputs: %v", n, which, err)
				}
				b2, _ := back.Serialize()
				if !bytes.Equal(b, b2) {
					t.Fatalf("boundary round trip differs")
				}
			}
			r.Case(true, []byte(fmt.Sprintf("boundary/%s/%d", which, n)))
		}
	}
}

func trimErr(e error) string {
	s := e.Error()
	if len(s) > 400 {
		s = s[:200] + " ... " + s[len(s)-150:]
	}
	return s
}

// checkDecode: decode fails or re-encodes to the same bytes; never panics.
func checkDecode(b []byte) (bool, error) {
	var tx coin.Transaction
	var err error
	if p := call(func() { tx, err = coin.DeserializeTransaction(b) }); p != nil {
		return false, errf("DeserializeTransaction(%x) panicked: %v", b, p)
	}
	if err != nil {
		return false, nil
	}
	var re []byte
	if p := call(func() { re, err = tx.Serialize() }); p != nil {
		return true, errf("Serialize of decoded txn panicked: %v (input %x)", p, b)
	}
	if err != nil {
		return true, errf("decoded transaction does not re-encode: %v (input %x)", err, b)
	}
	if !bytes.Equal(re, b) {
		return true, errf("decode/encode not canonical:\n in =%x\n out=%x", b, re)
	}
	// the verdicts on a decoded transaction must still match the reference
	if _, err := checkVerify(&tx); err != nil {
		return true, errf("%v (decoded from %x)", err, b)
	}
	return true, nil
}

func genTxnBytes(t *rapid.T) ([]byte, string) {
	mode := rapid.IntRange(0, 5).Draw(t, "bmode")
	if mode == 5 {
		return rapid.SliceOfN(rapid.Byte(), 0, 300).Draw(t, "raw"), "random"
	}
	d := genDraft(t)
	b := txref.EncodeTxn(&d.txn)
	switch mode {
	case 0:
		return b, "valid_encoding"
	case 1: // byte edits
		n := rapid.IntRange(1, 3).Draw(t, "edits")
		for i := 0; i < n && len(b) > 0; i++ {
			b[rapid.IntRange(0, len(b)-1).Draw(t, "pos")] = rapid.Byte().Draw(t, "val")
		}
		return b, "byte_edit"
	case 2: // patch one of the three length prefixes
		offs := []int{37, 37 + 4 + 65*len(d.txn.Sigs), 37 + 4 + 65*len(d.txn.Sigs) + 4 + 32*len(d.txn.In)}
		o := rapid.SampledFrom(offs).Draw(t, "prefix")
		v := rapid.SampledFrom([]uint32{0, 1, 2, 65535, 65536, 0xffffffff, 0x80000000, uint32(len(d.txn.In) + 1)}).Draw(t, "v")
		if o+4 <= len(b) {
			b[o], b[o+1], b[o+2], b[o+3] = byte(v), byte(v>>8), byte(v>>16), byte(v>>24)
		}
		return b, "len_prefix"
	case 3:
		return b[:rapid.IntRange(0, len(b)).Draw(t, "cut")], "truncated"
	default:
		return append(b, rapid.SliceOfN(rapid.Byte(), 1, 40).Draw(t, "extra")...), "extended"
	}
}

func TestC09_Decode(t *testing.T) {
	r := ev.Get("C09")
	r.Rule(ruleC09)
	hx.Check(t, "C09", 4000, 300000, func(t *rapid.T) {
		b, class := genTxnBytes(t)
		ok, err := checkDecode(b)
		if err != nil {
			t.Fatal(err)
		}
		r.Count("decode_" + class)
		if ok {
			r.Count("decode_ok_" + class)
		}
		nt := ok && class != "valid_encoding"
		r.Case(nt, append([]byte("d/"), b...))
		if r.WantSample(nt) {
			r.Sample(nt, map[string]interface{}{"kind": "decode", "class": class, "bytes": hex.EncodeToString(b)})
		}
	})
}

func FuzzC09_Decode(f *testing.F) {
	f.Add([]byte{})
	f.Add(make([]byte, 49))
	var tx coin.Transaction
	tx.In = []cipher.SHA256{{1}}
	tx.Out = []coin.TransactionOutput{{Address: gen.KeyN(0).Addr, Coins: 5, Hours: 1}}
	tx.Sigs = make([]cipher.Sig, 1)
	tx.InnerHash = txref.InnerHash(&tx)
	tx.Length = uint32(txref.TxnSize(&tx))
	f.Add(txref.EncodeTxn(&tx))
	f.Fuzz(func(t *testing.T, b []byte) {
		if _, err := checkDecode(b); err != nil {
			t.Fatal(err)
		}
	})
}
