package txn

import (
	"fmt"
	"math/big"
	"testing"

	"github.com/shopspring/decimal"
	"pgregory.net/rapid"

	"github.com/skycoin/skycoin/src/cipher"
	"github.com/skycoin/skycoin/src/coin"
	"github.com/skycoin/skycoin/src/params"
	"github.com/skycoin/skycoin/src/transaction"
	"github.com/skycoin/skycoin/src/util/fee"

	"verif/harness/internal/ev"
	"verif/harness/internal/gen"
	"verif/harness/internal/hx"
	"verif/harness/internal/ref/create"
	"verif/harness/internal/ref/rules"
	"verif/harness/internal/ref/txref"
)

const ruleC12 = "offered sets of 1-12 unspent outputs over 1-3 owners (coins/hours/ages incl. zero-hour outputs, equal amounts, totals < 2^62), 1-4 destinations (may equal an owner or the change address, amounts aimed at: a single output's value, the exact total, total+1, small), manual hours (incl. exactly the spendable amount +-1) or auto-share hours with share in {0, 0.5, 1, random 2-digit decimals} (1 case in 10 aimed at a whole-numbered exact product share x remaining), explicit or automatic change address; invalid requests (duplicate receivers, null address, zero coins, bad type/mode/share); oracle: on success the transaction is well formed and passes the unsigned hard rules of the reference model, spends distinct offered outputs, pays the first len(To) outputs as requested, change = inputs - requested to the documented address, auto hours sum to floor(share*remaining) (or remaining after the documented fallback), burn >= ceil(in/burn factor); on failure the error is user-level and 'insufficient' only if the whole offered set cannot cover the request; non-trivial = a change output exists, or an extra input was added, or construction failed for a valid request; distinct by request+offer"

type createCase struct {
	auxs     coin.AddressUxOuts
	all      []coin.UxOut
	p        transaction.Params
	headTime uint64
	desc     string
	invalid  string // non-empty: request is invalid by construction
}

// genTwinCase aims at a change output that coincides with a receiver: one or two offered outputs,
// a receiver for half of the coins whose address is also the change address, hours split in half.
func genTwinCase(t *rapid.T) createCase {
	var c createCase
	c.auxs = coin.AddressUxOuts{}
	c.headTime = rapid.Uint64Range(1<<20, 1<<32).Draw(t, "head")
	owner := gen.KeyN(rapid.IntRange(0, 2).Draw(t, "owner"))
	half := 1 + rapid.Uint64Range(0, 1e9).Draw(t, "half")
	hours := rapid.Uint64Range(1, 1e6).Draw(t, "hours")
	ux := coin.UxOut{Head: coin.UxHead{Time: c.headTime, BkSeq: 3}, Body: coin.UxBody{SrcTransaction: gen.NonNullSHA(t, "src"), Address: owner.Addr, Coins: 2 * half, Hours: hours}}
	c.auxs[owner.Addr] = coin.UxArray{ux}
	c.all = []coin.UxOut{ux}
	dest := gen.KeyN(rapid.IntRange(0, 3).Draw(t, "dest")).Addr
	rem := hours - (hours+uint64(params.UserVerifyTxn.BurnFactor)-1)/uint64(params.UserVerifyTxn.BurnFactor)
	if rapid.Bool().Draw(t, "auto") {
		c.p.HoursSelection.Type = transaction.HoursSelectionTypeAuto
		c.p.HoursSelection.Mode = transaction.HoursSelectionModeShare
		d := decimal.New(5, -1)
		c.p.HoursSelection.ShareFactor = &d
		c.p.To = []coin.TransactionOutput{{Address: dest, Coins: half}}
		c.desc = "twin auto share=0.5"
	} else {
		c.p.HoursSelection.Type = transaction.HoursSelectionTypeManual
		c.p.To = []coin.TransactionOutput{{Address: dest, Coins: half, Hours: rem / 2}}
		c.desc = "twin manual"
	}
	if rapid.Bool().Draw(t, "explicit") {
		c.p.ChangeAddress = &dest
	}
	return c
}

// genShareExactCase aims at automatic hours whose exact value share x remaining is a whole number: one offered output
// whose hours leave a multiple of 100 after the burn, and a share factor with two decimals.  Any arithmetic that is not
// exact decimal arithmetic (binary floating point: 0.29 x 100 = 28.999...) comes out one hour short there.
func genShareExactCase(t *rapid.T) createCase {
	var c createCase
	c.auxs = coin.AddressUxOuts{}
	c.headTime = rapid.Uint64Range(1<<20, 1<<32).Draw(t, "head")
	owner := gen.KeyN(rapid.IntRange(0, 2).Draw(t, "owner"))
	burn := uint64(params.UserVerifyTxn.BurnFactor)
	rem := 100 * uint64(rapid.IntRange(1, 5000).Draw(t, "rem100"))
	hours := rem * burn / (burn - 1)
	for hours-(hours+burn-1)/burn < rem {
		hours++
	}
	if hours-(hours+burn-1)/burn != rem {
		hours = rem // (not reachable exactly; an ordinary case then)
	}
	coins := uint64(1000000) * uint64(rapid.IntRange(2, 1000).Draw(t, "coins"))
	ux := coin.UxOut{Head: coin.UxHead{Time: c.headTime, BkSeq: 5}, Body: coin.UxBody{SrcTransaction: gen.NonNullSHA(t, "src"), Address: owner.Addr, Coins: coins, Hours: hours}}
	c.auxs[owner.Addr] = coin.UxArray{ux}
	c.all = []coin.UxOut{ux}
	c.p.HoursSelection.Type = transaction.HoursSelectionTypeAuto
	c.p.HoursSelection.Mode = transaction.HoursSelectionModeShare
	d := decimal.New(int64(rapid.IntRange(1, 99).Draw(t, "share100")), -2)
	c.p.HoursSelection.ShareFactor = &d
	c.p.To = []coin.TransactionOutput{{Address: gen.KeyN(5).Addr, Coins: coins / 2}}
	c.desc = "share exact " + d.String()
	return c
}

func genCreateCase(t *rapid.T) createCase {
	if rapid.IntRange(0, 9).Draw(t, "twin") == 0 {
		return genTwinCase(t)
	}
	if rapid.IntRange(0, 9).Draw(t, "share_exact") == 5 {
		return genShareExactCase(t)
	}
	var c createCase
	c.auxs = coin.AddressUxOuts{}
	nOwners := rapid.IntRange(1, 3).Draw(t, "owners")
	nUx := rapid.IntRange(1, 12).Draw(t, "nux")
	c.headTime = rapid.Uint64Range(1<<20, 1<<32).Draw(t, "head")
	coinUnit := rapid.SampledFrom([]uint64{1, 1000, 1000000}).Draw(t, "unit")
	for i := 0; i < nUx; i++ {
		k := gen.KeyN(rapid.IntRange(0, nOwners-1).Draw(t, "owner"))
		hours := rapid.OneOf(rapid.Just(uint64(0)), rapid.Uint64Range(0, 20), rapid.Uint64Range(0, 1e6), rapid.Uint64Range(0, 1<<40)).Draw(t, "hours")
		age := rapid.OneOf(rapid.Just(uint64(0)), rapid.Uint64Range(0, 1<<20)).Draw(t, "age")
		ux := coin.UxOut{
			Head: coin.UxHead{Time: c.headTime - age, BkSeq: 1 + rapid.Uint64Range(0, 1000).Draw(t, "seq")},
			Body: coin.UxBody{SrcTransaction: gen.NonNullSHA(t, "src"), Address: k.Addr,
				Coins: coinUnit * (1 + rapid.OneOf(rapid.Uint64Range(0, 9), rapid.Uint64Range(0, 1e6)).Draw(t, "coins")), Hours: hours},
		}
		c.auxs[k.Addr] = append(c.auxs[k.Addr], ux)
		c.all = append(c.all, ux)
	}
	var totalCoins uint64
	totalHours := new(big.Int)
	for _, ux := range c.all {
		totalCoins += ux.Body.Coins
		v, _ := rules.Accrued(ux, c.headTime)
		totalHours.Add(totalHours, v)
	}
	spendable := new(big.Int).Sub(totalHours, ceilDiv(totalHours, bu(uint64(params.UserVerifyTxn.BurnFactor))))
	// destinations
	nTo := rapid.IntRange(1, 4).Draw(t, "nto")
	destPool := []cipher.Address{gen.KeyN(0).Addr, gen.KeyN(1).Addr, gen.KeyN(2).Addr, gen.KeyN(5).Addr, gen.KeyN(6).Addr, gen.KeyN(7).Addr}
	auto := rapid.Bool().Draw(t, "auto")
	budget := totalCoins
	for i := 0; i < nTo; i++ {
		var amt uint64
		switch rapid.SampledFrom([]int{0, 0, 1, 1, 2, 3, 3, 3, 4, 4}).Draw(t, "amode") {
		case 0:
			amt = c.all[rapid.IntRange(0, len(c.all)-1).Draw(t, "like")].Body.Coins
		case 1:
			amt = budget // exact remainder of the total
		case 2:
			amt = budget + 1
		case 3:
			amt = coinUnit * (1 + rapid.Uint64Range(0, 5).Draw(t, "small"))
		default:
			amt = 1 + rapid.Uint64Range(0, budget).Draw(t, "amt")
		}
		if amt == 0 {
			amt = 1
		}
		if amt <= budget {
			budget -= amt
		}
		to := coin.TransactionOutput{Address: rapid.SampledFrom(destPool).Draw(t, "dest"), Coins: amt}
		if !auto {
			switch rapid.IntRange(0, 4).Draw(t, "hmode") {
			case 0:
			case 1:
				if spendable.IsUint64() {
					to.Hours = spendable.Uint64() / uint64(nTo)
				}
			case 2:
				if spendable.IsUint64() {
					to.Hours = spendable.Uint64()/uint64(nTo) + 1
				}
			default:
				to.Hours = rapid.OneOf(rapid.Uint64Range(0, 10), rapid.Uint64Range(0, 1e6)).Draw(t, "tohours")
			}
		}
		c.p.To = append(c.p.To, to)
	}
	if auto {
		c.p.HoursSelection.Type = transaction.HoursSelectionTypeAuto
		c.p.HoursSelection.Mode = transaction.HoursSelectionModeShare
		sf := rapid.SampledFrom([]string{"0", "0.5", "1", "0.01", "0.99", "0.33", "0.25", "0.9", "0.1"}).Draw(t, "share")
		d, _ := decimal.NewFromString(sf)
		c.p.HoursSelection.ShareFactor = &d
		c.desc = "auto share=" + sf
	} else {
		c.p.HoursSelection.Type = transaction.HoursSelectionTypeManual
		c.desc = "manual"
	}
	if rapid.Bool().Draw(t, "explicit_change") {
		a := rapid.SampledFrom(destPool).Draw(t, "change")
		c.p.ChangeAddress = &a
	}
	// invalid requests
	switch rapid.IntRange(0, 34).Draw(t, "invalid") {
	case 0:
		c.p.To = append(c.p.To, c.p.To[0])
		c.invalid = "duplicate receiver"
	case 1:
		c.p.To[0].Address = cipher.Address{}
		c.invalid = "null receiver"
	case 2:
		c.p.To[0].Coins = 0
		c.invalid = "zero coins"
	case 3:
		switch rapid.IntRange(0, 5).Draw(t, "badmode") {
		case 0:
			c.p.HoursSelection.Type = "bogus"
		case 1:
			c.p.HoursSelection.Type = ""
		case 2:
			if auto {
				c.p.HoursSelection.Mode = ""
			} else {
				c.p.HoursSelection.Mode = transaction.HoursSelectionModeShare
			}
		case 3:
			if auto {
				c.p.HoursSelection.ShareFactor = nil
			} else {
				d := decimal.New(5, -1)
				c.p.HoursSelection.ShareFactor = &d
			}
		case 4:
			if auto {
				d := decimal.New(11, -1)
				c.p.HoursSelection.ShareFactor = &d
			} else {
				c.p.HoursSelection.Type = "Manual"
			}
		default:
			if auto {
				d := decimal.New(-1, -1)
				c.p.HoursSelection.ShareFactor = &d
			} else {
				c.p.HoursSelection.Mode = "bogus"
			}
		}
		c.invalid = "bad hours selection"
	case 4:
		z := cipher.Address{}
		c.p.ChangeAddress = &z
		c.invalid = "null change address"
	case 5:
		if auto {
			c.p.To[0].Hours = 5
			c.invalid = "hours given in auto mode"
		}
	case 6:
		c.p.To = nil
		c.invalid = "no receivers"
	}
	if c.invalid == "" {
		seen := map[coin.TransactionOutput]bool{}
		for _, to := range c.p.To {
			if seen[to] {
				c.invalid = "duplicate receiver (drawn)"
			}
			seen[to] = true
		}
	}
	return c
}

func ceilDiv(a, b *big.Int) *big.Int {
	q, r := new(big.Int).QuoRem(a, b, new(big.Int))
	if r.Sign() != 0 {
		q.Add(q, one)
	}
	return q
}

func userLevel(err error) bool {
	if _, ok := err.(transaction.Error); ok {
		return true
	}
	return err == fee.ErrTxnNoFee || err == fee.ErrTxnInsufficientCoinHours
}

func checkCreate(c createCase) (class string, err error) {
	burn := bu(uint64(params.UserVerifyTxn.BurnFactor))
	var txn *coin.Transaction
	var inputs []transaction.UxBalance
	var cerr error
	if p := call(func() { txn, inputs, cerr = transaction.Create(c.p, c.auxs, c.headTime) }); p != nil {
		return "", errf("Create panicked: %v", p)
	}
	offered := map[cipher.SHA256]coin.UxOut{}
	totalCoins, totalHours := new(big.Int), new(big.Int)
	anyHours := false
	for _, ux := range c.all {
		offered[txref.UxBodyID(ux.Body)] = ux
		totalCoins.Add(totalCoins, bu(ux.Body.Coins))
		v, _ := rules.Accrued(ux, c.headTime)
		totalHours.Add(totalHours, v)
		if v.Sign() > 0 {
			anyHours = true
		}
	}
	reqCoins, reqHours := new(big.Int), new(big.Int)
	for _, to := range c.p.To {
		reqCoins.Add(reqCoins, bu(to.Coins))
		reqHours.Add(reqHours, bu(to.Hours))
	}
	if c.invalid != "" {
		if cerr == nil {
			return "", errf("Create accepted an invalid request (%s)", c.invalid)
		}
		if _, ok := cerr.(transaction.Error); !ok {
			return "", errf("invalid request (%s) rejected with a non-user error %T: %v", c.invalid, cerr, cerr)
		}
		return "invalid_request", nil
	}
	if cerr != nil {
		if !userLevel(cerr) {
			return "", errf("valid request failed with a non-user-level error %T: %v", cerr, cerr)
		}
		spendableAll := new(big.Int).Sub(totalHours, ceilDiv(totalHours, burn))
		switch cerr {
		case transaction.ErrInsufficientBalance:
			if totalCoins.Cmp(reqCoins) >= 0 {
				return "", errf("ErrInsufficientBalance although offered coins %s >= requested %s", totalCoins, reqCoins)
			}
			return "fail_balance", nil
		case transaction.ErrInsufficientHours:
			if spendableAll.Cmp(reqHours) >= 0 && totalCoins.Cmp(reqCoins) >= 0 {
				return "", errf("ErrInsufficientHours although spending everything leaves %s >= requested %s hours", spendableAll, reqHours)
			}
			return "fail_hours", nil
		case fee.ErrTxnNoFee:
			if anyHours {
				return "", errf("ErrTxnNoFee although some offered output has coin hours")
			}
			return "fail_nofee", nil
		}
		// any other user-level refusal must be explainable: the only documented one is a change output
		// that would coincide with a receiver, which needs a receiver at a possible change address
		for _, to := range c.p.To {
			if c.p.ChangeAddress != nil && to.Address == *c.p.ChangeAddress {
				return "fail_change_twin", nil
			}
			if c.p.ChangeAddress == nil {
				if _, owned := c.auxs[to.Address]; owned {
					return "fail_change_twin", nil
				}
			}
		}
		return "", errf("valid request failed: %v (offered coins %s hours %s, requested coins %s hours %s)", cerr, totalCoins, totalHours, reqCoins, reqHours)
	}
	// ---- success ----
	// the returned input balances describe the inputs (function-level result only; everything else is judged by the
	// oracle shared with the node-level check)
	if len(inputs) != len(txn.In) {
		return "", errf("returned %d input balances for %d inputs", len(inputs), len(txn.In))
	}
	for i, h := range txn.In {
		ux, ok := offered[h]
		if !ok {
			return "", errf("input %d (%s) was not offered", i, h.Hex())
		}
		v, _ := rules.Accrued(ux, c.headTime)
		if inputs[i].Hash != h || bu(inputs[i].Hours).Cmp(v) != 0 || inputs[i].Coins != ux.Body.Coins {
			return "", errf("returned input balance %d does not describe input %s", i, h.Hex())
		}
	}
	return create.CheckSuccess(c.p, c.all, c.headTime, txn, params.UserVerifyTxn.BurnFactor)
}

func TestC12_Create(t *testing.T) {
	r := ev.Get("C12")
	r.Rule(ruleC12)
	r.Assume("reference rules: harness/internal/ref/rules; offered totals stay below 2^62 and accruals do not overflow (as on a conserved chain)")
	hx.Check(t, "C12", 8000, 400000, func(t *rapid.T) {
		c := genCreateCase(t)
		class, err := checkCreate(c)
		if err != nil {
			t.Fatalf("%v\n%s", err, describeCreate(c))
		}
		r.Count("create_" + class)
		nt := class == "ok_change" || class == "fail_change_twin" || class == "fail_balance" || class == "fail_hours" || class == "fail_nofee"
		key := describeCreate(c)
		r.CaseS(nt, key)
		if r.WantSample(nt) {
			r.Sample(nt, map[string]interface{}{"kind": "create", "class": class, "request": key})
		}
	})
}

func describeCreate(c createCase) string {
	s := fmt.Sprintf("%s invalid=%q head=%d change=", c.desc, c.invalid, c.headTime)
	if c.p.ChangeAddress != nil {
		s += c.p.ChangeAddress.String()
	} else {
		s += "auto"
	}
	s += fmt.Sprintf(" type=%q mode=%q", c.p.HoursSelection.Type, c.p.HoursSelection.Mode)
	if c.p.HoursSelection.ShareFactor != nil {
		s += " share=" + c.p.HoursSelection.ShareFactor.String()
	}
	for i, to := range c.p.To {
		s += fmt.Sprintf("\n to[%d] %s coins=%d hours=%d", i, to.Address, to.Coins, to.Hours)
	}
	for i, ux := range c.all {
		s += fmt.Sprintf("\n ux[%d] %s coins=%d hours=%d time=%d seq=%d id=%s", i, ux.Body.Address, ux.Body.Coins, ux.Body.Hours, ux.Head.Time, ux.Head.BkSeq, txref.UxBodyID(ux.Body).Hex()[:8])
	}
	return s
}
