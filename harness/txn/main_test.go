package txn

import (
	"fmt"
	"math/big"
	"testing"

	"github.com/skycoin/skycoin/src/cipher"

	"verif/harness/internal/hx"
	"verif/harness/internal/ref/curve"
)

func TestMain(m *testing.M) { hx.Main(m) }

var (
	one   = big.NewInt(1)
	two64 = new(big.Int).Lsh(one, 64)
)

func bu(x uint64) *big.Int { return new(big.Int).SetUint64(x) }

func call(f func()) (p interface{}) {
	defer func() { p = recover() }()
	f()
	return nil
}

func errf(format string, a ...interface{}) error { return fmt.Errorf(format, a...) }

// ---------------------------------------------------------------------------
// fast reference signer: fixed nonce table, so a signature costs only modular arithmetic

type nonce struct {
	k, kinv, r *big.Int
	recid      int
}

var nonces = func() []nonce {
	var out []nonce
	for i := 1; i <= 8; i++ {
		k := new(big.Int).SetBytes(sha(fmt.Sprintf("verif-nonce-%d", i)))
		k.Mod(k, curve.N)
		R := curve.Mul(k, curve.G())
		n := nonce{k: k, kinv: new(big.Int).ModInverse(k, curve.N), r: new(big.Int).Mod(R.X, curve.N)}
		if R.X.Cmp(curve.N) >= 0 {
			n.recid |= 2
		}
		if R.Y.Bit(0) == 1 {
			n.recid |= 1
		}
		out = append(out, n)
	}
	return out
}()

func sha(s string) []byte { h := cipher.SumSHA256([]byte(s)); return h[:] }

// fastSign returns a valid low-s signature of hash h under secret d using nonce i.
func fastSign(d *big.Int, h cipher.SHA256, i int) cipher.Sig {
	nc := nonces[i%len(nonces)]
	m := new(big.Int).SetBytes(h[:])
	s := new(big.Int).Mul(nc.r, d)
	s.Add(s, m)
	s.Mul(s, nc.kinv)
	s.Mod(s, curve.N)
	rec := nc.recid
	if s.Cmp(curve.HalfN) > 0 {
		s.Sub(curve.N, s)
		rec ^= 1
	}
	var sig cipher.Sig
	nc.r.FillBytes(sig[0:32])
	s.FillBytes(sig[32:64])
	sig[64] = byte(rec)
	return sig
}
