package txn

import (
	"encoding/hex"
	"fmt"
	"math/big"
	"testing"

	"pgregory.net/rapid"

	"github.com/skycoin/skycoin/src/cipher"
	"github.com/skycoin/skycoin/src/coin"
	"github.com/skycoin/skycoin/src/params"
	"github.com/skycoin/skycoin/src/transaction"

	"verif/harness/internal/ev"
	"verif/harness/internal/gen"
	"verif/harness/internal/hx"
	"verif/harness/internal/ref/rules"
	"verif/harness/internal/ref/txref"
)

const ruleC11 = "transactions with 1-4 inputs (owners = 4 ordinary keys + 4 distribution addresses of which 2 are locked) and 1-4 outputs; input coins/hours/creation times and the head time drawn with boundary bias incl. accrual that overflows; output hours placed at the fee boundary ceil(total/burn)+-1, at zero fee, above the inputs, or summing to >= 2^64 (every output near 2^64, the first and last of three or more only, or only four quarters together); output coins at precision boundaries; parameters burn in [2,2^32), max size in [1024,2^32) incl. exactly size and size+-1, precision 0..6; hard-rule breakers: wrong signer, coins +-1, duplicate output, unsigned; oracle: big-integer model of the soft and hard rules (harness/internal/ref/rules): error nil <=> model passes, soft errors carry the soft type and hard errors the hard type; non-trivial = fee within 2 of the boundary, or size within 1 of the limit, or a locked/precision/overflow class; distinct by (txn, params, head time)"

var (
	distKeys   = []gen.Key{gen.KeyN(10), gen.KeyN(11), gen.KeyN(12), gen.KeyN(13)}
	distParams = func() params.Distribution {
		d := params.Distribution{MaxCoinSupply: 400, InitialUnlockedCount: 2, UnlockAddressRate: 1, UnlockTimeInterval: 1000}
		for _, k := range distKeys {
			d.Addresses = append(d.Addresses, k.Addr.String())
		}
		d.MustValidate()
		return d
	}()
	lockedSet = map[cipher.Address]bool{distKeys[2].Addr: true, distKeys[3].Addr: true}
)

type softCase struct {
	txn      coin.Transaction
	uxIn     coin.UxArray
	headTime uint64
	vp       params.VerifyTxn
	tags     []string
}

func ownerKey(i int) gen.Key {
	if i < 4 {
		return gen.KeyN(i)
	}
	return distKeys[i-4]
}

func genSoftCase(t *rapid.T) softCase {
	var c softCase
	nIn := rapid.IntRange(1, 4).Draw(t, "nin")
	nOut := rapid.IntRange(1, 4).Draw(t, "nout")
	if rapid.IntRange(0, 5).Draw(t, "big") == 0 {
		nOut = rapid.IntRange(16, 45).Draw(t, "nout_big") // encoded size reaches the 1024..2048 region where the size limit can bite
	}
	c.headTime = rapid.OneOf(rapid.Uint64Range(0, 1<<33), rapid.Uint64()).Draw(t, "head")
	lockedBias := rapid.IntRange(0, 5).Draw(t, "lockedbias") == 0
	// top of the hours range: a single input whose hours at the head time are within 24 of 2^64-1 (the required fee
	// ceil(hours/burn) must not be computed with a wrapping hours+burn-1)
	topHours := rapid.IntRange(0, 7).Draw(t, "tophours") == 0
	if topHours {
		nIn = 1
	}
	var owners []gen.Key
	for i := 0; i < nIn; i++ {
		max := 3
		if lockedBias || rapid.IntRange(0, 3).Draw(t, "dist") == 0 {
			max = 7
		}
		k := ownerKey(rapid.IntRange(0, max).Draw(t, fmt.Sprintf("owner%d", i)))
		ux := coin.UxOut{
			Head: coin.UxHead{Time: rapid.OneOf(rapid.Uint64Range(0, 1<<33), rapid.Just(c.headTime), rapid.Uint64()).Draw(t, "uxtime"), BkSeq: uint64(i)},
			Body: coin.UxBody{SrcTransaction: gen.SHA(t, "src"), Address: k.Addr,
				Coins: 1 + rapid.OneOf(gen.Amount(1e14), gen.Amount(1e14), rapid.Uint64Range(0, 1<<62)).Draw(t, "coins"),
				Hours: rapid.OneOf(gen.Amount(1e9), gen.Amount(1e9), rapid.Uint64()).Draw(t, "hours")},
		}
		if topHours {
			ux.Head.Time = c.headTime
			ux.Body.Hours = ^uint64(0) - rapid.Uint64Range(0, 24).Draw(t, "below_max")
			c.tags = append(c.tags, "hours_top_of_range")
		}
		c.uxIn = append(c.uxIn, ux)
		owners = append(owners, k)
	}
	// model-side totals to aim outputs at the boundaries
	coinsIn := new(big.Int)
	hoursIn := new(big.Int)
	hoursKnown := true
	for _, ux := range c.uxIn {
		coinsIn.Add(coinsIn, bu(ux.Body.Coins))
		v, cl := rules.Accrued(ux, c.headTime)
		if cl != rules.AccrueOK {
			hoursKnown = false
			c.tags = append(c.tags, "accrual_"+cl)
		} else {
			hoursIn.Add(hoursIn, v)
		}
	}
	c.vp.BurnFactor = rapid.OneOf(rapid.Uint32Range(2, 20), rapid.Uint32Range(2, 1<<32-1), rapid.Just(uint32(1<<32-1))).Draw(t, "burn")
	if topHours && rapid.Bool().Draw(t, "smallburn") {
		c.vp.BurnFactor = rapid.Uint32Range(2, 30).Draw(t, "burn_small")
	}
	c.vp.MaxDropletPrecision = uint8(rapid.SampledFrom([]int{6, 6, 6, 0, 1, 2, 3, 4, 5, 6}).Draw(t, "prec"))
	// coins: split the total (when it fits) with a precision-aware generator
	var outCoins []uint64
	if coinsIn.Cmp(two64) < 0 {
		rem := coinsIn.Uint64()
		div := params.DropletPrecisionToDivisor(c.vp.MaxDropletPrecision)
		for i := 0; i < nOut && rem > 0; i++ {
			amt := rem
			if i < nOut-1 {
				amt = 1 + rapid.Uint64Range(0, rem-1).Draw(t, "amt")
				if rapid.Bool().Draw(t, "round") && amt >= div {
					amt -= amt % div
				}
			}
			outCoins = append(outCoins, amt)
			rem -= amt
		}
	} else {
		outCoins = []uint64{^uint64(0)}
		c.tags = append(c.tags, "coins_in_overflow")
	}
	// hours
	outHours := make([]uint64, len(outCoins))
	hmode := rapid.SampledFrom([]string{"boundary", "boundary", "boundary", "boundary", "zero_fee", "above", "random", "overflow", "all_burned"}).Draw(t, "hmode")
	if !hoursKnown || hoursIn.Cmp(two64) >= 0 {
		hmode = "random"
	}
	total := uint64(0)
	if hoursKnown && hoursIn.Cmp(two64) < 0 {
		total = hoursIn.Uint64()
	}
	switch hmode {
	case "boundary":
		req := new(big.Int).Add(hoursIn, bu(uint64(c.vp.BurnFactor)-1))
		req.Quo(req, bu(uint64(c.vp.BurnFactor)))
		spend := new(big.Int).Sub(hoursIn, req)
		spend.Add(spend, big.NewInt(int64(rapid.IntRange(-2, 2).Draw(t, "off"))))
		if spend.Sign() < 0 {
			spend.SetInt64(0)
		}
		if spend.Cmp(two64) >= 0 {
			spend.SetUint64(^uint64(0))
		}
		distribute(t, spend.Uint64(), outHours)
	case "zero_fee":
		distribute(t, total, outHours)
	case "above":
		if total < ^uint64(0) {
			distribute(t, total+1+rapid.Uint64Range(0, 5).Draw(t, "more"), outHours)
		}
	case "overflow":
		for i := range outHours {
			outHours[i] = ^uint64(0) - rapid.Uint64Range(0, 3).Draw(t, "oh")
		}
		if len(outHours) >= 3 && rapid.Bool().Draw(t, "overflow_not_in_neighbours") {
			// the total passes 2^64 although no two neighbouring outputs do: first and last large, or four quarters
			for i := range outHours {
				outHours[i] = uint64(i)
			}
			if len(outHours) >= 4 && rapid.Bool().Draw(t, "quarters") {
				for i := 0; i < 4; i++ {
					outHours[i] = 1<<62 + uint64(i)
				}
			} else {
				outHours[0], outHours[len(outHours)-1] = 1<<63, 1<<63
			}
			c.tags = append(c.tags, "hours_overflow_spread")
		}
	case "all_burned":
	default:
		for i := range outHours {
			outHours[i] = rapid.OneOf(gen.Amount(total), rapid.Uint64Range(0, 100)).Draw(t, "oh")
		}
	}
	c.tags = append(c.tags, "hours_"+hmode)
	var outs []coin.TransactionOutput
	for i := range outCoins {
		outs = append(outs, coin.TransactionOutput{Address: gen.KeyN(20 + i%6).Addr, Coins: outCoins[i], Hours: outHours[i]})
	}
	// hard-rule breakers
	hb := rapid.SampledFrom([]string{"none", "none", "none", "none", "wrong_signer", "coins_plus", "coins_minus", "dup_output", "unsigned_one"}).Draw(t, "hardbreak")
	switch hb {
	case "coins_plus":
		outs[0].Coins++
	case "coins_minus":
		if outs[0].Coins > 1 {
			outs[0].Coins--
		}
	case "dup_output":
		outs = append(outs, outs[0])
	}
	if hb != "none" {
		c.tags = append(c.tags, "hard_"+hb)
	}
	for _, ux := range c.uxIn {
		c.txn.In = append(c.txn.In, txref.UxBodyID(ux.Body))
	}
	// duplicate inputs are possible if two generated ux are identical: negligible
	c.txn.Out = outs
	c.txn.InnerHash = txref.InnerHash(&c.txn)
	c.txn.Sigs = make([]cipher.Sig, len(c.txn.In))
	for i := range c.txn.In {
		k := owners[i]
		if hb == "wrong_signer" && i == 0 {
			k = gen.KeyN(30)
		}
		if hb == "unsigned_one" && i == 0 {
			continue
		}
		sec := k.Sec
		c.txn.Sigs[i] = fastSign(new(big.Int).SetBytes(sec[:]), txref.SigHash(c.txn.InnerHash, c.txn.In[i]), i)
	}
	c.txn.Length = uint32(txref.TxnSize(&c.txn))
	size := c.txn.Length
	c.vp.MaxTransactionSize = rapid.OneOf(
		rapid.Uint32Range(1024, 1<<32-1),
		rapid.Just(uint32(32768)),
		rapid.Custom(func(t *rapid.T) uint32 {
			v := int64(size) + int64(rapid.IntRange(-1, 1).Draw(t, "szoff"))
			if v < 1024 {
				v = 1024
			}
			return uint32(v)
		}),
	).Draw(t, "maxsize")
	return c
}

// distribute splits total over the slots.
func distribute(t *rapid.T, total uint64, slots []uint64) {
	rem := total
	for i := range slots {
		if i == len(slots)-1 {
			slots[i] = rem
			return
		}
		v := rapid.Uint64Range(0, rem).Draw(t, "share")
		slots[i] = v
		rem -= v
	}
}

func TestC11_SoftHard(t *testing.T) {
	r := ev.Get("C11")
	r.Rule(ruleC11)
	r.Assume("reference rules: harness/internal/ref/rules (math/big); signatures judged by the textbook curve")
	hx.Check(t, "C11", 2000, 150000, func(t *rapid.T) {
		c := genSoftCase(t)
		// pad the transaction to reach the size limit region when the limit is far away: not needed, limit is drawn around the size
		sp := rules.SoftParams{BurnFactor: c.vp.BurnFactor, MaxSize: c.vp.MaxTransactionSize, Precision: c.vp.MaxDropletPrecision}
		wantSoft, whySoft := rules.Soft(&c.txn, c.headTime, c.uxIn, lockedSet, sp)
		var serr error
		if p := call(func() {
			serr = transaction.VerifySingleTxnSoftConstraints(c.txn, c.headTime, c.uxIn, distParams, c.vp)
		}); p != nil {
			t.Fatalf("VerifySingleTxnSoftConstraints panicked: %v\n%s", p, describe(c))
		}
		if wantSoft != (serr == nil) {
			t.Fatalf("soft rules: code err=%v, model pass=%v (%s)\n%s", serr, wantSoft, whySoft, describe(c))
		}
		if serr != nil {
			if _, ok := serr.(transaction.ErrTxnViolatesSoftConstraint); !ok {
				t.Fatalf("soft failure reported with type %T: %v", serr, serr)
			}
		}
		head := coin.BlockHeader{Time: c.headTime, BkSeq: 5}
		for _, signed := range []bool{true, false} {
			flag := transaction.TxnSigned
			if !signed {
				flag = transaction.TxnUnsigned
			}
			wantHard, whyHard := rules.Hard(&c.txn, c.headTime, c.uxIn, signed, rules.Single)
			var herr error
			if p := call(func() { herr = transaction.VerifySingleTxnHardConstraints(c.txn, head, c.uxIn, flag) }); p != nil {
				t.Fatalf("VerifySingleTxnHardConstraints(signed=%v) panicked: %v\n%s", signed, p, describe(c))
			}
			if wantHard != (herr == nil) {
				t.Fatalf("hard rules (signed=%v): code err=%v, model pass=%v (%s)\n%s", signed, herr, wantHard, whyHard, describe(c))
			}
			if herr != nil {
				if _, ok := herr.(transaction.ErrTxnViolatesHardConstraint); !ok {
					t.Fatalf("hard failure reported with type %T: %v", herr, herr)
				}
			}
			if signed {
				// in-block rules
				wantBlk, whyBlk := rules.Hard(&c.txn, c.headTime, c.uxIn, true, rules.InBlock)
				var berr error
				if p := call(func() { berr = transaction.VerifyBlockTxnConstraints(c.txn, head, c.uxIn) }); p != nil {
					t.Fatalf("VerifyBlockTxnConstraints panicked: %v\n%s", p, describe(c))
				}
				if wantBlk != (berr == nil) {
					t.Fatalf("block rules: code err=%v, model pass=%v (%s)\n%s", berr, wantBlk, whyBlk, describe(c))
				}
				if berr != nil {
					if _, ok := berr.(transaction.ErrTxnViolatesHardConstraint); !ok {
						t.Fatalf("block-rule failure reported with type %T", berr)
					}
				}
				r.Count(fmt.Sprintf("hard_pass_%v", wantHard))
			}
		}
		r.Count("soft_" + map[bool]string{true: "pass", false: whySoft}[wantSoft])
		nt := false
		for _, tg := range c.tags {
			if tg == "hours_top_of_range" || tg == "hours_boundary" || tg == "hours_zero_fee" || tg == "hours_overflow" || tg == "hours_above" || len(tg) > 8 && tg[:8] == "accrual_" {
				nt = true
			}
		}
		if d := int64(c.vp.MaxTransactionSize) - int64(c.txn.Length); d >= -1 && d <= 1 {
			nt = true
			r.Count("size_at_limit")
		}
		if whySoft == "locked" || whySoft == "precision" {
			nt = true
		}
		b := txref.EncodeTxn(&c.txn)
		r.Case(nt, append(b, []byte(fmt.Sprintf("/%d/%v", c.headTime, c.vp))...))
		if r.WantSample(nt) {
			r.Sample(nt, map[string]interface{}{"kind": "soft_hard", "tags": c.tags, "burn": c.vp.BurnFactor, "max_size": c.vp.MaxTransactionSize, "precision": c.vp.MaxDropletPrecision,
				"head_time": c.headTime, "soft_model": map[bool]string{true: "pass", false: whySoft}[wantSoft], "txn_hex": hex.EncodeToString(b)})
		}
	})
}

func describe(c softCase) string {
	s := fmt.Sprintf("tags=%v head=%d params=%+v\n txn=%x\n", c.tags, c.headTime, c.vp, txref.EncodeTxn(&c.txn))
	for i, ux := range c.uxIn {
		s += fmt.Sprintf(" in[%d]: time=%d coins=%d hours=%d addr=%s\n", i, ux.Head.Time, ux.Body.Coins, ux.Body.Hours, ux.Body.Address)
	}
	for i, o := range c.txn.Out {
		s += fmt.Sprintf(" out[%d]: coins=%d hours=%d\n", i, o.Coins, o.Hours)
	}
	return s
}
