module verif/harness

go 1.23

toolchain go1.23.5

require (
	github.com/skycoin/skycoin v0.0.0
	pgregory.net/rapid v1.3.0
)

replace github.com/skycoin/skycoin => /repo
