package pool

import (
	"encoding/binary"
	"fmt"
	"net"
	"sync"
	"testing"
	"time"

	"pgregory.net/rapid"

	"github.com/skycoin/skycoin/src/daemon/gnet"

	"verif/harness/internal/ev"
	"verif/harness/internal/hx"
)

// TestC22_BurstThenClose: "the receiver delivers exactly that sequence of messages in order" also when the peer hangs
// up right after a burst and the handler is slower than the reader: the messages that were received completely are
// waiting in the connection's receive queue and must still be delivered.
func TestC22_BurstThenClose(t *testing.T) {
	r := ev.Get("C22")
	r.Rule("burst then close: a raw TCP client connects to a real listening ConnectionPool, writes 1-30 well-formed numbered messages (in one write, in two, or frame by frame) and closes the socket at once or after a drawn pause of up to 2 ms; the handler is slowed by a drawn delay per message {none, 200 us, 2 ms}; the burst fits the receive queue (32); oracle: the handler receives exactly the numbers 0..k-1 in order within 10 s; non-trivial = at least 2 messages and a slowed handler; distinct by (k, chunking, delays)")
	hx.Check(t, "C22", 40, 1500, func(t *rapid.T) {
		cfg := gnet.NewConfig()
		cfg.Address, cfg.Port = "127.0.0.1", 0
		cfg.MaxConnections, cfg.MaxIncomingConnections, cfg.MaxOutgoingConnections = 16, 8, 4
		cfg.ReadTimeout, cfg.WriteTimeout, cfg.DialTimeout = 2*time.Second, 2*time.Second, 2*time.Second
		cfg.ConnectCallback = func(addr string, id uint64, solicited bool) {}
		cfg.DisconnectCallback = func(addr string, id uint64, r gnet.DisconnectReason) {}
		cfg.ConnectFailureCallback = func(addr string, solicited bool, err error) {}
		p, err := gnet.NewConnectionPool(cfg, nil)
		if err != nil {
			t.Skipf("HARNESS: %v", err)
		}
		runDone := make(chan error, 1)
		go func() { runDone <- p.Run() }()
		quitDrain := make(chan struct{})
		go func() {
			for {
				select {
				case <-p.SendResults:
				case <-quitDrain:
					return
				}
			}
		}()
		defer func() {
			p.Shutdown()
			<-runDone
			close(quitDrain)
		}()
		var laddr string
		for i := 0; i < 3000; i++ {
			if a, err := p.ListeningAddress(); err == nil && a != nil {
				laddr = a.String()
				break
			}
			time.Sleep(time.Millisecond)
		}
		if laddr == "" {
			t.Skip("HARNESS: pool did not start listening")
		}
		k := rapid.IntRange(1, 30).Draw(t, "k")
		delay := rapid.SampledFrom([]time.Duration{0, 200 * time.Microsecond, 2 * time.Millisecond}).Draw(t, "handler_delay")
		var mu sync.Mutex
		var got []uint32
		burstSink = func(pl []byte) {
			if delay > 0 {
				time.Sleep(delay)
			}
			mu.Lock()
			got = append(got, binary.LittleEndian.Uint32(pl[1:]))
			mu.Unlock()
		}
		defer func() { burstSink = nil }()
		var stream []byte
		var ends []int
		for i := 0; i < k; i++ {
			pl := make([]byte, 5)
			pl[0] = 0xB0
			binary.LittleEndian.PutUint32(pl[1:], uint32(i))
			stream = append(stream, frame(pl)...)
			ends = append(ends, len(stream))
		}
		conn, err := net.DialTimeout("tcp", laddr, 2*time.Second)
		if err != nil {
			t.Skip("HARNESS: dial failed")
		}
		chunking := rapid.SampledFrom([]string{"one_write", "two_writes", "frame_by_frame"}).Draw(t, "chunking")
		switch chunking {
		case "one_write":
			conn.Write(stream)
		case "two_writes":
			c := rapid.IntRange(1, len(stream)-1).Draw(t, "cut")
			conn.Write(stream[:c])
			conn.Write(stream[c:])
		default:
			at := 0
			for _, e := range ends {
				conn.Write(stream[at:e])
				at = e
			}
		}
		if us := rapid.SampledFrom([]int{0, 0, 100, 2000}).Draw(t, "pause_before_close_us"); us > 0 {
			time.Sleep(time.Duration(us) * time.Microsecond)
		}
		conn.Close()
		deadline := time.Now().Add(10 * time.Second)
		for time.Now().Before(deadline) {
			mu.Lock()
			n := len(got)
			mu.Unlock()
			if n >= k {
				break
			}
			time.Sleep(time.Millisecond)
		}
		// a little longer: nothing may arrive twice either
		time.Sleep(2 * time.Millisecond)
		mu.Lock()
		res := append([]uint32(nil), got...)
		mu.Unlock()
		ok := len(res) == k
		for i := 0; ok && i < k; i++ {
			ok = res[i] == uint32(i)
		}
		if !ok {
			t.Fatalf("the peer sent messages 0..%d (%s, handler delay %v) and closed the connection; the handler received %v", k-1, chunking, delay, res)
		}
		nt := k >= 2 && delay > 0
		r.CaseS(nt, fmt.Sprintf("burst/%d/%s/%v", k, chunking, delay))
		r.Count("bursts_delivered_after_close")
	})
}
