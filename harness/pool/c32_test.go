package pool

import (
	"encoding/binary"
	"encoding/json"
	"errors"
	"fmt"
	"io"
	"net"
	"os"
	"path/filepath"
	"runtime"
	"strings"
	"sync"
	"sync/atomic"
	"testing"
	"time"

	"pgregory.net/rapid"

	"github.com/skycoin/skycoin/src/daemon/gnet"

	"verif/harness/internal/ev"
	"verif/harness/internal/hx"
)

func TestMain(m *testing.M) {
	gnet.RegisterMessage(gnet.MessagePrefixFromString("VMSG"), vmsg{})
	gnet.VerifyMessages()
	hx.Main(m)
}

const ruleC32 = "generated concurrent programs against a real gnet.ConnectionPool listening on 127.0.0.1, or 1 in 4 running without a listener (RunOffline, outgoing connections only), or with a listening port that is already taken so that Run fails at once (binary built with the race detector; every report is classified by the two functions that touch the shared word, documented patterns are listed as known findings, anything else fails the run): 2-6 worker goroutines each run a drawn list of 3-12 operations {Connect to one of 3 raw TCP peers, raw inbound dial (optionally sending a valid frame, an oversized length prefix or garbage, optionally closing at once), Disconnect of a known / unknown address, SendMessage, BroadcastMessage, GetConnections, Size, GetConnection, SendPings, GetStaleConnections, ListeningAddress, IsMaxOutgoingDefaultConnectionsReached, peer-side close}, each preceded by a drawn pause {none, yield, 50us, 500us, 2ms}; one goroutine calls Shutdown at a drawn position while the others are still running; the pool's callbacks and the send-result channel are serviced as the daemon does; oracle: no race report, no panic, every call returns within 20 s (a hang is reported only if the same program hangs again), every strand-based call that starts after Shutdown returned yields the pool-closed error, Shutdown returns, afterwards no connection is registered (verif hook) and every peer socket has been closed by the pool; non-trivial = at least 2 workers were still issuing operations when Shutdown started and at least one connection was established; distinct by program text"

// vmsg is a wire message of the harness: a 4-byte length prefixed payload, handler counts deliveries.
type vmsg struct {
	Payload []byte
}

var handled int64

func (m vmsg) EncodeSize() uint64 { return uint64(4 + len(m.Payload)) }
func (m vmsg) Encode(b []byte) error {
	if len(b) < 4+len(m.Payload) {
		return errors.New("short buffer")
	}
	binary.LittleEndian.PutUint32(b, uint32(len(m.Payload)))
	copy(b[4:], m.Payload)
	return nil
}
func (m *vmsg) Decode(b []byte) (uint64, error) {
	if len(b) < 4 {
		return 0, errors.New("short")
	}
	n := binary.LittleEndian.Uint32(b)
	if uint64(len(b)) < 4+uint64(n) {
		return 0, errors.New("short payload")
	}
	m.Payload = append([]byte(nil), b[4:4+n]...)
	return 4 + uint64(n), nil
}

// burstSink, when set, receives the payload of every handled message whose first byte is 0xB0 (burst test of C22)
var burstSink func(payload []byte)

func (m *vmsg) Handle(c *gnet.MessageContext, state interface{}) error {
	atomic.AddInt64(&handled, 1)
	if f := burstSink; f != nil && len(m.Payload) == 5 && m.Payload[0] == 0xB0 {
		f(m.Payload)
		return nil
	}
	if len(m.Payload) > 0 && m.Payload[0] == 0xEE {
		return errors.New("handler asks for a disconnect")
	}
	return nil
}

type op struct {
	Kind  string `json:"kind"`
	Arg   int    `json:"arg"`
	Pause int    `json:"pause"` // 0 none, 1 yield, 2 50us, 3 500us, 4 2ms
}

type program struct {
	Workers     [][]op `json:"workers"`
	ShutdownBy  int    `json:"shutdown_by"`  // worker index
	ShutdownPos int    `json:"shutdown_pos"` // before which op of that worker
	ListenFails bool   `json:"listen_fails"` // the listening port is taken: Run returns an error at once; the pool object must still answer calls and shut down
	Offline     bool   `json:"offline"`      // the pool runs without a listener (RunOffline, as the daemon does when incoming connections are disabled); inbound dials become outgoing connects
}

var opKinds = []string{"connect", "connect", "dial_in", "dial_in", "disconnect", "disconnect_unknown", "send", "send", "broadcast", "get_connections", "size", "get_connection", "send_pings", "stale", "listening_address", "is_max_default", "peer_close"}

func genProgram(t *rapid.T) program {
	var p program
	nw := rapid.IntRange(2, 6).Draw(t, "workers")
	for w := 0; w < nw; w++ {
		n := rapid.IntRange(3, 12).Draw(t, "nops")
		var ops []op
		for i := 0; i < n; i++ {
			ops = append(ops, op{Kind: rapid.SampledFrom(opKinds).Draw(t, "kind"), Arg: rapid.IntRange(0, 5).Draw(t, "arg"), Pause: rapid.IntRange(0, 4).Draw(t, "pause")})
		}
		p.Workers = append(p.Workers, ops)
	}
	p.Offline = rapid.IntRange(0, 3).Draw(t, "offline") == 0
	p.ListenFails = !p.Offline && rapid.IntRange(0, 7).Draw(t, "listen_fails") == 3
	p.ShutdownBy = rapid.IntRange(0, nw-1).Draw(t, "shutdown_by")
	p.ShutdownPos = rapid.IntRange(0, len(p.Workers[p.ShutdownBy])).Draw(t, "shutdown_pos")
	return p
}

func pause(k int) {
	switch k {
	case 1:
		runtime.Gosched()
	case 2:
		time.Sleep(50 * time.Microsecond)
	case 3:
		time.Sleep(500 * time.Microsecond)
	case 4:
		time.Sleep(2 * time.Millisecond)
	}
}

// rawPeer is a plain TCP endpoint: it accepts connections, reads and discards, and records whether the pool closed them.
type rawPeer struct {
	ln    net.Listener
	mu    sync.Mutex
	conns []net.Conn
	open  int64
	wg    sync.WaitGroup
}

func newRawPeer() (*rawPeer, error) {
	ln, err := net.Listen("tcp", "127.0.0.1:0")
	if err != nil {
		return nil, err
	}
	p := &rawPeer{ln: ln}
	p.wg.Add(1)
	go func() {
		defer p.wg.Done()
		for {
			c, err := ln.Accept()
			if err != nil {
				return
			}
			p.track(c)
		}
	}()
	return p, nil
}

func (p *rawPeer) track(c net.Conn) {
	p.mu.Lock()
	p.conns = append(p.conns, c)
	p.mu.Unlock()
	atomic.AddInt64(&p.open, 1)
	p.wg.Add(1)
	go func() {
		defer p.wg.Done()
		_, _ = io.Copy(io.Discard, c) // returns when the other side closes (or we do)
		atomic.AddInt64(&p.open, -1)
		c.Close()
	}()
}

func (p *rawPeer) closeOne(i int) {
	p.mu.Lock()
	defer p.mu.Unlock()
	if len(p.conns) > 0 {
		p.conns[i%len(p.conns)].Close()
	}
}

func (p *rawPeer) stop() {
	p.ln.Close()
	p.mu.Lock()
	for _, c := range p.conns {
		c.Close()
	}
	p.mu.Unlock()
	p.wg.Wait()
}

func frame(payload []byte) []byte {
	body := append([]byte("VMSG"), make([]byte, 4+len(payload))...)
	binary.LittleEndian.PutUint32(body[4:], uint32(len(payload)))
	copy(body[8:], payload)
	out := make([]byte, 4+len(body))
	binary.LittleEndian.PutUint32(out, uint32(len(body)))
	copy(out[4:], body)
	return out
}

// watchdog for one program (they normally take 10-100 ms); a hang is reported only after it reproduced
const watchdog = 20 * time.Second

// once a hang has been confirmed, further hangs (the shrinker re-runs variants of the program) are not re-confirmed
var hangConfirmed int32

type outcome struct {
	lagging       bool
	diag          string
	hung          string
	violation     string
	overlapped    int
	connected     int64
	afterShutdown int
}

// runProgram executes one program against a fresh pool.
func runProgram(p program) outcome {
	var out outcome
	cfg := gnet.NewConfig()
	cfg.Address = "127.0.0.1"
	cfg.Port = 0
	cfg.MaxConnections = 16
	cfg.MaxOutgoingConnections = 4
	cfg.MaxIncomingConnections = 8
	cfg.MaxDefaultPeerOutgoingConnections = 1
	cfg.DialTimeout = 2 * time.Second
	cfg.ReadTimeout = 2 * time.Second
	cfg.WriteTimeout = 2 * time.Second
	cfg.ConnectionWriteQueueSize = 4
	var connected int64
	cfg.ConnectCallback = func(addr string, id uint64, solicited bool) { atomic.AddInt64(&connected, 1) }
	cfg.DisconnectCallback = func(addr string, id uint64, r gnet.DisconnectReason) {}
	cfg.ConnectFailureCallback = func(addr string, solicited bool, err error) {}
	var peers []*rawPeer
	for i := 0; i < 3; i++ {
		rp, err := newRawPeer()
		if err != nil {
			out.violation = "HARNESS: " + err.Error()
			return out
		}
		peers = append(peers, rp)
	}
	cfg.DefaultConnections = []string{peers[0].ln.Addr().String()}
	if p.ListenFails {
		cfg.Port = uint16(peers[1].ln.Addr().(*net.TCPAddr).Port) // occupied
	}
	noListener := p.Offline || p.ListenFails
	pool, err := gnet.NewConnectionPool(cfg, nil)
	if err != nil {
		out.violation = "HARNESS: " + err.Error()
		return out
	}
	runDone := make(chan error, 1)
	go func() {
		if p.Offline {
			runDone <- pool.RunOffline()
		} else {
			runDone <- pool.Run()
		}
	}()
	// the daemon drains the send results
	drainQuit := make(chan struct{})
	var drainWG sync.WaitGroup
	drainWG.Add(1)
	go func() {
		defer drainWG.Done()
		for {
			select {
			case <-pool.SendResults:
			case <-drainQuit:
				return
			}
		}
	}()
	// wait for the listener (through the public query, as the repository's own tests do)
	var laddr string
	for i := 0; i < 2000 && !noListener; i++ {
		if a, err := pool.ListeningAddress(); err == nil && a != nil {
			laddr = a.String()
			break
		}
		time.Sleep(time.Millisecond)
	}
	if laddr == "" && !noListener {
		out.violation = "HARNESS: pool did not start listening"
		return out
	}
	inbound := &rawPeer{}
	var shutdownStarted, shutdownReturned int32
	var mu sync.Mutex
	report := func(format string, a ...interface{}) {
		mu.Lock()
		if out.violation == "" {
			out.violation = fmt.Sprintf(format, a...)
		}
		mu.Unlock()
	}
	knownAddr := func(i int) string {
		conns, err := pool.GetConnections()
		if err != nil || len(conns) == 0 {
			return peers[i%3].ln.Addr().String()
		}
		return conns[i%len(conns)].Addr()
	}
	closedErr := func(err error) bool { return err == gnet.ErrConnectionPoolClosed }
	do := func(o op) {
		pause(o.Pause)
		after := atomic.LoadInt32(&shutdownReturned) == 1
		var err error
		strandOp := true
		if noListener && o.Kind == "dial_in" {
			o.Kind = "connect"
		}
		switch o.Kind {
		case "connect":
			err = pool.Connect(peers[o.Arg%3].ln.Addr().String())
		case "dial_in":
			strandOp = false
			c, derr := net.DialTimeout("tcp", laddr, 2*time.Second)
			if derr == nil {
				inbound.track(c)
				switch o.Arg {
				case 0, 1:
					c.Write(frame([]byte{1, 2, 3}))
				case 2:
					c.Write(frame([]byte{0xEE})) // handler returns an error
				case 3:
					c.Write([]byte{0xff, 0xff, 0xff, 0x7f}) // oversized length prefix
				case 4:
					c.Write([]byte("garbage garbage garbage"))
					c.Close()
				}
			}
		case "disconnect":
			err = pool.Disconnect(knownAddr(o.Arg), errors.New("verif disconnect"))
			if err != nil && strings.Contains(err.Error(), "does not exist") {
				err = nil
			}
		case "disconnect_unknown":
			err = pool.Disconnect("203.0.113.9:1", errors.New("verif disconnect"))
			if err != nil && strings.Contains(err.Error(), "does not exist") {
				err = nil
			}
		case "send":
			err = pool.SendMessage(knownAddr(o.Arg), &vmsg{Payload: []byte{byte(o.Arg)}})
			if err != nil && (err == gnet.ErrWriteQueueFull || strings.Contains(err.Error(), "not connected")) {
				err = nil
			}
		case "broadcast":
			_, err = pool.BroadcastMessage(&vmsg{Payload: []byte{9}}, []string{knownAddr(o.Arg), knownAddr(o.Arg + 1)})
			switch err {
			case gnet.ErrPoolEmpty, gnet.ErrNoMatchingConnections, gnet.ErrNoReachableConnections:
				err = nil
			}
		case "get_connections":
			_, err = pool.GetConnections()
		case "size":
			_, err = pool.Size()
		case "get_connection":
			_, err = pool.GetConnection(knownAddr(o.Arg))
		case "send_pings":
			err = pool.SendPings(0, &vmsg{})
			if err != nil && (err == gnet.ErrWriteQueueFull || strings.Contains(err.Error(), "not connected")) {
				err = nil
			}
		case "stale":
			_, err = pool.GetStaleConnections(time.Duration(o.Arg) * time.Millisecond)
		case "listening_address":
			strandOp = false
			_, _ = pool.ListeningAddress()
		case "is_max_default":
			strandOp = false
			_ = pool.IsMaxOutgoingDefaultConnectionsReached()
		case "peer_close":
			strandOp = false
			peers[o.Arg%3].closeOne(o.Arg)
		}
		if strandOp {
			if after {
				if o.Kind == "connect" && err != nil && !closedErr(err) {
					// a refused / failed dial is reported before the pool is asked: only a nil result is wrong here
					err = gnet.ErrConnectionPoolClosed
				}
				if !closedErr(err) {
					report("%s started after Shutdown had returned and yielded %v instead of the pool-closed error", o.Kind, err)
				}
				mu.Lock()
				out.afterShutdown++
				mu.Unlock()
			} else if err != nil && !closedErr(err) {
				switch o.Kind {
				case "connect": // documented connect refusals and dial errors
				default:
					report("%s returned an undocumented error before shutdown: %v", o.Kind, err)
				}
			}
		}
	}
	var wg sync.WaitGroup
	var active int32
	start := make(chan struct{})
	for wi := range p.Workers {
		wg.Add(1)
		atomic.AddInt32(&active, 1)
		go func(wi int) {
			defer wg.Done()
			defer func() {
				if r := recover(); r != nil {
					report("panic in worker %d: %v", wi, r)
				}
			}()
			<-start
			for i, o := range p.Workers[wi] {
				if wi == p.ShutdownBy && i == p.ShutdownPos {
					mu.Lock()
					out.overlapped = int(atomic.LoadInt32(&active)) - 1
					mu.Unlock()
					atomic.StoreInt32(&shutdownStarted, 1)
					pool.Shutdown()
					atomic.StoreInt32(&shutdownReturned, 1)
				}
				do(o)
			}
			atomic.AddInt32(&active, -1)
			if wi == p.ShutdownBy && p.ShutdownPos == len(p.Workers[wi]) {
				atomic.StoreInt32(&shutdownStarted, 1)
				pool.Shutdown()
				atomic.StoreInt32(&shutdownReturned, 1)
			}
		}(wi)
	}
	close(start)
	fin := make(chan struct{})
	go func() { wg.Wait(); close(fin) }()
	select {
	case <-fin:
	case <-time.After(watchdog):
		out.hung = fmt.Sprintf("workers did not finish within %v (shutdown started=%d returned=%d)", watchdog, atomic.LoadInt32(&shutdownStarted), atomic.LoadInt32(&shutdownReturned))
		return out
	}
	select {
	case <-runDone:
	case <-time.After(watchdog):
		out.hung = fmt.Sprintf("Run did not return within %v after Shutdown returned", watchdog)
		return out
	}
	out.connected = atomic.LoadInt64(&connected)
	if a, b := pool.VerifRegistered(); a != 0 || b != 0 {
		report("after Shutdown returned %d connections are still registered by id and %d by address", a, b)
	}
	// every socket the pool held must have been closed by it
	deadline := time.Now().Add(watchdog)
	for {
		open := atomic.LoadInt64(&inbound.open)
		for _, rp := range peers {
			open += atomic.LoadInt64(&rp.open)
		}
		if open == 0 {
			break
		}
		if time.Now().After(deadline) {
			// a time-based observation: treated like a hang (reported only if the same program shows it again)
			// which sockets, and what the pool's goroutines are doing
			var which []string
			for i, rp := range append([]*rawPeer{inbound}, peers...) {
				rp.mu.Lock()
				for _, c := range rp.conns {
					one := []byte{0}
					_ = c.SetReadDeadline(time.Now().Add(time.Millisecond))
					if _, err := c.Read(one); err != nil && !strings.Contains(err.Error(), "timeout") {
						continue
					}
					which = append(which, fmt.Sprintf("peer[%d] %s<->%s", i-1, c.LocalAddr(), c.RemoteAddr()))
				}
				rp.mu.Unlock()
			}
			buf := make([]byte, 4<<20)
			n := runtime.Stack(buf, true)
			var keep []string
			for _, g := range strings.Split(string(buf[:n]), "\n\n") {
				if strings.Contains(g, "daemon/gnet") {
					keep = append(keep, g)
				}
			}
			out.diag = fmt.Sprintf("open sockets: %v\n%s", which, strings.Join(keep, "\n\n"))
			if len(which) > 0 || len(keep) > 0 {
				// a socket really is still open, or a pool goroutine is still alive: a hang-like observation
				out.hung = fmt.Sprintf("%d peer sockets are still open %v after Shutdown returned", len(which), watchdog)
			} else {
				// the reader goroutines of the harness had not all noticed the close in time although every socket is
				// closed and no pool goroutine is left (seen on a saturated machine): not an observation about the pool
				out.lagging = true
			}
			break
		}
		time.Sleep(2 * time.Millisecond)
	}
	close(drainQuit)
	drainWG.Wait()
	for _, rp := range peers {
		rp.stop()
	}
	inbound.mu.Lock()
	for _, c := range inbound.conns {
		c.Close()
	}
	inbound.mu.Unlock()
	inbound.wg.Wait()
	return out
}

func trimTo(s string, n int) string {
	if len(s) > n {
		return s[:n]
	}
	return s
}

func saveProgram(p program) string {
	b, _ := json.MarshalIndent(p, "", " ")
	name := fmt.Sprintf("violation-C32-%d.json", os.Getpid())
	_ = os.WriteFile(name, b, 0644)
	abs, _ := filepath.Abs(name)
	return abs
}

func TestC32_PoolConcurrency(t *testing.T) {
	r := ev.Get("C32")
	r.Rule(ruleC32)
	r.Assume("schedules are sampled, not enumerated: the Go scheduler decides the interleaving, the harness only perturbs it with drawn pauses; the race detector reports races that actually happen in an explored execution")
	r.Assume("a watchdog expiry is reported only if the same program hangs again in at least one of two further runs; otherwise the case is counted as inconclusive")
	if rp := os.Getenv("VERIF_REPLAY"); rp != "" {
		b, err := os.ReadFile(rp)
		if err != nil {
			t.Fatal(err)
		}
		var p program
		if err := json.Unmarshal(b, &p); err != nil {
			t.Fatal(err)
		}
		for i := 0; i < 30; i++ {
			o := runProgram(p)
			if o.hung != "" || o.violation != "" {
				t.Fatalf("replay %d: %s %s", i, o.hung, o.violation)
			}
			r.CaseS(true, string(b))
		}
		return
	}
	hx.Check(t, "C32", 500, 20000, func(t *rapid.T) {
		p := genProgram(t)
		path := saveProgram(p) // kept only if the process dies on a race report or the case fails
		o := runProgram(p)
		if o.hung != "" {
			again := 0
			if atomic.LoadInt32(&hangConfirmed) == 1 {
				again = 1
			} else {
				for i := 0; i < 2; i++ {
					if o2 := runProgram(p); o2.hung != "" {
						again++
					}
				}
			}
			if again > 0 {
				atomic.StoreInt32(&hangConfirmed, 1)
			}
			if again == 0 {
				r.Count("watchdog_not_reproduced")
				os.Remove(path)
				t.Skip("watchdog expiry did not reproduce")
			}
			t.Fatalf("%s (reproduced %d of 2 further runs); program saved at %s\n%s", o.hung, again, path, trimTo(o.diag, 12000))
		}
		if strings.HasPrefix(o.violation, "HARNESS:") {
			os.Remove(path)
			t.Skip(o.violation)
		}
		if o.violation != "" {
			b, _ := json.Marshal(p)
			t.Fatalf("%s\n program: %s", o.violation, b)
		}
		os.Remove(path)
		nt := o.overlapped >= 2 && o.connected >= 1
		b, _ := json.Marshal(p)
		r.CaseS(nt, string(b))
		if o.lagging {
			r.Count("harness_socket_counters_lagging")
		}
		if p.ListenFails {
			r.Count("programs_whose_listen_failed")
		}
		if p.Offline {
			r.Count("programs_without_listener")
		}
		r.CountN("connections_established", o.connected)
		r.CountN("ops_after_shutdown", int64(o.afterShutdown))
		if o.overlapped >= 2 {
			r.Count("shutdown_overlapping_2plus_workers")
		}
		if r.WantSample(nt) {
			r.Sample(nt, map[string]interface{}{"program": p, "workers_active_at_shutdown": o.overlapped, "connections_established": o.connected})
		}
	})
}
