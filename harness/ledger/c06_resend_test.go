package ledger

import (
	"fmt"
	"testing"

	"pgregory.net/rapid"

	"github.com/skycoin/skycoin/src/coin"

	"verif/harness/internal/ev"
	"verif/harness/internal/gen"
	"verif/harness/internal/hx"
	"verif/harness/internal/ref/rules"
	"verif/harness/internal/ref/txref"
)

// TestC06_ResentAfterChainMoved: the validity flag of a pooled transaction is the verdict of the LAST verification.  A
// transaction that was pooled as soft-invalid (it burns no or too few hours at the head time of then) becomes valid once
// a later block moves the head time and its inputs have accrued hours; when a peer or the user sends it again before any
// refresh pass, the node verifies it again and the flag must follow - the random histories rarely resend a pooled
// transaction in exactly that window.
func TestC06_ResentAfterChainMoved(t *testing.T) {
	r := ev.Get("C06")
	r.Rule("resent pooled transactions: block 1 fans the genesis output out to 4-8 outputs, half of them without hours; a node pools 1-3 single-input spends of them that burn nothing, too little or enough at that head time (flags compared with the reference); the publisher confirms an unrelated spend in block 2 with a drawn time step (1 s to 2^40 s); before any refresh pass a drawn subset of the pooled transactions is sent again (as a peer or as the user) and verdicts, the valid-hash list and the pool are compared with the reference, then a refresh pass runs and they are compared again; non-trivial = the reference flag of a resent transaction changed with the resend; distinct by history")
	hx.Check(t, "C06", 10, 500, func(t *rapid.T) {
		cfg := genWorldCfg(t)
		cfg.genesisVolume = 100e12
		cfg.genesisTime = 1000
		cfg.unconfirmed.MaxTransactionSize, cfg.createBlock.MaxTransactionSize = 2048, 2048
		cfg.unconfirmed.MaxDropletPrecision, cfg.createBlock.MaxDropletPrecision = 3, 3
		cfg.maxBlockSize = 34816
		cfg.followers = 1
		w := newWorld(t, cfg)
		defer w.destroy()
		pub, fol := w.nodes[0], w.nodes[1]
		g := pub.m.SortedUtxo()
		k := rapid.IntRange(4, 8).Draw(t, "fanout")
		hoursIn, c := rules.Accrued(g[0], pub.m.Head().Head.Time)
		if c != rules.AccrueOK {
			t.Fatalf("genesis hours: %s", c)
		}
		per := hoursIn.Uint64() / 2 / uint64(k)
		var fan coin.Transaction
		fan.In = append(fan.In, txref.UxBodyID(g[0].Body))
		rem := g[0].Body.Coins
		for i := 0; i < k; i++ {
			amt := uint64(1000e6) + uint64(i)*1e6
			if i == k-1 {
				amt = rem
			}
			rem -= amt
			h := per
			if i%2 == 0 {
				h = 0
			}
			fan.Out = append(fan.Out, coin.TransactionOutput{Address: userKeys[i%len(userKeys)].Addr, Coins: amt, Hours: h})
		}
		signTxn(&fan, []gen.Key{genesisKey})
		if !w.injectForeignChecked(t, pub, fan, "fanout") {
			t.Skip("fan-out transaction was not admitted (drawn parameters)")
		}
		w.actPublish(t)
		if pub.m.Head().Head.BkSeq != 1 {
			t.Skip("fan-out block was not created")
		}
		w.actDeliverAll(t)
		var outs []coin.UxOut
		for _, ux := range fol.m.SortedUtxo() {
			if ux.Body.SrcTransaction == txref.TxnHash(&fan) {
				outs = append(outs, ux)
			}
		}
		order := rapid.Permutation(intsTo(len(outs))).Draw(t, "order")
		nPend := rapid.IntRange(1, 3).Draw(t, "pending")
		var pend []coin.Transaction
		for _, i := range order[:nPend] {
			ux := outs[i]
			hrs, c := rules.Accrued(ux, fol.m.Head().Head.Time)
			if c != rules.AccrueOK {
				t.Skip("accrual out of range")
			}
			h := hrs.Uint64()
			var keep uint64
			switch rapid.SampledFrom([]string{"burn_nothing", "burn_nothing", "burn_too_little", "burn_enough"}).Draw(t, "burn") {
			case "burn_nothing":
				keep = h
			case "burn_too_little":
				keep = h - h/8
			default:
				keep = h / 4
			}
			var p coin.Transaction
			p.In = append(p.In, txref.UxBodyID(ux.Body))
			p.Out = []coin.TransactionOutput{{Address: userKeys[rapid.IntRange(0, len(userKeys)-1).Draw(t, "pdest")].Addr, Coins: ux.Body.Coins, Hours: keep}}
			signTxn(&p, []gen.Key{keyByAddr[ux.Body.Address]})
			if w.injectForeignChecked(t, fol, p, fmt.Sprintf("pending, keeps %d of %d hours", keep, h)) {
				pend = append(pend, p)
			}
		}
		if len(pend) == 0 {
			t.Skip("no pending transaction was admitted")
		}
		w.checkNode(t, fol, "pending transactions pooled")
		// an unrelated spend moves the chain (and the head time) on
		lu := outs[order[nPend]]
		var q coin.Transaction
		q.In = append(q.In, txref.UxBodyID(lu.Body))
		q.Out = []coin.TransactionOutput{{Address: userKeys[rapid.IntRange(0, len(userKeys)-1).Draw(t, "qdest")].Addr, Coins: lu.Body.Coins, Hours: lu.Body.Hours / 4}}
		signTxn(&q, []gen.Key{keyByAddr[lu.Body.Address]})
		if !w.injectForeignChecked(t, pub, q, "unrelated spend") {
			t.Skip("unrelated spend was not admitted")
		}
		w.actPublish(t)
		if pub.m.Head().Head.BkSeq != 2 {
			t.Skip("block 2 was not created")
		}
		w.actDeliverAll(t)
		w.checkNode(t, fol, "block 2")
		changed := 0
		for i, p := range pend {
			if rapid.IntRange(0, 3).Draw(t, fmt.Sprintf("resend%d", i)) == 0 {
				continue
			}
			h := txref.TxnHash(&p)
			was := fol.m.Pool[h] != nil && fol.m.Pool[h].Valid
			if rapid.IntRange(0, 2).Draw(t, "as_user") == 1 {
				admitted, _, why := fol.m.InjectUser(p)
				var err error
				if pn := call(func() { _, _, _, err = fol.v.InjectUserTransaction(p) }); pn != nil {
					t.Fatalf("InjectUserTransaction panicked: %v\n history:\n  %s", pn, w.history())
				}
				w.logf("%s.InjectUser(%s again) -> err=%v [model admitted=%v %s]", fol.name, shortHash(h), err, admitted, why)
				if admitted != (err == nil) {
					t.Fatalf("%s: InjectUserTransaction err=%v but model says admitted=%v (%s)\n history:\n  %s", fol.name, err, admitted, why, w.history())
				}
			} else {
				w.injectForeignChecked(t, fol, p, "pending, again")
			}
			if e := fol.m.Pool[h]; e != nil && e.Valid != was {
				changed++
				r.Count("flag_changed_with_the_resend")
			}
			w.checkNode(t, fol, "resend of "+shortHash(h))
		}
		fol.m.Refresh()
		if _, err := fol.v.RefreshUnconfirmed(); err != nil {
			t.Fatalf("RefreshUnconfirmed: %v", err)
		}
		w.checkNode(t, fol, "refresh after the resends")
		nt := changed > 0
		r.CaseS(nt, w.history())
		r.Count("resend_cases")
		if r.WantSample(nt) {
			r.Sample(nt, map[string]interface{}{"pending": len(pend), "flags_changed_by_resend": changed, "head_time": fol.m.Head().Head.Time})
		}
	})
}
