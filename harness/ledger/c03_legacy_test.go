package ledger

import (
	"fmt"
	"math/big"
	"testing"

	"pgregory.net/rapid"

	"github.com/skycoin/skycoin/src/coin"

	"verif/harness/internal/ev"
	"verif/harness/internal/gen"
	"verif/harness/internal/hx"
	"verif/harness/internal/ref/rules"
	"verif/harness/internal/ref/txref"
)

// TestC03_LegacyOverflowInputs: inputs whose accrued hours do not fit 64 bits.  The hard rule counts such an input as
// 0 hours (documented exception for an existing main-net block); every other input still counts with its own hours.
// Such outputs cannot be produced by fee-paying transactions (a tenth of the hours is burnt on every hop), but a signed
// block may carry a zero-fee transaction, so the genesis output of a 2^64-1 volume chain (2^64-1 hours) can hand nearly
// all of its hours to one small output.  Scenario: block 1 does that and creates 2-3 ordinary outputs, block 2 moves
// the clock so far that the big output overflows, block 3 spends a drawn mix of ordinary outputs and the overflowing one
// in a drawn order with output hours at the boundary (sum of the ordinary inputs' hours -1, exactly, +1, + one ordinary
// input's hours again).  Acceptance by follower and publisher must equal the reference rules, and the accepted
// transactions are checked against the exact accrued hours like everywhere else.
func TestC03_LegacyOverflowInputs(t *testing.T) {
	r := ev.Get("C03")
	r.Rule("legacy-overflow scenario: on a 2^64-1 volume chain a zero-fee block transaction gives one small output nearly all 2^64-1 genesis hours; after a drawn time gap it overflows on accrual; a block transaction then spends it together with 1-2 ordinary outputs in a drawn order with output hours at sum(ordinary) -1 / +0 / +1 / + an ordinary input's hours; non-trivial = the overflowing input was not the first input and the output hours were at or above the boundary")
	hx.Check(t, "C03", 12, 600, func(t *rapid.T) {
		cfg := genWorldCfg(t)
		cfg.genesisVolume = ^uint64(0)
		cfg.genesisTime = 1000
		cfg.followers = 1
		w := newWorld(t, cfg)
		defer w.destroy()
		target := w.nodes[rapid.IntRange(0, 1).Draw(t, "target")]
		m := target.m
		g := m.SortedUtxo()
		if len(g) != 1 {
			t.Fatalf("expected the genesis output")
		}
		// block 1: X gets nearly all hours, 3 ordinary outputs
		xCoinsWhole := uint64(rapid.IntRange(1, 1<<20).Draw(t, "xcoins"))
		k := rapid.Uint64Range(0, 1000).Draw(t, "below")
		ordH := []uint64{rapid.Uint64Range(1, 1e6).Draw(t, "h1"), rapid.Uint64Range(1, 1e6).Draw(t, "h2"), rapid.Uint64Range(0, 1e6).Draw(t, "h3")}
		xHours := ^uint64(0) - k - ordH[0] - ordH[1] - ordH[2]
		var b1 coin.Transaction
		b1.In = append(b1.In, txref.UxBodyID(g[0].Body))
		rest := g[0].Body.Coins - xCoinsWhole*1e6
		b1.Out = []coin.TransactionOutput{
			{Address: userKeys[0].Addr, Coins: xCoinsWhole * 1e6, Hours: xHours},
			{Address: userKeys[1].Addr, Coins: 1000e6, Hours: ordH[0]},
			{Address: userKeys[2].Addr, Coins: 2000e6, Hours: ordH[1]},
			{Address: userKeys[3].Addr, Coins: rest - 3000e6, Hours: ordH[2]},
		}
		signTxn(&b1, []gen.Key{genesisKey})
		t1 := uint64(1000) + rapid.Uint64Range(1, 1e6).Draw(t, "d1")
		if !w.submit(t, target, signBlock(nextBlock(m, []coin.Transaction{b1}, t1), publisherKey), "legacy:block1") {
			t.Fatalf("block 1 of the scenario was refused\n history:\n  %s", w.history())
		}
		// block 2: moves the clock; spends the change output (index 3) onwards with a fee
		var xUx, o1, o2, o3 coin.UxOut
		for _, ux := range m.SortedUtxo() {
			switch ux.Body.Address {
			case userKeys[0].Addr:
				xUx = ux
			case userKeys[1].Addr:
				o1 = ux
			case userKeys[2].Addr:
				o2 = ux
			case userKeys[3].Addr:
				o3 = ux
			}
		}
		// time gap: X must overflow in the final addition but not in the products: whole*gap < 2^64 and whole*gap/3600 > k+ordinary
		maxGap := (^uint64(0)) / xCoinsWhole
		if maxGap > 1<<40 {
			maxGap = 1 << 40
		}
		need := (k + ordH[0] + ordH[1] + ordH[2] + 2) * 3600 / xCoinsWhole
		if need+1 >= maxGap {
			t.Skip("no time gap makes the output overflow without overflowing the product")
		}
		gap := rapid.Uint64Range(need+3600, maxGap).Draw(t, "gap")
		mv := coin.Transaction{}
		mv.In = append(mv.In, txref.UxBodyID(o3.Body))
		mv.Out = []coin.TransactionOutput{{Address: userKeys[3].Addr, Coins: o3.Body.Coins, Hours: 0}}
		signTxn(&mv, []gen.Key{userKeys[3]})
		t2 := t1 + gap
		if !w.submit(t, target, signBlock(nextBlock(m, []coin.Transaction{mv}, t2), publisherKey), "legacy:block2") {
			t.Skipf("clock-moving block refused (%s)", w.hist[len(w.hist)-1])
		}
		if _, c := rules.Accrued(xUx, t2); c != rules.AccrueFinalOverflow {
			t.Skipf("the big output does not overflow in the final addition (class %s)", c)
		}
		// block 3: the mix
		ins := []coin.UxOut{o1}
		owners := []gen.Key{userKeys[1]}
		if rapid.Bool().Draw(t, "two_ordinary") {
			ins = append(ins, o2)
			owners = append(owners, userKeys[2])
		}
		pos := rapid.IntRange(0, len(ins)).Draw(t, "xpos")
		ins = append(ins[:pos], append([]coin.UxOut{xUx}, ins[pos:]...)...)
		owners = append(owners[:pos], append([]gen.Key{userKeys[0]}, owners[pos:]...)...)
		sum := new(big.Int)
		var lastOrd *big.Int
		coins := uint64(0)
		for _, ux := range ins {
			coins += ux.Body.Coins
			if v, c := rules.Accrued(ux, t2); c == rules.AccrueOK {
				sum.Add(sum, v)
				lastOrd = v
			}
		}
		if !sum.IsUint64() {
			t.Skip("ordinary hours do not fit")
		}
		mode := rapid.SampledFrom([]string{"minus1", "exact", "plus1", "plus_ordinary", "half"}).Draw(t, "hoursmode")
		out := new(big.Int).Set(sum)
		switch mode {
		case "minus1":
			out.Sub(out, one)
		case "plus1":
			out.Add(out, one)
		case "plus_ordinary":
			out.Add(out, lastOrd)
		case "half":
			out.Rsh(out, 1)
		}
		if out.Sign() < 0 || !out.IsUint64() {
			t.Skip("hours out of range")
		}
		var b3 coin.Transaction
		for _, ux := range ins {
			b3.In = append(b3.In, txref.UxBodyID(ux.Body))
		}
		b3.Out = []coin.TransactionOutput{{Address: userKeys[2].Addr, Coins: coins, Hours: out.Uint64()}}
		signTxn(&b3, owners)
		t3 := t2 + rapid.Uint64Range(1, 1000).Draw(t, "d3")
		accepted := w.submit(t, target, signBlock(nextBlock(m, []coin.Transaction{b3}, t3), publisherKey), fmt.Sprintf("legacy:block3 x at %d of %d, hours %s", pos, len(ins), mode))
		w.checkAll(t, "legacy scenario")
		nt := pos > 0 && (mode == "exact" || mode == "plus1" || mode == "plus_ordinary")
		r.CaseS(nt, w.history())
		r.Count("legacy_overflow_scenarios")
		if accepted {
			r.Count("legacy_overflow_block_accepted")
		} else {
			r.Count("legacy_overflow_block_rejected")
		}
		if r.WantSample(nt) && nt {
			r.Sample(true, map[string]interface{}{"target": target.name, "x_position": pos, "inputs": len(ins), "output_hours_mode": mode, "accepted": accepted, "actions": w.hist})
		}
	})
}
