package ledger

import (
	"fmt"
	"math/big"
	"os"
	"path/filepath"
	"sort"
	"strings"
	"testing"

	"pgregory.net/rapid"

	"github.com/skycoin/skycoin/src/cipher"
	"github.com/skycoin/skycoin/src/coin"
	"github.com/skycoin/skycoin/src/daemon"
	"github.com/skycoin/skycoin/src/params"
	"github.com/skycoin/skycoin/src/visor"
	"github.com/skycoin/skycoin/src/visor/dbutil"

	"verif/harness/internal/gen"
	"verif/harness/internal/hx"
	ref "verif/harness/internal/ref/ledger"
	"verif/harness/internal/ref/rules"
	"verif/harness/internal/ref/txref"
)

func TestMain(m *testing.M) {
	// smallest values the configuration accepts, so that size limits are reachable with small transactions
	params.UserVerifyTxn = params.VerifyTxn{BurnFactor: 10, MaxTransactionSize: 1024, MaxDropletPrecision: 3}
	mc := daemon.NewMessagesConfig() // the wire messages must be registered before one can be framed (C23 replies)
	mc.Register()
	hx.Main(m)
}

func call(f func()) (p interface{}) {
	defer func() { p = recover() }()
	f()
	return nil
}

var (
	publisherKey = gen.KeyN(41)
	otherKey     = gen.KeyN(42) // a key that is NOT the publisher
	genesisKey   = gen.KeyN(40)
	userKeys     = []gen.Key{gen.KeyN(0), gen.KeyN(1), gen.KeyN(2), gen.KeyN(3)}
	distKeys     = []gen.Key{gen.KeyN(10), gen.KeyN(11)} // distKeys[1] is locked
	keyByAddr    = func() map[cipher.Address]gen.Key {
		m := map[cipher.Address]gen.Key{}
		for _, k := range append(append([]gen.Key{genesisKey}, userKeys...), distKeys...) {
			m[k.Addr] = k
		}
		return m
	}()
	allAddrs = func() []cipher.Address {
		var out []cipher.Address
		for _, k := range append(append([]gen.Key{genesisKey}, userKeys...), distKeys...) {
			out = append(out, k.Addr)
		}
		return out
	}()
	one   = big.NewInt(1)
	two64 = new(big.Int).Lsh(one, 64)
)

func bu(x uint64) *big.Int { return new(big.Int).SetUint64(x) }

func distribution() params.Distribution {
	d := params.Distribution{MaxCoinSupply: 200, InitialUnlockedCount: 1, UnlockAddressRate: 1, UnlockTimeInterval: 1000}
	for _, k := range distKeys {
		d.Addresses = append(d.Addresses, k.Addr.String())
	}
	d.MustValidate()
	return d
}

type worldCfg struct {
	genesisVolume uint64
	genesisTime   uint64
	unconfirmed   params.VerifyTxn
	createBlock   params.VerifyTxn
	maxBlockSize  uint32
	followers     int
}

func genWorldCfg(t *rapid.T) worldCfg {
	var w worldCfg
	w.genesisVolume = rapid.SampledFrom([]uint64{100e12, 100e12, 1e9, 9223372036854775000, 18446744073709551000, 18446744073709551000, ^uint64(0)}).Draw(t, "volume")
	w.genesisTime = rapid.SampledFrom([]uint64{1000, 1426562704, 0}).Draw(t, "gentime")
	w.unconfirmed = params.VerifyTxn{BurnFactor: rapid.SampledFrom([]uint32{10, 10, 20}).Draw(t, "uburn"), MaxTransactionSize: rapid.SampledFrom([]uint32{1024, 2048}).Draw(t, "usize"), MaxDropletPrecision: rapid.SampledFrom([]uint8{3, 6}).Draw(t, "uprec")}
	w.createBlock = params.VerifyTxn{BurnFactor: rapid.SampledFrom([]uint32{10, 10, 15}).Draw(t, "cburn"), MaxTransactionSize: rapid.SampledFrom([]uint32{1024, 2048}).Draw(t, "csize"), MaxDropletPrecision: rapid.SampledFrom([]uint8{3, 6}).Draw(t, "cprec")}
	w.maxBlockSize = w.createBlock.MaxTransactionSize + rapid.SampledFrom([]uint32{0, 0, 500, 1024, 30000}).Draw(t, "blockextra")
	w.followers = rapid.IntRange(1, 2).Draw(t, "followers")
	return w
}

type node struct {
	name      string
	file      string
	cfg       visor.Config
	db        *dbutil.DB
	v         *visor.Visor
	m         *ref.Model
	publisher bool
}

type world struct {
	cfg         worldCfg
	dir         string
	nodes       []*node // nodes[0] is the publisher
	published   []coin.SignedBlock
	known       []coin.Transaction // every transaction built so far (for re-injection and crafting)
	moreClasses []string           // transaction classes drawn in addition to txnClasses (focus of the running property)
	hist        []string
	stats       map[string]int
}

func (w *world) logf(format string, a ...interface{}) {
	w.hist = append(w.hist, fmt.Sprintf(format, a...))
}

func (w *world) history() string { return strings.Join(w.hist, "\n  ") }

func softOf(p params.VerifyTxn) rules.SoftParams {
	return rules.SoftParams{BurnFactor: p.BurnFactor, MaxSize: p.MaxTransactionSize, Precision: p.MaxDropletPrecision}
}

func (w *world) visorConfig(publisher bool, genesisSig cipher.Sig) visor.Config {
	c := visor.NewConfig()
	c.IsBlockPublisher = publisher
	c.Arbitrating = publisher
	c.BlockchainPubkey = publisherKey.Pub
	if publisher {
		c.BlockchainSeckey = publisherKey.Sec
	}
	c.UnconfirmedVerifyTxn = w.cfg.unconfirmed
	c.CreateBlockVerifyTxn = w.cfg.createBlock
	c.MaxBlockTransactionsSize = w.cfg.maxBlockSize
	c.Distribution = distribution()
	c.GenesisAddress = genesisKey.Addr
	c.GenesisTimestamp = w.cfg.genesisTime
	c.GenesisCoinVolume = w.cfg.genesisVolume
	c.GenesisSignature = genesisSig
	return c
}

func (w *world) modelConfig() ref.Config {
	return ref.Config{
		Pubkey:        publisherKey.Pub[:],
		Locked:        map[cipher.Address]bool{distKeys[1].Addr: true},
		Unconfirmed:   softOf(w.cfg.unconfirmed),
		User:          softOf(params.UserVerifyTxn),
		CreateBlock:   softOf(w.cfg.createBlock),
		MaxBlockSize:  w.cfg.maxBlockSize,
		GenesisVolume: w.cfg.genesisVolume,
	}
}

func (n *node) open(t *rapid.T) {
	db, err := visor.OpenDB(n.file, false)
	if err != nil {
		t.Fatalf("%s: OpenDB: %v", n.name, err)
	}
	v, err := visor.New(n.cfg, db, nil)
	if err != nil {
		db.Close()
		t.Fatalf("%s: visor.New: %v", n.name, err)
	}
	if err := v.Init(); err != nil {
		db.Close()
		t.Fatalf("%s: visor.Init: %v", n.name, err)
	}
	n.db, n.v = db, v
}

func (n *node) close() {
	if n.db != nil {
		n.db.Close()
		n.db, n.v = nil, nil
	}
}

func newWorld(t *rapid.T, cfg worldCfg) *world {
	w := &world{cfg: cfg, dir: hx.TempDir("ledger"), stats: map[string]int{}}
	pub := &node{name: "publisher", file: filepath.Join(w.dir, "pub.db"), publisher: true}
	pub.cfg = w.visorConfig(true, cipher.Sig{})
	pub.open(t)
	gb, err := pub.v.GetSignedBlockBySeq(0)
	if err != nil || gb == nil {
		t.Fatalf("publisher has no genesis block: %v", err)
	}
	pub.m = ref.New(w.modelConfig())
	pub.m.AddGenesis(*gb)
	w.nodes = append(w.nodes, pub)
	w.published = append(w.published, *gb)
	for i := 0; i < cfg.followers; i++ {
		f := &node{name: fmt.Sprintf("follower%d", i+1), file: filepath.Join(w.dir, fmt.Sprintf("f%d.db", i+1))}
		f.cfg = w.visorConfig(false, gb.Sig)
		f.open(t)
		f.m = ref.New(w.modelConfig())
		f.m.AddGenesis(*gb)
		w.nodes = append(w.nodes, f)
	}
	return w
}

func (w *world) destroy() {
	for _, n := range w.nodes {
		n.close()
	}
	os.RemoveAll(w.dir)
}

// ---------------------------------------------------------------------------
// transaction construction (from a node's model)

type txnPlan struct {
	txn   coin.Transaction
	class string // valid | hard:<what> | soft:<what>
}

func signTxn(txn *coin.Transaction, owners []gen.Key) {
	txn.InnerHash = txref.InnerHash(txn)
	txn.Sigs = make([]cipher.Sig, len(txn.In))
	for i := range txn.In {
		txn.Sigs[i] = gen.DetSign(owners[i].Sec, txref.SigHash(txn.InnerHash, txn.In[i]))
	}
	txn.Length = uint32(txref.TxnSize(txn))
}

// roundTo keeps amounts at the 3-decimal precision most of the time.
func roundAmount(t *rapid.T, v uint64) uint64 {
	if v >= 1000 && rapid.IntRange(0, 39).Draw(t, "round") != 0 {
		return v - v%1000
	}
	return v
}

// buildTxn creates a spend from the unspent outputs of model m (nil if nothing spendable).
func (w *world) buildTxn(t *rapid.T, m *ref.Model, want string) *txnPlan {
	utxo := m.SortedUtxo()
	var spendable []coin.UxOut
	for _, ux := range utxo {
		if _, ok := keyByAddr[ux.Body.Address]; ok {
			spendable = append(spendable, ux)
		}
	}
	if len(spendable) == 0 {
		return nil
	}
	head := m.Head().Head
	nIn := rapid.IntRange(1, minInt(3, len(spendable))).Draw(t, "nin")
	// choose distinct inputs
	perm := rapid.Permutation(intsTo(len(spendable))).Draw(t, "perm")
	// start with an output that carries coin hours when there is one (a spend without hours cannot pay a fee)
	for j, i := range perm {
		if v, c := rules.Accrued(spendable[i], head.Time); c == rules.AccrueOK && v.Sign() > 0 {
			perm[0], perm[j] = perm[j], perm[0]
			break
		}
	}
	idx := perm[:nIn]
	legacyMix := rapid.IntRange(0, 2).Draw(t, "legacymix") > 0
	var uxIn []coin.UxOut
	var owners []gen.Key
	coinsIn := new(big.Int)
	hoursIn := new(big.Int)
	hoursOK := true
	for _, i := range idx {
		ux := spendable[i]
		if want != "soft:locked" && ux.Body.Address == distKeys[1].Addr && len(idx) > 0 {
			// avoid the locked address unless asked for
			continue
		}
		uxIn = append(uxIn, ux)
		owners = append(owners, keyByAddr[ux.Body.Address])
		coinsIn.Add(coinsIn, bu(ux.Body.Coins))
		v, c := rules.Accrued(ux, head.Time)
		if c != rules.AccrueOK {
			// the hard rule counts an input whose accrued hours do not fit 64 bits as 0 hours (documented legacy
			// exception): sometimes go on and spend the hours of the other inputs, up to and one above that sum
			if legacyMix && c == rules.AccrueFinalOverflow {
				w.stats["txn_with_legacy_overflow_input"]++
				continue
			}
			hoursOK = false
		} else {
			hoursIn.Add(hoursIn, v)
		}
	}
	if len(uxIn) == 0 {
		return nil
	}
	if want == "soft:locked" {
		found := false
		for _, ux := range uxIn {
			if ux.Body.Address == distKeys[1].Addr {
				found = true
			}
		}
		if !found {
			for _, ux := range spendable {
				if ux.Body.Address == distKeys[1].Addr {
					uxIn = append(uxIn[:0], ux)
					owners = append(owners[:0], distKeys[1])
					coinsIn = bu(ux.Body.Coins)
					v, c := rules.Accrued(ux, head.Time)
					hoursOK = c == rules.AccrueOK
					hoursIn = new(big.Int)
					if hoursOK {
						hoursIn = v
					}
					found = true
					break
				}
			}
		}
		if !found {
			want = "valid"
		}
	}
	if coinsIn.Cmp(two64) >= 0 {
		// cannot be spent together (input coin sum overflows): take the first only
		uxIn, owners = uxIn[:1], owners[:1]
		coinsIn = bu(uxIn[0].Body.Coins)
		v, c := rules.Accrued(uxIn[0], head.Time)
		hoursOK = c == rules.AccrueOK
		hoursIn = new(big.Int)
		if hoursOK {
			hoursIn = v
		}
	}
	total := coinsIn.Uint64()
	nOut := rapid.IntRange(1, 4).Draw(t, "nout")
	bulky := strings.HasPrefix(want, "hard:") && rapid.IntRange(0, 5).Draw(t, "bulky") == 3
	if want == "soft:size" || bulky {
		// (bulky: a transaction that breaks a hard rule and is over the size limit as well - it must still be refused
		// as hard-invalid, whichever check the node runs first)
		nOut = 32
	}
	if bulky {
		w.stats["hard_invalid_and_oversized"]++
	}
	if uint64(nOut) > total {
		nOut = int(total)
	}
	var txn coin.Transaction
	for _, ux := range uxIn {
		txn.In = append(txn.In, txref.UxBodyID(ux.Body))
	}
	rem := total
	dests := append(append([]gen.Key{}, userKeys...), distKeys...)
	for i := 0; i < nOut; i++ {
		amt := rem
		if i < nOut-1 {
			max := rem - uint64(nOut-1-i)
			if max >= 2000 && rapid.IntRange(0, 39).Draw(t, "unround") != 0 {
				amt = 1000 * (1 + rapid.Uint64Range(0, max/1000-1).Draw(t, "kamt")) // whole multiples of the 3-decimal unit
			} else {
				amt = 1 + rapid.Uint64Range(0, max-1).Draw(t, "amt")
			}
		}
		rem -= amt
		txn.Out = append(txn.Out, coin.TransactionOutput{Address: dests[rapid.IntRange(0, len(dests)-1).Draw(t, "dest")].Addr, Coins: amt})
	}
	// hours: burn mode
	burn := uint64(w.cfg.unconfirmed.BurnFactor)
	if burn < uint64(w.cfg.createBlock.BurnFactor) {
		burn = uint64(w.cfg.createBlock.BurnFactor)
	}
	spendHours := uint64(0)
	if hoursOK && hoursIn.Cmp(two64) < 0 {
		h := hoursIn.Uint64()
		req := (h + burn - 1) / burn
		switch want {
		case "soft:nofee":
			spendHours = h
		case "soft:lowfee":
			if req >= 1 && h >= req {
				spendHours = h - req + 1
			} else {
				spendHours = h
			}
		case "hard:hours":
			spendHours = h + 1
			if h == ^uint64(0) {
				want = "valid"
				spendHours = h - req
			}
		default:
			if h >= req {
				spendHours = h - req
				// sometimes burn more, sometimes exactly the minimum
				if rapid.Bool().Draw(t, "burnmore") && spendHours > 0 {
					spendHours = rapid.Uint64Range(0, spendHours).Draw(t, "spendhours")
				}
			}
		}
	}
	// distribute hours over the outputs
	remH := spendHours
	base := uint64(0)
	if n := uint64(len(txn.Out)); n > 0 && remH >= n && rapid.IntRange(0, 3).Draw(t, "spread") != 0 {
		base = remH / n / 2 // every output gets a share, so that it can pay a fee later
		if base == 0 {
			base = 1
		}
		remH -= base * n
	}
	for i := range txn.Out {
		if i == len(txn.Out)-1 {
			txn.Out[i].Hours = base + remH
		} else {
			v := rapid.Uint64Range(0, remH).Draw(t, "outhours")
			txn.Out[i].Hours = base + v
			remH -= v
		}
	}
	// coins sent to the null address are burnt: legal in blocks and for network transactions (only the user rules
	// of the API refuse them); such an output stays in the unspent set for ever
	if want != "user:null_address" && len(txn.Out) >= 2 && rapid.IntRange(0, 15).Draw(t, "burn_output") == 7 {
		txn.Out[rapid.IntRange(0, len(txn.Out)-1).Draw(t, "burn_at")].Address = cipher.Address{}
		w.stats["txn_with_null_address_output"]++
	}
	// make outputs distinct
	for i := range txn.Out {
		for j := 0; j < i; j++ {
			if txn.Out[i] == txn.Out[j] {
				txn.Out[i].Address = dests[(i+j+1)%len(dests)].Addr
			}
		}
	}
	class := "valid"
	switch want {
	case "soft:nofee", "soft:lowfee", "soft:locked", "soft:size", "hard:hours":
		class = want
	case "soft:precision":
		if txn.Out[0].Coins > 1 && len(txn.Out) >= 2 {
			txn.Out[0].Coins--
			txn.Out[1].Coins++
			class = want
		}
	case "hard:create":
		if txn.Out[0].Coins < ^uint64(0) && new(big.Int).Add(coinsIn, one).Cmp(two64) < 0 {
			txn.Out[0].Coins++
			class = want
		}
	case "hard:destroy":
		if txn.Out[0].Coins > 1 {
			txn.Out[0].Coins--
			class = want
		}
	case "hard:unknown_input":
		txn.In[0] = gen.NonNullSHA(t, "unknown")
		class = want
	case "hard:spent_input":
		for id := range m.Spent {
			txn.In[0] = id
			owners[0] = keyByAddr[m.Spent[id].Ux.Body.Address]
			class = want
			break
		}
	case "hard:dup_output":
		txn.Out = append(txn.Out, txn.Out[0])
		class = want
	case "hard:zero_coin":
		txn.Out = append(txn.Out, coin.TransactionOutput{Address: userKeys[0].Addr, Coins: 0, Hours: 0})
		class = want
	case "hard:hours_overflow":
		// the sum of the output hours exceeds 64 bits: in two adjacent outputs, in the first and the last of three or more
		// (no two neighbours overflow), or only over four outputs together
		shape := rapid.SampledFrom([]string{"adjacent", "first_and_last", "four_quarters"}).Draw(t, "overflow_shape")
		need := map[string]int{"adjacent": 2, "first_and_last": 3, "four_quarters": 4}[shape]
		for len(txn.Out) < need {
			// split the last output's coins (whole coins where possible) to get one more output
			l := len(txn.Out) - 1
			c := txn.Out[l].Coins
			half := c / 2
			if c >= 2e6 {
				half = c / 2 / 1e6 * 1e6
			}
			if half == 0 {
				break
			}
			txn.Out[l].Coins = c - half
			txn.Out = append(txn.Out, coin.TransactionOutput{Address: userKeys[(l+1)%len(userKeys)].Addr, Coins: half})
		}
		if len(txn.Out) >= need {
			for i := range txn.Out {
				txn.Out[i].Hours = uint64(i) // keeps equal-coin outputs to one address distinct
			}
			switch shape {
			case "adjacent":
				txn.Out[0].Hours, txn.Out[1].Hours = 1<<63, 1<<63
			case "first_and_last":
				txn.Out[0].Hours, txn.Out[len(txn.Out)-1].Hours = 1<<63, 1<<63
			case "four_quarters":
				for i := 0; i < 4; i++ {
					txn.Out[i].Hours = 1<<62 + uint64(i)
				}
			}
			class = want
			w.stats["hours_overflow_"+shape]++
		}
	case "user:null_address":
		txn.Out[0].Address = cipher.Address{}
		class = want
	}
	signTxn(&txn, owners)
	switch want {
	case "hard:wrong_signer":
		txn.Sigs[0] = gen.DetSign(otherKey.Sec, txref.SigHash(txn.InnerHash, txn.In[0]))
		class = want
	case "hard:dup_input":
		txn.In = append(txn.In, txn.In[0])
		signTxn(&txn, append(owners, owners[0]))
		class = want
	case "hard:inner_hash":
		txn.InnerHash[3] ^= 0x40
		class = want
	case "hard:length":
		txn.Length++
		class = want
	case "hard:null_sig":
		txn.Sigs[0] = cipher.Sig{}
		class = want
	}
	return &txnPlan{txn: txn, class: class}
}

func minInt(a, b int) int {
	if a < b {
		return a
	}
	return b
}

func intsTo(n int) []int {
	out := make([]int, n)
	for i := range out {
		out[i] = i
	}
	return out
}

var txnClasses = []string{"valid", "valid", "valid", "valid", "valid", "valid", "soft:nofee", "soft:lowfee", "soft:precision", "soft:locked", "soft:size",
	"hard:create", "hard:destroy", "hard:unknown_input", "hard:spent_input", "hard:dup_output", "hard:zero_coin", "hard:hours", "hard:hours_overflow",
	"hard:wrong_signer", "hard:dup_input", "hard:inner_hash", "hard:length", "hard:null_sig", "user:null_address"}

// ---------------------------------------------------------------------------
// block construction from a model (independent of coin.NewBlock)

// nextBlock builds the block that follows m's head out of txns (no validity checks here).
func nextBlock(m *ref.Model, txns []coin.Transaction, when uint64) coin.Block {
	head := m.Head()
	fee := new(big.Int)
	for i := range txns {
		if f, ok := m.FeeOf(&txns[i]); ok {
			fee.Add(fee, f)
		}
	}
	feeU := uint64(0)
	if fee.IsUint64() {
		feeU = fee.Uint64()
	}
	return coin.Block{
		Head: coin.BlockHeader{
			Version:  head.Head.Version,
			Time:     when,
			BkSeq:    head.Head.BkSeq + 1,
			Fee:      feeU,
			PrevHash: txref.HeaderHash(head.Head),
			BodyHash: txref.BodyHash(txns),
			UxHash:   m.UxHash(),
		},
		Body: coin.BlockBody{Transactions: txns},
	}
}

func signBlock(b coin.Block, k gen.Key) coin.SignedBlock {
	return coin.SignedBlock{Block: b, Sig: gen.DetSign(k.Sec, txref.HeaderHash(b.Head))}
}

// ---------------------------------------------------------------------------
// state comparison

func uxLess(a, b coin.UxOut) bool {
	x, y := txref.UxBodyID(a.Body), txref.UxBodyID(b.Body)
	return string(x[:]) < string(y[:])
}

// checkNode compares the observable state of a node with its model (the core invariants of C01, C02, C04, C06).
func (w *world) checkNode(t *rapid.T, n *node, after string) {
	fail := func(format string, a ...interface{}) {
		t.Fatalf("%s after %s: %s\n history:\n  %s", n.name, after, fmt.Sprintf(format, a...), w.history())
	}
	// chain
	seq, ok, err := n.v.HeadBkSeq()
	if err != nil || !ok {
		fail("HeadBkSeq: %v %v", ok, err)
	}
	if seq != n.m.Head().Head.BkSeq {
		fail("head seq %d, model %d", seq, n.m.Head().Head.BkSeq)
	}
	for i := range n.m.Blocks {
		sb, err := n.v.GetSignedBlockBySeq(uint64(i))
		if err != nil || sb == nil {
			fail("GetSignedBlockBySeq(%d): %v", i, err)
		}
		want := n.m.Blocks[i]
		if txref.HeaderHash(sb.Head) != txref.HeaderHash(want.Head) || sb.Sig != want.Sig || txref.BodyHash(sb.Body.Transactions) != txref.BodyHash(want.Body.Transactions) {
			fail("stored block %d differs from the accepted block: stored header %+v sig %s, accepted header %+v sig %s", i, sb.Head, sb.Sig.Hex()[:16], want.Head, want.Sig.Hex()[:16])
		}
		// the stored header must be the one the publisher signed
		if a, ok := rules.SigSigner(sb.Sig, txref.HeaderHash(sb.Head)); !ok || a != publisherKey.Addr {
			fail("stored block %d is not signed by the publisher over its stored header", i)
		}
		if sb.Head.BodyHash != txref.BodyHash(sb.Body.Transactions) {
			fail("stored block %d: body hash does not match its transactions", i)
		}
	}
	if extra, _ := n.v.GetSignedBlockBySeq(uint64(len(n.m.Blocks))); extra != nil {
		fail("node has a block at seq %d beyond the model's head", len(n.m.Blocks))
	}
	// unspent set
	uxs, err := n.v.GetAllUnspentOutputs()
	if err != nil {
		fail("GetAllUnspentOutputs: %v", err)
	}
	got := append([]coin.UxOut(nil), uxs...)
	sort.Slice(got, func(i, j int) bool { return uxLess(got[i], got[j]) })
	want := n.m.SortedUtxo()
	if len(got) != len(want) {
		fail("unspent set has %d outputs, model %d", len(got), len(want))
	}
	sum := new(big.Int)
	for i := range got {
		if got[i] != want[i] {
			fail("unspent output %d differs: node %+v model %+v", i, got[i], want[i])
		}
		sum.Add(sum, bu(got[i].Body.Coins))
	}
	if sum.Cmp(bu(w.cfg.genesisVolume)) != 0 {
		fail("coins in the unspent set sum to %s, genesis volume is %d", sum, w.cfg.genesisVolume)
	}
	md, err := n.v.GetBlockchainMetadata()
	if err != nil {
		fail("GetBlockchainMetadata: %v", err)
	}
	if md.Unspents != uint64(len(want)) || md.HeadBlock.Head.BkSeq != seq {
		fail("metadata says %d unspents head %d, model %d / %d", md.Unspents, md.HeadBlock.Head.BkSeq, len(want), seq)
	}
	if md.Unconfirmed != uint64(len(n.m.Pool)) {
		fail("metadata says %d unconfirmed, model %d", md.Unconfirmed, len(n.m.Pool))
	}
	// pool
	pool, err := n.v.GetAllUnconfirmedTransactions()
	if err != nil {
		fail("GetAllUnconfirmedTransactions: %v", err)
	}
	if len(pool) != len(n.m.Pool) {
		fail("pool has %d transactions, model %d", len(pool), len(n.m.Pool))
	}
	for _, u := range pool {
		h := txref.TxnHash(&u.Transaction)
		e, ok := n.m.Pool[h]
		if !ok {
			fail("pool holds %s which the model does not", h.Hex()[:12])
		}
		if (u.IsValid == 1) != e.Valid {
			fail("pool entry %s has IsValid=%d, model valid=%v", h.Hex()[:12], u.IsValid, e.Valid)
		}
	}
	// the list of valid pending hashes (what the node announces) is exactly the entries flagged valid
	vh, err := n.v.GetAllValidUnconfirmedTxHashes()
	if err != nil {
		fail("GetAllValidUnconfirmedTxHashes: %v", err)
	}
	nValid := 0
	for _, e := range n.m.Pool {
		if e.Valid {
			nValid++
		}
	}
	seenValid := map[cipher.SHA256]bool{}
	for _, h := range vh {
		e, ok := n.m.Pool[h]
		if !ok || !e.Valid || seenValid[h] {
			fail("GetAllValidUnconfirmedTxHashes lists %s (in model pool=%v, listed twice=%v)", h.Hex()[:12], ok, seenValid[h])
		}
		seenValid[h] = true
	}
	if len(vh) != nValid {
		fail("GetAllValidUnconfirmedTxHashes lists %d hashes, the model has %d valid pool entries", len(vh), nValid)
	}
	// outputs by id: every unspent output is found under its own id, a spent and an unknown id are not
	{
		ids := make([]cipher.SHA256, 0, len(want))
		for _, ux := range want {
			ids = append(ids, txref.UxBodyID(ux.Body))
		}
		if len(ids) > 0 {
			byID, err := n.v.GetUnspentOutputs(ids)
			if err != nil || len(byID) != len(ids) {
				fail("GetUnspentOutputs(%d ids of the unspent set) returned %d outputs, err=%v", len(ids), len(byID), err)
			}
			for i := range byID {
				if byID[i] != want[i] {
					fail("GetUnspentOutputs: output %d is %+v, asked for %+v", i, byID[i], want[i])
				}
			}
		}
		for id := range n.m.Spent {
			if _, err := n.v.GetUnspentOutputs([]cipher.SHA256{id}); err == nil {
				fail("GetUnspentOutputs finds the spent output %s", id.Hex()[:12])
			}
			break
		}
		if _, err := n.v.GetUnspentOutputs([]cipher.SHA256{cipher.SumSHA256([]byte("no such output"))}); err == nil {
			fail("GetUnspentOutputs finds an output that never existed")
		}
	}
}

func (w *world) checkAll(t *rapid.T, after string) {
	for _, n := range w.nodes {
		w.checkNode(t, n, after)
	}
}
