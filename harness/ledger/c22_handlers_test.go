package ledger

import (
	"bytes"
	"encoding/binary"
	"fmt"
	"testing"

	"pgregory.net/rapid"

	"github.com/skycoin/skycoin/src/cipher"
	"github.com/skycoin/skycoin/src/coin"
	"github.com/skycoin/skycoin/src/daemon"
	"github.com/skycoin/skycoin/src/daemon/gnet"

	"verif/harness/internal/ev"
	"verif/harness/internal/hx"
	"verif/harness/internal/ref/txref"
)

// TestC22_Handlers: C22 ends with "no byte stream makes the node panic" and lists the daemon message handlers as an
// observation point.  Here byte streams go the whole way: framing, decoding and then the handler of the decoded message,
// on a recording daemon over a real node that has a chain and a pool.  Frames are well-formed messages of every kind
// built from the node's own data (its blocks, its transactions, unknown hashes, extreme numbers) and then edited at byte
// level; whatever still decodes is handled.  Besides "no panic" the node must stay what the reference model says: a
// handled GiveBlocks appends exactly the acceptable run of blocks, a handled GiveTxns pools exactly the admissible
// transactions, nothing else changes chain, unspent set or pool.
func TestC22_Handlers(t *testing.T) {
	r := ev.Get("C22")
	r.Rule("handler level: 8-30 frames for a node with a chain and a pool (recording daemon over a real visor): well-formed messages of all 12 kinds built from the node's and the publisher's data (blocks it has / the next ones / later ones, pooled / confirmed / fresh / hard-invalid transactions, known and unknown hashes, sequence numbers and counts up to 2^64-1, introductions with generated extra bytes, peer lists, disconnect codes), framed and then left alone or edited (1-3 byte edits, a 4-byte window patched with a boundary length, cut short, extended); the frame goes through the real length-prefix decoder and message decoder, and a message that decodes is handed to its real handler; oracle: nothing panics and every call returns; after a handled GiveBlocks the chain grew by exactly the acceptable run of its blocks and after a handled GiveTxns the pool holds exactly the transactions the reference admits (checked with the full node comparison after every frame); non-trivial = at least one edited frame still decoded and was handled, and at least one block or transaction arrived through a handler; distinct by the frame bytes")
	hx.Check(t, "C22", 25, 1500, func(t *rapid.T) {
		cfg := genWorldCfg(t)
		cfg.followers = 1
		w := newWorld(t, cfg)
		defer w.destroy()
		pub, fol := w.nodes[0], w.nodes[1]
		// a chain of 2-5 blocks on the publisher, the receiving node gets some of them directly
		want := rapid.IntRange(2, 5).Draw(t, "chainlen")
		for tries := 0; len(w.published)-1 < want && tries < want*6; tries++ {
			p := w.buildTxn(t, pub.m, "valid")
			if p == nil {
				break
			}
			if admitted, _, _, _ := pub.m.InjectForeign(p.txn); admitted {
				if _, _, err := pub.v.InjectForeignTransaction(p.txn); err != nil {
					t.Fatalf("publisher rejects a transaction the model admits: %v", err)
				}
				w.known = append(w.known, p.txn)
			} else {
				continue
			}
			if rapid.IntRange(0, 2).Draw(t, "pubnow") != 0 {
				w.actPublish(t)
			}
		}
		if len(w.published) < 2 {
			t.Skip("could not build a chain")
		}
		for i := 1; i < len(w.published) && rapid.Bool().Draw(t, "predeliver"); i++ {
			w.submit(t, fol, w.published[i], fmt.Sprintf("published[%d]", i))
		}
		dc := daemon.DaemonConfig{GetBlocksRequestCount: 20, MaxGetBlocksResponseCount: 20, MaxOutgoingMessageLength: 256 * 1024, MaxIncomingMessageLength: 1024 * 1024}
		d := daemon.NewVerifDaemon(fol.v, dc)
		maxLen := 1024 * 1024
		editedHandled, arrived := 0, 0
		hashOf := func(i int) cipher.SHA256 { return cipher.SumSHA256([]byte(fmt.Sprintf("unknown-%d", i))) }
		big := []uint64{0, 1, 2, 20, 128, 1 << 32, 1<<63 - 1, 1 << 63, ^uint64(0)}
		nFrames := rapid.IntRange(8, 30).Draw(t, "frames")
		for f := 0; f < nFrames; f++ {
			var m gnet.Message
			kind := rapid.SampledFrom([]string{"give_blocks", "give_blocks", "give_txns", "give_txns", "announce_txns", "get_txns", "get_blocks", "announce_blocks", "intro", "give_peers", "get_peers", "ping", "pong", "disconnect"}).Draw(t, "kind")
			switch kind {
			case "give_blocks":
				head := int(fol.m.Head().Head.BkSeq)
				start := rapid.IntRange(0, len(w.published)-1).Draw(t, "start")
				if rapid.Bool().Draw(t, "next") {
					start = minInt(head+1, len(w.published)-1)
				}
				var bs []coin.SignedBlock
				for s, k := start, rapid.IntRange(1, 4).Draw(t, "nblocks"); s < len(w.published) && len(bs) < k; s++ {
					b := w.published[s]
					switch rapid.IntRange(0, 9).Draw(t, "blockmut") {
					case 3:
						b.Sig[rapid.IntRange(0, 64).Draw(t, "sigbyte")] ^= 1
					case 4:
						b.Head.Time++
					case 5:
						b.Body.Transactions = nil
					}
					bs = append(bs, b)
				}
				m = &daemon.GiveBlocksMessage{Blocks: bs}
			case "give_txns":
				var txs []coin.Transaction
				for k := rapid.IntRange(1, 3).Draw(t, "ntx"); len(txs) < k; {
					if len(w.known) > 0 && rapid.Bool().Draw(t, "known") {
						txs = append(txs, w.known[rapid.IntRange(0, len(w.known)-1).Draw(t, "which")])
						continue
					}
					p := w.buildTxn(t, fol.m, rapid.SampledFrom(txnClasses).Draw(t, "class"))
					if p == nil {
						break
					}
					w.known = append(w.known, p.txn)
					txs = append(txs, p.txn)
				}
				if len(txs) == 0 {
					continue
				}
				m = &daemon.GiveTxnsMessage{Transactions: txs}
			case "announce_txns", "get_txns":
				var hs []cipher.SHA256
				for k := rapid.IntRange(0, 5).Draw(t, "nhash"); len(hs) < k; {
					if len(w.known) > 0 && rapid.Bool().Draw(t, "knownhash") {
						hs = append(hs, txref.TxnHash(&w.known[rapid.IntRange(0, len(w.known)-1).Draw(t, "whichhash")]))
					} else {
						hs = append(hs, hashOf(len(hs)))
					}
				}
				if kind == "announce_txns" {
					m = &daemon.AnnounceTxnsMessage{Transactions: hs}
				} else {
					m = &daemon.GetTxnsMessage{Transactions: hs}
				}
			case "get_blocks":
				m = &daemon.GetBlocksMessage{LastBlock: rapid.SampledFrom(big).Draw(t, "last"), RequestedBlocks: rapid.SampledFrom(big).Draw(t, "count")}
			case "announce_blocks":
				m = &daemon.AnnounceBlocksMessage{MaxBkSeq: rapid.SampledFrom(big).Draw(t, "maxseq")}
			case "intro":
				m = &daemon.IntroductionMessage{Mirror: rapid.Uint32().Draw(t, "mirror"), ListenPort: rapid.Uint16().Draw(t, "port"), ProtocolVersion: rapid.Int32Range(-1, 3).Draw(t, "version"),
					Extra: rapid.SliceOfN(rapid.Byte(), 0, 80).Draw(t, "extra")}
			case "give_peers":
				var ps []daemon.IPAddr
				for k := rapid.IntRange(0, 4).Draw(t, "npeers"); len(ps) < k; {
					ps = append(ps, daemon.IPAddr{IP: rapid.Uint32().Draw(t, "ip"), Port: rapid.Uint16().Draw(t, "pport")})
				}
				m = &daemon.GivePeersMessage{Peers: ps}
			case "get_peers":
				m = &daemon.GetPeersMessage{}
			case "ping":
				m = &daemon.PingMessage{}
			case "pong":
				m = &daemon.PongMessage{}
			default:
				m = &daemon.DisconnectMessage{ReasonCode: rapid.Uint16().Draw(t, "code"), Reserved: rapid.SliceOfN(rapid.Byte(), 0, 12).Draw(t, "reserved")}
			}
			frame, err := gnet.EncodeMessage(m)
			if err != nil {
				t.Fatalf("EncodeMessage(%T): %v", m, err)
			}
			edit := "none"
			switch rapid.IntRange(0, 7).Draw(t, "edit") {
			case 2:
				if len(frame) > 8 {
					for k := rapid.IntRange(1, 3).Draw(t, "edits"); k > 0; k-- {
						frame[rapid.IntRange(8, len(frame)-1).Draw(t, "pos")] = rapid.Byte().Draw(t, "val")
					}
					edit = "bytes"
				}
			case 3:
				if len(frame) >= 12 {
					pos := rapid.IntRange(8, len(frame)-4).Draw(t, "lpos")
					binary.LittleEndian.PutUint32(frame[pos:], rapid.SampledFrom([]uint32{0, 1, 2, 127, 128, 129, 255, 256, 257, 65535, 65536, 0x7fffffff, 0xffffffff}).Draw(t, "lval"))
					edit = "length"
				}
			case 4:
				if len(frame) > 9 {
					frame = frame[:rapid.IntRange(8, len(frame)-1).Draw(t, "cut")]
					binary.LittleEndian.PutUint32(frame, uint32(len(frame)-4))
					edit = "cut"
				}
			case 5:
				frame = append(frame, rapid.SliceOfN(rapid.Byte(), 1, 9).Draw(t, "tail")...)
				binary.LittleEndian.PutUint32(frame, uint32(len(frame)-4))
				edit = "extended"
			}
			what := fmt.Sprintf("frame %d %s edit=%s %x", f, kind, edit, trimBytes(frame, 120))
			buf := bytes.NewBuffer(append([]byte(nil), frame...))
			var payloads [][]byte
			var derr error
			if p := call(func() { payloads, derr = gnet.VerifDecodeData(buf, maxLen) }); p != nil {
				t.Fatalf("length-prefix decoder panicked: %v\n %s", p, what)
			}
			if derr != nil || len(payloads) != 1 {
				r.Count("handler_frame_refused_by_framing")
				continue
			}
			var msg gnet.Message
			var cerr error
			if p := call(func() { msg, cerr = gnet.VerifConvertToMessage(7, payloads[0]) }); p != nil {
				t.Fatalf("message decoder panicked: %v\n %s", p, what)
			}
			if cerr != nil || msg == nil {
				r.Count("handler_frame_refused_by_decoder")
				continue
			}
			// the reference effect of the decoded message
			switch x := msg.(type) {
			case *daemon.GiveBlocksMessage:
				before := fol.m.Head().Head.BkSeq
				for i := range x.Blocks {
					if x.Blocks[i].Head.BkSeq <= before {
						continue
					}
					if ok, _ := w.expectAccept(fol, &x.Blocks[i]); !ok {
						break
					}
					fol.m.Apply(x.Blocks[i])
					arrived++
				}
			case *daemon.GiveTxnsMessage:
				for i := range x.Transactions {
					if admitted, _, _, _ := fol.m.InjectForeign(x.Transactions[i]); admitted {
						arrived++
					}
				}
			}
			if p := call(func() { daemon.VerifProcess(d, msg, "10.3.3.3:6000", 7) }); p != nil {
				t.Fatalf("the handler of %T panicked: %v\n %s\n history:\n  %s", msg, p, what, w.history())
			}
			w.logf("handled %s", what)
			w.checkNode(t, fol, what)
			r.Count("handler_frames_handled")
			if edit != "none" {
				editedHandled++
				r.Count("handler_edited_frames_handled")
			}
			d.Sent, d.Disconnects, d.Peers = nil, nil, nil
		}
		nt := editedHandled >= 1 && arrived >= 1
		r.CaseS(nt, w.history())
		if r.WantSample(nt) && len(w.hist) < 40 {
			r.Sample(nt, map[string]interface{}{"kind": "handlers", "frames": nFrames, "edited_frames_handled": editedHandled, "blocks_or_transactions_arrived": arrived})
		}
	})
}

func trimBytes(b []byte, n int) []byte {
	if len(b) > n {
		return b[:n]
	}
	return b
}
