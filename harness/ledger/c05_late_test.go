package ledger

import (
	"testing"

	"pgregory.net/rapid"

	"github.com/skycoin/skycoin/src/coin"

	"verif/harness/internal/ev"
	"verif/harness/internal/gen"
	"verif/harness/internal/hx"
	"verif/harness/internal/ref/rules"
	"verif/harness/internal/ref/txref"
)

// TestC05_LateValid: pooled transactions that were not acceptable when they arrived and become acceptable later without
// the pool being re-checked.  Outputs created with 0 hours are spent at once with no fee (soft-invalid when injected);
// a later block moves the clock, the inputs accrue hours and the same transactions now burn everything they carry - the
// highest fee per kilobyte there is.  Competing spends of the same outputs arrive afterwards with a lower fee.  The
// publisher must choose from the whole pool as it stands now (reference selection of the state machine).
func TestC05_LateValid(t *testing.T) {
	r := ev.Get("C05")
	r.Rule("late-valid pools: block 1 fans the genesis output out into 4-10 outputs, about half of them with 0 hours; each zero-hour output is spent at once by a transaction that pays no fee (pooled as soft-invalid); block 2 (a spend of an output that has hours) moves the clock by a drawn step; no refresh pass runs; competing spends of some of the same outputs with a lower fee are injected; the next block is created either through the node's own create-and-execute path or from the pool read through the public query, and must equal the reference selection over the whole pool at the current head; non-trivial = the reference selection contains a transaction whose pool entry was marked invalid when it arrived")
	hx.Check(t, "C05", 12, 600, func(t *rapid.T) {
		cfg := genWorldCfg(t)
		cfg.genesisVolume = 100e12
		cfg.genesisTime = 1000
		cfg.unconfirmed.MaxTransactionSize, cfg.createBlock.MaxTransactionSize = 2048, 2048
		cfg.unconfirmed.MaxDropletPrecision, cfg.createBlock.MaxDropletPrecision = 3, 3
		cfg.maxBlockSize = 34816
		cfg.followers = 1
		w := newWorld(t, cfg)
		defer w.destroy()
		pub := w.nodes[0]
		g := pub.m.SortedUtxo()
		if len(g) != 1 {
			t.Fatalf("expected the genesis output only")
		}
		k := rapid.IntRange(4, 10).Draw(t, "fanout")
		dests := append(append([]gen.Key{}, userKeys...), distKeys[0])
		hoursIn, c := rules.Accrued(g[0], pub.m.Head().Head.Time)
		if c != rules.AccrueOK {
			t.Fatalf("genesis hours: %s", c)
		}
		per := hoursIn.Uint64() / 2 / uint64(k)
		var fan coin.Transaction
		fan.In = append(fan.In, txref.UxBodyID(g[0].Body))
		rem := g[0].Body.Coins
		for i := 0; i < k; i++ {
			amt := uint64(1000e6) + uint64(i)*1e6
			if i == k-1 {
				amt = rem
			}
			rem -= amt
			h := per
			if i%2 == 0 {
				h = 0
			}
			fan.Out = append(fan.Out, coin.TransactionOutput{Address: dests[i%len(dests)].Addr, Coins: amt, Hours: h})
		}
		signTxn(&fan, []gen.Key{genesisKey})
		if !w.injectForeignChecked(t, pub, fan, "fanout") {
			t.Skip("fan-out transaction was not admitted (drawn parameters)")
		}
		w.actPublish(t)
		if pub.m.Head().Head.BkSeq != 1 {
			t.Skip("fan-out block was not created (drawn block time not after the head)")
		}
		// spends of the zero-hour outputs, no fee: pooled, marked invalid
		type late struct {
			ux    coin.UxOut
			owner gen.Key
		}
		var lates []late
		var filler *coin.UxOut
		var fillerOwner gen.Key
		for _, ux := range pub.m.SortedUtxo() {
			if ux.Body.SrcTransaction != txref.TxnHash(&fan) {
				continue
			}
			owner, ok := keyByAddr[ux.Body.Address]
			if !ok {
				continue
			}
			if ux.Body.Hours == 0 {
				var txn coin.Transaction
				txn.In = append(txn.In, txref.UxBodyID(ux.Body))
				txn.Out = append(txn.Out, coin.TransactionOutput{Address: dests[(len(lates)+1)%len(dests)].Addr, Coins: ux.Body.Coins, Hours: 0})
				signTxn(&txn, []gen.Key{owner})
				if w.injectForeignChecked(t, pub, txn, "no fee yet") {
					lates = append(lates, late{ux, owner})
				}
			} else if filler == nil {
				u := ux
				filler, fillerOwner = &u, owner
			}
		}
		if len(lates) == 0 || filler == nil {
			t.Skip("no zero-hour output could be spent")
		}
		// block 2 moves the clock
		{
			var txn coin.Transaction
			txn.In = append(txn.In, txref.UxBodyID(filler.Body))
			txn.Out = append(txn.Out, coin.TransactionOutput{Address: dests[0].Addr, Coins: filler.Body.Coins, Hours: filler.Body.Hours / 2})
			signTxn(&txn, []gen.Key{fillerOwner})
			if !w.injectForeignChecked(t, pub, txn, "filler") {
				t.Skip("filler was not admitted")
			}
		}
		w.actPublish(t)
		if pub.m.Head().Head.BkSeq != 2 {
			t.Skip("block 2 was not created (drawn block time not after the head)")
		}
		// competitors with a lower fee for some of the same outputs
		for i, l := range lates {
			if rapid.IntRange(0, 2).Draw(t, "competitor") == 0 {
				continue
			}
			acc, c := rules.Accrued(l.ux, pub.m.Head().Head.Time)
			if c != rules.AccrueOK || !acc.IsUint64() {
				continue
			}
			var txn coin.Transaction
			txn.In = append(txn.In, txref.UxBodyID(l.ux.Body))
			txn.Out = append(txn.Out, coin.TransactionOutput{Address: dests[(i+2)%len(dests)].Addr, Coins: l.ux.Body.Coins, Hours: acc.Uint64() / 2})
			signTxn(&txn, []gen.Key{l.owner})
			w.injectForeignChecked(t, pub, txn, "competitor, lower fee")
		}
		w.checkNode(t, pub, "late-valid injections")
		_, chosen := expectedBlockTxns(pub.m)
		lateChosen := 0
		for i := range chosen {
			if e, ok := pub.m.Pool[txref.TxnHash(&chosen[i])]; ok && !e.Valid {
				lateChosen++
			}
		}
		before := pub.m.Head().Head.BkSeq
		w.actPublish(t)
		if pub.m.Head().Head.BkSeq > before {
			w.actDeliverAll(t)
		}
		w.checkAll(t, "late-valid pool")
		nt := lateChosen > 0 && pub.m.Head().Head.BkSeq > before
		r.CaseS(nt, w.history())
		r.Count("late_valid_pools")
		r.CountN("late_valid_transactions_chosen", int64(lateChosen))
		if r.WantSample(nt) {
			r.Sample(nt, map[string]interface{}{"fanout": k, "pooled_without_fee": len(lates), "chosen_although_marked_invalid": lateChosen, "clock_step": pub.m.Head().Head.Time - w.published[1].Head.Time})
		}
	})
}
