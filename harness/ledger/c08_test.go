package ledger

import (
	"bytes"
	"fmt"
	"os"
	"path/filepath"
	"testing"
	"time"

	"github.com/blang/semver"
	"pgregory.net/rapid"

	"github.com/skycoin/skycoin/src/cipher"
	"github.com/skycoin/skycoin/src/coin"
	"github.com/skycoin/skycoin/src/visor"
	"github.com/skycoin/skycoin/src/visor/dbutil"

	"verif/harness/internal/ev"
	"verif/harness/internal/hx"
	ref "verif/harness/internal/ref/ledger"
	"verif/harness/internal/ref/txref"
)

const ruleC08 = "a generated node life cycle (open database, version stamp, visor.New, Init with genesis, then 2-8 block acceptances from a pre-built publisher chain interleaved with transaction injections, refresh and invalid-removal passes) runs once to completion with the commit hook copying the database file after every bolt commit; crash states = every commit boundary (the file as it was after commit k) plus, for every commit, write-prefix states reconstructed from the page diff between the files before and after it (the file before, grown to the new size, with the first j changed data pages written, the j-th optionally torn at a generated offset, meta page unwritten or torn); each state is copied to a fresh file and restarted: open, the node's own CheckDatabase under a 20 s watchdog (with / without the ResetCorruptDB path), visor.New, Init, then the remaining publisher blocks are delivered; oracle: every step succeeds, verification returns in time without error, and the final chain, unspent set, metadata and query views equal those of the never-crashed twin; non-trivial = a crash state inside a commit that changed >= 3 pages, or between bucket creation and the genesis block; distinct by (life cycle, state)"

const pageSize = 4096

type commitSnap struct {
	name string
	data []byte
}

func openNodeOn(file string, cfg visor.Config, stamp bool) (*dbutil.DB, *visor.Visor, error) {
	db, err := visor.OpenDB(file, false)
	if err != nil {
		return nil, nil, fmt.Errorf("OpenDB: %v", err)
	}
	if stamp {
		if err := visor.SetDBVersion(db, semver.MustParse("0.26.0")); err != nil {
			db.Close()
			return nil, nil, fmt.Errorf("SetDBVersion: %v", err)
		}
	}
	v, err := visor.New(cfg, db, nil)
	if err != nil {
		db.Close()
		return nil, nil, fmt.Errorf("visor.New: %v", err)
	}
	if err := v.Init(); err != nil {
		db.Close()
		return nil, nil, fmt.Errorf("visor.Init: %v", err)
	}
	return db, v, nil
}

func TestC08_CrashRecovery(t *testing.T) {
	r := ev.Get("C08")
	r.Level("fault_enumeration")
	r.Rule(ruleC08)
	r.Assume("write model of bolt as documented: dirty data pages in ascending order, sync, one meta page, sync; the commit boundaries are observed through the verif commit hook, the intra-commit states are reconstructed from before/after images without instrumenting bolt")
	hx.Check(t, "C08", 12, 400, func(t *rapid.T) {
		cfg := genWorldCfg(t)
		cfg.followers = 1
		w := newWorld(t, cfg)
		defer w.destroy()
		pub := w.nodes[0]
		// --- publisher chain and a few spare transactions
		want := rapid.IntRange(2, 8).Draw(t, "blocks")
		var spare []coin.Transaction
		for tries := 0; len(w.published)-1 < want && tries < want*6; tries++ {
			p := w.buildTxn(t, pub.m, "valid")
			if p == nil {
				break
			}
			if admitted, _, _ := pub.m.InjectUser(p.txn); admitted {
				if _, _, _, err := pub.v.InjectUserTransaction(p.txn); err != nil {
					t.Fatalf("publisher rejects a transaction the model admits: %v", err)
				}
			} else if admitted, _, _, _ := pub.m.InjectForeign(p.txn); admitted {
				if _, _, err := pub.v.InjectForeignTransaction(p.txn); err != nil {
					t.Fatalf("publisher rejects a transaction the model admits: %v", err)
				}
			} else {
				continue
			}
			spare = append(spare, p.txn)
			if len(pub.m.Pool) > 0 && rapid.IntRange(0, 2).Draw(t, "pubnow") != 0 {
				w.actPublish(t)
			}
		}
		chain := w.published
		if len(chain) < 2 {
			t.Skip("no chain")
		}
		// --- the never-crashed twin, with snapshots at every commit
		dir := hx.TempDir("c08")
		defer os.RemoveAll(dir)
		twinFile := filepath.Join(dir, "twin.db")
		vcfg := w.visorConfig(false, chain[0].Sig)
		var snaps []commitSnap
		dbutil.SetCommitHook(func(db *dbutil.DB, name string, err error) {
			if db.Path() != twinFile {
				return
			}
			b, rerr := os.ReadFile(twinFile)
			if rerr == nil {
				snaps = append(snaps, commitSnap{name: name, data: b})
			}
		})
		defer dbutil.SetCommitHook(nil)
		db, v, err := openNodeOn(twinFile, vcfg, true)
		if err != nil {
			t.Fatalf("twin: %v", err)
		}
		genesisCommit := len(snaps)
		nextSpare := 0
		for i := 1; i < len(chain); i++ {
			switch rapid.IntRange(0, 3).Draw(t, "between") {
			case 0:
				if nextSpare < len(spare) {
					_, _, _ = v.InjectForeignTransaction(spare[nextSpare])
					nextSpare++
				}
			case 1:
				_, _ = v.RefreshUnconfirmed()
			case 2:
				_, _ = v.RemoveInvalidUnconfirmed()
			}
			if err := v.ExecuteSignedBlock(chain[i]); err != nil {
				t.Fatalf("twin rejects publisher block %d: %v", i, err)
			}
		}
		db.Close()
		dbutil.SetCommitHook(nil)
		if len(snaps) < 3 {
			t.Fatalf("only %d commits observed", len(snaps))
		}
		// reference final state
		final := ref.New(w.modelConfig())
		final.AddGenesis(chain[0])
		for i := 1; i < len(chain); i++ {
			final.Apply(chain[i])
		}
		// --- crash states
		type state struct {
			desc string
			data []byte
			nt   bool
		}
		var states []state
		for k := range snaps {
			states = append(states, state{desc: fmt.Sprintf("after commit %d (%s)", k, snaps[k].name), data: snaps[k].data, nt: k < genesisCommit})
		}
		for k := 1; k < len(snaps); k++ {
			prev, cur := snaps[k-1].data, snaps[k].data
			base := make([]byte, len(cur))
			copy(base, prev)
			var changed []int
			for p := 2; p*pageSize < len(cur); p++ {
				lo, hi := p*pageSize, (p+1)*pageSize
				if hi > len(cur) {
					hi = len(cur)
				}
				var old []byte
				if lo < len(prev) {
					oh := hi
					if oh > len(prev) {
						oh = len(prev)
					}
					old = prev[lo:oh]
				}
				if !bytes.Equal(old, cur[lo:hi]) {
					changed = append(changed, p)
				}
			}
			if len(changed) == 0 {
				continue
			}
			// a sample of prefixes: none, one, half, all-but-one, all
			js := map[int]bool{0: true, 1: true, len(changed) / 2: true, len(changed) - 1: true, len(changed): true}
			if len(changed) > 4 {
				js[rapid.IntRange(0, len(changed)).Draw(t, "prefix")] = true
			}
			for j := range js {
				if j < 0 || j > len(changed) {
					continue
				}
				img := append([]byte(nil), base...)
				for _, p := range changed[:j] {
					copy(img[p*pageSize:], cur[p*pageSize:minInt((p+1)*pageSize, len(cur))])
				}
				states = append(states, state{desc: fmt.Sprintf("inside commit %d (%s): %d of %d data pages written, meta not written", k, snaps[k].name, j, len(changed)), data: img, nt: len(changed) >= 3})
				if j > 0 {
					// the last written page torn
					p := changed[j-1]
					torn := append([]byte(nil), img...)
					off := rapid.IntRange(1, pageSize-1).Draw(t, "tear")
					end := minInt((p+1)*pageSize, len(cur))
					copy(torn[p*pageSize:], base[p*pageSize:end]) // restore, then write only `off` bytes
					copy(torn[p*pageSize:p*pageSize+off], cur[p*pageSize:p*pageSize+off])
					states = append(states, state{desc: fmt.Sprintf("inside commit %d (%s): page %d torn at byte %d", k, snaps[k].name, p, off), data: torn, nt: len(changed) >= 3})
				}
				if j == len(changed) {
					// all data pages written, the meta page torn
					for mp := 0; mp < 2; mp++ {
						if len(prev) >= (mp+1)*pageSize && !bytes.Equal(prev[mp*pageSize:(mp+1)*pageSize], cur[mp*pageSize:(mp+1)*pageSize]) {
							torn := append([]byte(nil), img...)
							off := rapid.IntRange(1, pageSize-1).Draw(t, "metatear")
							copy(torn[mp*pageSize:mp*pageSize+off], cur[mp*pageSize:mp*pageSize+off])
							states = append(states, state{desc: fmt.Sprintf("inside commit %d (%s): meta page %d torn at byte %d", k, snaps[k].name, mp, off), data: torn, nt: len(changed) >= 3})
						}
					}
				}
			}
		}
		// --- restart from every crash state
		for i, st := range states {
			f := filepath.Join(dir, fmt.Sprintf("crash-%d.db", i))
			if err := os.WriteFile(f, st.data, 0600); err != nil {
				t.Fatal(err)
			}
			mode := rapid.SampledFrom([]string{"verify", "verify", "no_verify", "reset_corrupt"}).Draw(t, "restart")
			rdb, err := visor.OpenDB(f, false)
			if err != nil {
				t.Fatalf("crash state [%s]: database does not open: %v", st.desc, err)
			}
			if mode != "no_verify" {
				done := make(chan error, 1)
				go func() {
					defer func() {
						if p := recover(); p != nil {
							done <- fmt.Errorf("panic: %v", p)
						}
					}()
					if mode == "reset_corrupt" {
						ndb, err := visor.ResetCorruptDB(rdb, publisherKey.Pub, nil)
						if err == nil && ndb != rdb {
							rdb = ndb
						}
						done <- err
						return
					}
					done <- visor.CheckDatabase(rdb, publisherKey.Pub, nil)
				}()
				select {
				case err := <-done:
					if err != nil {
						rdb.Close()
						t.Fatalf("crash state [%s]: integrity verification (%s) fails: %v", st.desc, mode, err)
					}
				case <-time.After(20 * time.Second):
					t.Fatalf("crash state [%s]: integrity verification (%s) did not return within 20 s", st.desc, mode)
				}
			}
			rdb.Close()
			rdb, rv, err := openNodeOn(f, vcfg, true)
			if err != nil {
				t.Fatalf("crash state [%s]: restart fails: %v", st.desc, err)
			}
			head, ok, err := rv.HeadBkSeq()
			if err != nil || !ok {
				rdb.Close()
				t.Fatalf("crash state [%s]: no head after restart: %v", st.desc, err)
			}
			if int(head) >= len(chain) {
				rdb.Close()
				t.Fatalf("crash state [%s]: head %d beyond the chain", st.desc, head)
			}
			for s := int(head) + 1; s < len(chain); s++ {
				if err := rv.ExecuteSignedBlock(chain[s]); err != nil {
					rdb.Close()
					t.Fatalf("crash state [%s]: after restart at head %d block %d is refused: %v", st.desc, head, s, err)
				}
			}
			// compare with the twin's final state (the pool is whatever survived: mirrored into the model)
			n := &node{name: "restarted", file: f, cfg: vcfg, db: rdb, v: rv, m: final.Clone()}
			pool, _ := rv.GetAllUnconfirmedTransactions()
			for _, u := range pool {
				n.m.Pool[txref.TxnHash(&u.Transaction)] = &ref.PoolEntry{Txn: u.Transaction, Valid: u.IsValid == 1}
			}
			w.hist = []string{"crash state: " + st.desc, fmt.Sprintf("restart mode %s, head after restart %d, chain length %d", mode, head, len(chain)-1)}
			w.checkNode(t, n, "recovery")
			w.checkViews(t, n, "recovery")
			if err := visor.CheckDatabase(rdb, publisherKey.Pub, nil); err != nil {
				rdb.Close()
				t.Fatalf("crash state [%s]: CheckDatabase fails after recovery: %v", st.desc, err)
			}
			rdb.Close()
			os.Remove(f)
			r.Count("restart_" + mode)
			r.CaseS(st.nt, fmt.Sprintf("%x/%s", cipher.SumSHA256(st.data), st.desc))
		}
		r.CountN("commits", int64(len(snaps)))
		r.CountN("crash_states", int64(len(states)))
		if r.WantSample(true) {
			var names []string
			for _, s := range snaps {
				names = append(names, s.name)
			}
			r.Sample(true, map[string]interface{}{"blocks": len(chain) - 1, "commits": names, "crash_states": len(states), "example_state": states[len(states)-1].desc})
		}
	})
}
