package ledger

import (
	"fmt"
	"testing"

	"pgregory.net/rapid"

	"github.com/skycoin/skycoin/src/cipher"
	"github.com/skycoin/skycoin/src/coin"

	"verif/harness/internal/ev"
	"verif/harness/internal/gen"
	"verif/harness/internal/hx"
	"verif/harness/internal/ref/rules"
	"verif/harness/internal/ref/txref"
)

// TestC07_PartiallySpentPoolTxn: a pending transaction with several inputs of different owners loses ONE of its inputs to
// a block (at any position of its input list).  Until the clean-up pass removes it, it can never confirm, and the views
// that predict balances must leave all of it out - not just the part after the missing input.
func TestC07_PartiallySpentPoolTxn(t *testing.T) {
	r := ev.Get("C07")
	r.Rule("partially spent pool transactions: block 1 fans the genesis output out to 4-8 outputs of different owners; a node pools a transaction with 2-3 of them as inputs (owners and order drawn); the publisher confirms a competing spend of one of those inputs (position drawn) in block 2, which the node accepts; before any clean-up pass all views of the node (predicted and confirmed balances, per-address unspents, transaction queries, history) are compared with the reference; then the clean-up pass runs and they are compared again; non-trivial = the lost input is not the first of the pooled transaction; distinct by history")
	hx.Check(t, "C07", 10, 500, func(t *rapid.T) {
		cfg := genWorldCfg(t)
		cfg.genesisVolume = 100e12
		cfg.genesisTime = 1000
		cfg.unconfirmed.MaxTransactionSize, cfg.createBlock.MaxTransactionSize = 2048, 2048
		cfg.unconfirmed.MaxDropletPrecision, cfg.createBlock.MaxDropletPrecision = 3, 3
		cfg.maxBlockSize = 34816
		cfg.followers = 1
		w := newWorld(t, cfg)
		defer w.destroy()
		pub, fol := w.nodes[0], w.nodes[1]
		g := pub.m.SortedUtxo()
		k := rapid.IntRange(4, 8).Draw(t, "fanout")
		hoursIn, c := rules.Accrued(g[0], pub.m.Head().Head.Time)
		if c != rules.AccrueOK {
			t.Fatalf("genesis hours: %s", c)
		}
		per := hoursIn.Uint64() / 2 / uint64(k)
		var fan coin.Transaction
		fan.In = append(fan.In, txref.UxBodyID(g[0].Body))
		rem := g[0].Body.Coins
		for i := 0; i < k; i++ {
			amt := uint64(1000e6) + uint64(i)*1e6
			if i == k-1 {
				amt = rem
			}
			rem -= amt
			fan.Out = append(fan.Out, coin.TransactionOutput{Address: userKeys[i%len(userKeys)].Addr, Coins: amt, Hours: per})
		}
		signTxn(&fan, []gen.Key{genesisKey})
		if !w.injectForeignChecked(t, pub, fan, "fanout") {
			t.Skip("fan-out transaction was not admitted (drawn parameters)")
		}
		w.actPublish(t)
		if pub.m.Head().Head.BkSeq != 1 {
			t.Skip("fan-out block was not created")
		}
		w.actDeliverAll(t)
		var outs []coin.UxOut
		for _, ux := range fol.m.SortedUtxo() {
			if ux.Body.SrcTransaction == txref.TxnHash(&fan) {
				outs = append(outs, ux)
			}
		}
		nIn := rapid.IntRange(2, 3).Draw(t, "nin")
		pick := rapid.Permutation(intsTo(len(outs))).Draw(t, "inputs")[:nIn]
		var ptx coin.Transaction
		var owners []gen.Key
		var coins, hours uint64
		for _, i := range pick {
			ptx.In = append(ptx.In, txref.UxBodyID(outs[i].Body))
			owners = append(owners, keyByAddr[outs[i].Body.Address])
			coins += outs[i].Body.Coins
			hours += outs[i].Body.Hours
		}
		ptx.Out = []coin.TransactionOutput{{Address: userKeys[rapid.IntRange(0, len(userKeys)-1).Draw(t, "pdest")].Addr, Coins: coins, Hours: hours / 2}}
		signTxn(&ptx, owners)
		if !w.injectForeignChecked(t, fol, ptx, fmt.Sprintf("pending, %d inputs", nIn)) {
			t.Skip("pending transaction was not admitted")
		}
		lost := rapid.IntRange(0, nIn-1).Draw(t, "lost_position")
		var q coin.Transaction
		q.In = []cipher.SHA256{ptx.In[lost]}
		lu := outs[pick[lost]]
		q.Out = []coin.TransactionOutput{{Address: userKeys[rapid.IntRange(0, len(userKeys)-1).Draw(t, "qdest")].Addr, Coins: lu.Body.Coins, Hours: lu.Body.Hours / 4}}
		signTxn(&q, []gen.Key{owners[lost]})
		if !w.injectForeignChecked(t, pub, q, "competing spend") {
			t.Skip("competing spend was not admitted")
		}
		w.actPublish(t)
		if pub.m.Head().Head.BkSeq != 2 {
			t.Skip("block 2 was not created")
		}
		w.actDeliverAll(t)
		w.checkNode(t, fol, "block with the competing spend")
		w.checkViews(t, fol, "pending transaction lost input "+fmt.Sprint(lost))
		// clean-up, then again
		wantRemoved := fol.m.RemoveInvalid()
		removed, err := fol.v.RemoveInvalidUnconfirmed()
		if err != nil || len(removed) != len(wantRemoved) {
			t.Fatalf("RemoveInvalidUnconfirmed removed %d (err %v), model %d\n history:\n  %s", len(removed), err, len(wantRemoved), w.history())
		}
		w.checkNode(t, fol, "clean-up")
		w.checkViews(t, fol, "after the clean-up")
		nt := lost > 0
		r.CaseS(nt, w.history())
		r.Count("partially_spent_pool_cases")
		if r.WantSample(nt) {
			r.Sample(nt, map[string]interface{}{"inputs_of_pending_transaction": nIn, "lost_input_position": lost})
		}
	})
}
