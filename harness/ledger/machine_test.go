package ledger

import (
	"bytes"
	"fmt"
	"math/big"
	"sort"

	"pgregory.net/rapid"

	"github.com/skycoin/skycoin/src/cipher"
	"github.com/skycoin/skycoin/src/coin"
	"github.com/skycoin/skycoin/src/transaction"
	"github.com/skycoin/skycoin/src/visor"

	"verif/harness/internal/gen"
	ref "verif/harness/internal/ref/ledger"
	"verif/harness/internal/ref/rules"
	"verif/harness/internal/ref/txref"
)

func (w *world) pickNode(t *rapid.T, label string) *node {
	return w.nodes[rapid.IntRange(0, len(w.nodes)-1).Draw(t, label)]
}

func shortHash(h cipher.SHA256) string { return h.Hex()[:10] }

// ---------------------------------------------------------------------------
// injection

func (w *world) actInject(t *rapid.T) {
	src := w.pickNode(t, "src")
	dst := src
	if rapid.IntRange(0, 3).Draw(t, "other") == 0 {
		dst = w.pickNode(t, "dst")
	}
	var txn coin.Transaction
	class := "known"
	// pooled transactions whose stored validity flag is out of date on dst (the chain moved on since they were judged):
	// sending one again must bring the flag up to date, exactly as the model's re-verification does
	var stale []coin.Transaction
	for _, h := range sortedPoolHashes(dst.m) {
		e := dst.m.Pool[h]
		ok, _ := dst.m.HardSingle(&e.Txn)
		if ok {
			if ok, _ = dst.m.SoftAt(&e.Txn, dst.m.Cfg.Unconfirmed); ok != e.Valid {
				stale = append(stale, e.Txn)
			}
		}
	}
	if len(stale) > 0 && rapid.IntRange(0, 3).Draw(t, "resend_stale") != 1 {
		txn = stale[rapid.IntRange(0, len(stale)-1).Draw(t, "which_stale")]
		class = "known_with_stale_flag"
		w.stats["resent_pooled_txn_with_stale_flag"]++
	} else if len(w.known) > 0 && rapid.IntRange(0, 4).Draw(t, "reinject") == 0 {
		txn = w.known[rapid.IntRange(0, len(w.known)-1).Draw(t, "which")]
	} else {
		p := w.buildTxn(t, src.m, rapid.SampledFrom(append(append([]string{}, txnClasses...), w.moreClasses...)).Draw(t, "class"))
		if p == nil {
			t.Skip("nothing spendable")
		}
		txn, class = p.txn, p.class
		w.known = append(w.known, txn)
	}
	h := txref.TxnHash(&txn)
	user := rapid.IntRange(0, 2).Draw(t, "user") == 0
	before := dst.m.Clone()
	if user {
		admitted, known, why := dst.m.InjectUser(txn)
		var gotKnown bool
		var err error
		if p := call(func() { gotKnown, _, _, err = dst.v.InjectUserTransaction(txn) }); p != nil {
			t.Fatalf("InjectUserTransaction panicked: %v\n txn=%x\n history:\n  %s", p, txref.EncodeTxn(&txn), w.history())
		}
		w.logf("%s.InjectUser(%s %s) -> known=%v err=%v [model admitted=%v %s]", dst.name, shortHash(h), class, gotKnown, err, admitted, why)
		if admitted != (err == nil) {
			dst.m = before
			t.Fatalf("%s: InjectUserTransaction err=%v but model says admitted=%v (%s)\n txn=%x\n history:\n  %s", dst.name, err, admitted, why, txref.EncodeTxn(&txn), w.history())
		}
		if admitted && known != gotKnown {
			t.Fatalf("%s: InjectUserTransaction known=%v, model %v\n history:\n  %s", dst.name, gotKnown, known, w.history())
		}
		if err != nil {
			switch err.(type) {
			case transaction.ErrTxnViolatesHardConstraint, transaction.ErrTxnViolatesSoftConstraint, transaction.ErrTxnViolatesUserConstraint:
			default:
				t.Fatalf("%s: InjectUserTransaction rejected with an untyped error %T %v", dst.name, err, err)
			}
			w.stats["inject_user_rejected"]++
			w.stats["userfail:"+class+":"+why]++
		} else {
			w.stats["inject_user_admitted"]++
		}
	} else {
		admitted, known, softOK, why := dst.m.InjectForeign(txn)
		var gotKnown bool
		var softErr *transaction.ErrTxnViolatesSoftConstraint
		var err error
		if p := call(func() { gotKnown, softErr, err = dst.v.InjectForeignTransaction(txn) }); p != nil {
			t.Fatalf("InjectForeignTransaction panicked: %v\n txn=%x\n history:\n  %s", p, txref.EncodeTxn(&txn), w.history())
		}
		w.logf("%s.InjectForeign(%s %s) -> known=%v soft=%v err=%v [model admitted=%v softOK=%v %s]", dst.name, shortHash(h), class, gotKnown, softErr != nil, err, admitted, softOK, why)
		if admitted != (err == nil) {
			t.Fatalf("%s: InjectForeignTransaction err=%v but model says admitted=%v (%s)\n txn=%x\n history:\n  %s", dst.name, err, admitted, why, txref.EncodeTxn(&txn), w.history())
		}
		if admitted {
			if known != gotKnown {
				t.Fatalf("%s: InjectForeignTransaction known=%v, model %v\n history:\n  %s", dst.name, gotKnown, known, w.history())
			}
			if softOK != (softErr == nil) {
				t.Fatalf("%s: InjectForeignTransaction soft violation=%v, model softOK=%v (%s)\n history:\n  %s", dst.name, softErr, softOK, why, w.history())
			}
			if !softOK {
				w.stats["pooled_soft_invalid"]++
				w.stats["softfail:"+class+":"+why]++
			}
			w.stats["inject_foreign_admitted"]++
		} else {
			if _, ok := err.(transaction.ErrTxnViolatesHardConstraint); !ok {
				t.Fatalf("%s: foreign injection rejected with %T %v, want a hard-constraint error", dst.name, err, err)
			}
			w.stats["inject_foreign_rejected"]++
		}
	}
	w.checkNode(t, dst, "inject")
}

// ---------------------------------------------------------------------------
// publisher creates a block from its pool

func feePerKB(m *ref.Model, txn *coin.Transaction) uint64 {
	f, ok := m.FeeOf(txn)
	if !ok {
		return 0
	}
	size := txref.TxnSize(txn)
	// documented priority: fee*1024 (saturating at 2^64-1) divided by the size
	x := f.Mul(f, bu(1024))
	if !x.IsUint64() {
		x = bu(^uint64(0))
	}
	x.Quo(x, bu(size))
	return x.Uint64()
}

// expectedBlockTxns is the reference for block assembly: candidates passing hard+soft(create-block) rules,
// ordered by fee/KB descending then hash ascending, first of each conflict class, cut at the size limit.
func expectedBlockTxns(m *ref.Model) (ordered []coin.Transaction, chosen []coin.Transaction) {
	var cands []coin.Transaction
	for _, e := range m.Pool {
		if ok, _ := m.HardSingle(&e.Txn); !ok {
			continue
		}
		if ok, _ := m.SoftAt(&e.Txn, m.Cfg.CreateBlock); !ok {
			continue
		}
		cands = append(cands, e.Txn)
	}
	sort.Slice(cands, func(i, j int) bool {
		fi, fj := feePerKB(m, &cands[i]), feePerKB(m, &cands[j])
		if fi != fj {
			return fi > fj
		}
		hi, hj := txref.TxnHash(&cands[i]), txref.TxnHash(&cands[j])
		return string(hi[:]) < string(hj[:])
	})
	ordered = cands
	// size cut (before conflict arbitration, as documented: sort, truncate, then arbitrate)
	var size uint64
	var cut []coin.Transaction
	for i := range cands {
		s := txref.TxnSize(&cands[i])
		if size+s > uint64(m.Cfg.MaxBlockSize) {
			break
		}
		size += s
		cut = append(cut, cands[i])
	}
	spent := map[cipher.SHA256]bool{}
	created := map[cipher.SHA256]bool{}
	for i := range cut {
		conflict := false
		for _, in := range cut[i].In {
			if spent[in] {
				conflict = true
			}
		}
		h := txref.TxnHash(&cut[i])
		for _, o := range cut[i].Out {
			if created[txref.UxID(h, o.Address, o.Coins, o.Hours)] {
				conflict = true
			}
		}
		if conflict {
			continue
		}
		for _, in := range cut[i].In {
			spent[in] = true
		}
		for _, o := range cut[i].Out {
			created[txref.UxID(h, o.Address, o.Coins, o.Hours)] = true
		}
		chosen = append(chosen, cut[i])
	}
	return ordered, chosen
}

func (w *world) nextTime(t *rapid.T, m *ref.Model) uint64 {
	head := m.Head().Head.Time
	d := rapid.SampledFrom([]uint64{1, 1, 10, 3600, 1000000, 1 << 40}).Draw(t, "dt")
	if head+d < head {
		return ^uint64(0)
	}
	return head + d
}

func (w *world) actPublish(t *rapid.T) {
	pub := w.nodes[0]
	if len(pub.m.Pool) == 0 {
		t.Skip("publisher pool empty")
	}
	when := w.nextTime(t, pub.m)
	var pool coin.Transactions
	unc, err := pub.v.GetAllUnconfirmedTransactions()
	if err != nil {
		t.Fatal(err)
	}
	for _, u := range unc {
		pool = append(pool, u.Transaction)
	}
	_, want := expectedBlockTxns(pub.m)
	var b coin.Block
	var cerr error
	// two ways to the block: the node's own path (gather the pool, create, sign and execute in one database transaction -
	// CreateAndExecuteBlock with the block time supplied through the verif hook), or CreateBlockFromTxns over the pool
	// as read through the public query, signed and executed by the harness
	var executed *coin.SignedBlock
	if rapid.Bool().Draw(t, "via_create_and_execute") {
		var sb coin.SignedBlock
		if p := call(func() { sb, cerr = pub.v.VerifCreateAndExecuteBlock(when) }); p != nil {
			t.Fatalf("CreateAndExecuteBlock panicked: %v\n history:\n  %s", p, w.history())
		}
		b = sb.Block
		if cerr == nil {
			executed = &sb
		}
		w.stats["publish_via_create_and_execute"]++
	} else if p := call(func() { b, cerr = pub.v.CreateBlockFromTxns(pool, when) }); p != nil {
		t.Fatalf("CreateBlockFromTxns panicked: %v\n history:\n  %s", p, w.history())
	}
	if when <= pub.m.Head().Head.Time {
		if cerr == nil {
			t.Fatalf("block created with time %d <= head time", when)
		}
		return
	}
	if len(want) == 0 {
		if cerr == nil {
			t.Fatalf("publisher created a block of %d txns but no pooled transaction is eligible\n history:\n  %s", len(b.Body.Transactions), w.history())
		}
		w.logf("publisher.CreateBlock -> %v (nothing eligible)", cerr)
		w.stats["publish_nothing_eligible"]++
		return
	}
	if cerr != nil {
		t.Fatalf("publisher could not create a block although %d pooled transactions are eligible: %v\n history:\n  %s", len(want), cerr, w.history())
	}
	// (b)(c)(d)(e): exactly the reference selection, in the reference order
	if len(b.Body.Transactions) != len(want) {
		detail := fmt.Sprintf("block size limit %d;", w.cfg.maxBlockSize)
		for i := range want {
			detail += fmt.Sprintf(" %s: size %d fee/KB %d;", shortHash(txref.TxnHash(&want[i])), txref.TxnSize(&want[i]), feePerKB(pub.m, &want[i]))
		}
		for i := range want {
			detail += fmt.Sprintf(" in(%s)=%v out=%+v;", shortHash(txref.TxnHash(&want[i])), hashesHex(want[i].In), want[i].Out)
		}
		for i := range pool {
			detail += fmt.Sprintf(" pool[%d]=%s;", i, shortHash(txref.TxnHash(&pool[i])))
		}
		for i := range want {
			_, e := pub.v.CreateBlockFromTxns(coin.Transactions{want[i]}, when)
			detail += fmt.Sprintf(" alone(%s)=%v;", shortHash(txref.TxnHash(&want[i])), e)
		}
		t.Fatalf("publisher block has %d transactions, reference selection has %d\n got  %v\n want %v\n %s\n history:\n  %s", len(b.Body.Transactions), len(want), hashesOf(b.Body.Transactions), hashesOf(want), detail, w.history())
	}
	for i := range want {
		if txref.TxnHash(&b.Body.Transactions[i]) != txref.TxnHash(&want[i]) {
			t.Fatalf("publisher block transaction %d is %s, reference order has %s\n got  %v\n want %v\n history:\n  %s", i, shortHash(txref.TxnHash(&b.Body.Transactions[i])), shortHash(txref.TxnHash(&want[i])), hashesOf(b.Body.Transactions), hashesOf(want), w.history())
		}
	}
	var size uint64
	for i := range b.Body.Transactions {
		size += txref.TxnSize(&b.Body.Transactions[i])
	}
	if size > uint64(w.cfg.maxBlockSize) {
		t.Fatalf("publisher block carries %d bytes of transactions, limit %d", size, w.cfg.maxBlockSize)
	}
	var sb coin.SignedBlock
	if executed != nil {
		sb = *executed
	} else {
		sb = signBlock(b, publisherKey)
	}
	// (a) an independent model of a node with the same chain accepts it
	if ok, why := pub.m.CheckBlock(&sb); !ok {
		t.Fatalf("block created by the publisher is not acceptable to an independent node: %s\n header %+v\n history:\n  %s", why, sb.Head, w.history())
	}
	if executed == nil {
		if err := pub.v.ExecuteSignedBlock(sb); err != nil {
			t.Fatalf("publisher rejects its own block: %v\n history:\n  %s", err, w.history())
		}
	}
	w.checkHours(t, pub, sb)
	pub.m.Apply(sb)
	w.published = append(w.published, sb)
	w.logf("publisher.Publish(seq=%d time=%d txns=%v)", sb.Head.BkSeq, sb.Head.Time, hashesOf(sb.Body.Transactions))
	w.stats["published"]++
	if len(sb.Body.Transactions) >= 2 {
		w.stats["published_multi_txn"]++
	}
	if len(pool) > len(sb.Body.Transactions) {
		w.stats["published_with_leftover_pool"]++
	}
	w.checkNode(t, pub, "publish")
}

func hashesOf(txns []coin.Transaction) []string {
	out := make([]string, len(txns))
	for i := range txns {
		out[i] = shortHash(txref.TxnHash(&txns[i]))
	}
	return out
}

// ---------------------------------------------------------------------------
// delivery of published blocks to followers

// expectAccept: does the reference model say that node n appends sb?
func (w *world) expectAccept(n *node, sb *coin.SignedBlock) (bool, string) {
	wantOK, why := n.m.CheckBlock(sb)
	if wantOK && n.publisher {
		// an arbitrating node sorts the transactions by fee while checking the block and leaves out those whose fee
		// it cannot compute (input hours that overflow - the legacy exception of the hard rules counts them as 0);
		// it appends the block only if nothing had to be dropped or moved
		for i := range sb.Body.Transactions {
			if _, ok := n.m.FeeOf(&sb.Body.Transactions[i]); !ok {
				wantOK, why = false, "fee not computable (arbitrating node)"
			}
		}
		if wantOK && !canonicalOrder(n.m, sb.Body.Transactions) {
			wantOK, why = false, "transactions not in fee order (arbitrating node)"
		}
	}
	return wantOK, why
}

func (w *world) submit(t *rapid.T, n *node, sb coin.SignedBlock, what string) bool {
	wantOK, why := w.expectAccept(n, &sb)
	var err error
	if p := call(func() { err = n.v.ExecuteSignedBlock(sb) }); p != nil {
		t.Fatalf("%s: ExecuteSignedBlock panicked on %s: %v\n history:\n  %s", n.name, what, p, w.history())
	}
	w.logf("%s.Execute(%s seq=%d time=%d txns=%v) -> %v [model accept=%v %s]", n.name, what, sb.Head.BkSeq, sb.Head.Time, hashesOf(sb.Body.Transactions), err, wantOK, why)
	if wantOK != (err == nil) {
		t.Fatalf("%s: block [%s] err=%v but the model says accept=%v (%s)\n header %+v\n history:\n  %s", n.name, what, err, wantOK, why, sb.Head, w.history())
	}
	if wantOK {
		w.checkHours(t, n, sb)
		n.m.Apply(sb)
		w.stats["block_accepted"]++
		ins := 0
		for i := range sb.Body.Transactions {
			ins += len(sb.Body.Transactions[i].In)
		}
		if len(sb.Body.Transactions) >= 2 || ins >= 2 {
			w.stats["accepted_multi"]++
		}
	} else {
		w.stats["block_rejected"]++
		w.stats["rejected:"+why]++
	}
	w.checkNode(t, n, "block "+what)
	return wantOK
}

// canonicalOrder: fee per kB descending, ties by ascending hash (the order the publisher itself uses)
func canonicalOrder(m *ref.Model, txns []coin.Transaction) bool {
	for i := 1; i < len(txns); i++ {
		fa, fb := feePerKB(m, &txns[i-1]), feePerKB(m, &txns[i])
		if fa < fb {
			return false
		}
		if fa == fb {
			ha, hb := txref.TxnHash(&txns[i-1]), txref.TxnHash(&txns[i])
			if string(ha[:]) > string(hb[:]) {
				return false
			}
		}
	}
	return true
}

// prePool puts a generated subset of a block's transactions into the node's pool just before the block arrives, so that
// blocks meet pools that know some of their transactions and not others, in every position.
func (w *world) prePool(t *rapid.T, n *node, txns []coin.Transaction) {
	if len(txns) < 2 || rapid.IntRange(0, 3).Draw(t, "prepool") == 0 {
		return
	}
	mask := rapid.IntRange(1, (1<<uint(minInt(len(txns), 6)))-2).Draw(t, "prepoolmask")
	for i := range txns {
		if i >= 6 || mask&(1<<uint(i)) == 0 {
			continue
		}
		txn := txns[i]
		admitted, _, _, why := n.m.InjectForeign(txn)
		var err error
		if p := call(func() { _, _, err = n.v.InjectForeignTransaction(txn) }); p != nil {
			t.Fatalf("InjectForeignTransaction panicked: %v\n history:\n  %s", p, w.history())
		}
		w.logf("%s.InjectForeign(%s block txn %d, ahead of the block) -> err=%v [model admitted=%v %s]", n.name, shortHash(txref.TxnHash(&txn)), i, err, admitted, why)
		if admitted != (err == nil) {
			t.Fatalf("%s: InjectForeignTransaction err=%v but model says admitted=%v (%s)\n history:\n  %s", n.name, err, admitted, why, w.history())
		}
		if admitted {
			w.stats["prepooled_block_txn"]++
		}
	}
}

func (w *world) actDeliver(t *rapid.T) {
	if len(w.nodes) < 2 || len(w.published) < 2 {
		t.Skip("nothing to deliver")
	}
	f := w.nodes[rapid.IntRange(1, len(w.nodes)-1).Draw(t, "follower")]
	next := int(f.m.Head().Head.BkSeq) + 1
	var i int
	switch rapid.IntRange(0, 5).Draw(t, "order") {
	case 0: // duplicate / old
		i = rapid.IntRange(0, len(w.published)-1).Draw(t, "any")
	case 1: // skip ahead
		i = minInt(next+1, len(w.published)-1)
	default:
		i = minInt(next, len(w.published)-1)
	}
	if i == next {
		w.prePool(t, f, w.published[i].Body.Transactions)
	}
	w.submit(t, f, w.published[i], fmt.Sprintf("published[%d]", i))
}

// ---------------------------------------------------------------------------
// crafted blocks

var headerMutations = []string{"none", "none", "version", "time_le_head", "time_eq_head", "seq_same", "seq_plus2", "seq_zero", "seq_max", "fee", "prev_random", "prev_zero", "prev_grandparent",
	"bodyhash", "bodyhash_zero", "uxhash", "uxhash_zero", "uxhash_of_parent", "uxhash_random", "sig_flip", "other_key", "unsigned", "genesis_again"}
var bodyMutations = []string{"drop_txn", "dup_txn", "double_spend_in_block", "spend_created_in_block", "spend_spent", "invalid_txn", "reorder", "empty", "create_coins", "destroy_coins", "create_coins", "destroy_coins", "wrap_coins"}

// validTxnsFor returns 1-2 fresh transactions that the model accepts in a block on top of its head.
func (w *world) validTxnsFor(t *rapid.T, m *ref.Model, n int) []coin.Transaction {
	var out []coin.Transaction
	used := map[cipher.SHA256]bool{}
	for try := 0; try < 6 && len(out) < n; try++ {
		p := w.buildTxn(t, m, "valid")
		if p == nil {
			break
		}
		uxIn, ok := m.Resolve(&p.txn)
		if !ok {
			continue
		}
		if ok, _ := rules.Hard(&p.txn, m.Head().Head.Time, uxIn, true, rules.InBlock); !ok {
			continue
		}
		clash := false
		for _, in := range p.txn.In {
			if used[in] {
				clash = true
			}
		}
		if clash {
			continue
		}
		for _, in := range p.txn.In {
			used[in] = true
		}
		out = append(out, p.txn)
		w.known = append(w.known, p.txn)
	}
	return out
}

func (w *world) actCraft(t *rapid.T) {
	n := w.pickNode(t, "target")
	m := n.m
	ntx := rapid.IntRange(1, 2).Draw(t, "ntx")
	// (an arbitrating node sorts and filters the transactions of a block while it checks it; a signed block whose
	// transactions it would have to drop or reorder must be refused - see submit)
	txns := w.validTxnsFor(t, m, ntx)
	if len(txns) == 0 {
		t.Skip("no valid transaction can be built")
	}
	when := w.nextTime(t, m)
	kind := "header"
	if rapid.IntRange(0, 2).Draw(t, "bodymut") == 0 {
		kind = "body"
	}
	mut := "none"
	signer := publisherKey
	resign := true
	if kind == "body" {
		mut = rapid.SampledFrom(bodyMutations).Draw(t, "mutation")
		switch mut {
		case "drop_txn":
			// header keeps the body hash of the full list (hash mismatch) or is recomputed (then it is simply another valid block)
		case "dup_txn":
			txns = append(txns, txns[0])
		case "double_spend_in_block":
			// a second transaction spending the same first input with different outputs
			// The shared input is any input of the first transaction and sits at a drawn position among 0-2 other inputs
			// of the second one (shapes [X,A] / [A,Y], [A] / [B,A,C], ...): the duplicate-spend scan must compare all pairs
			p := w.buildTxn(t, m, "valid")
			if p != nil {
				shared := txns[0].In[rapid.IntRange(0, len(txns[0].In)-1).Draw(t, "sharedpos")]
				var ins []cipher.SHA256
				for _, in := range p.txn.In {
					dup := in == shared
					for _, x := range txns[0].In {
						if x == in {
							dup = true
						}
					}
					if !dup && len(ins) < 2 {
						ins = append(ins, in)
					}
				}
				at := rapid.IntRange(0, len(ins)).Draw(t, "sharedat")
				ins = append(ins[:at], append([]cipher.SHA256{shared}, ins[at:]...)...)
				var alt coin.Transaction
				var owners []gen.Key
				total := new(big.Int)
				ok := true
				for _, in := range ins {
					ux, found := m.Utxo[in]
					k, owned := keyByAddr[ux.Body.Address]
					if !found || !owned {
						ok = false
						break
					}
					owners = append(owners, k)
					total.Add(total, bu(ux.Body.Coins))
				}
				if ok && total.IsUint64() {
					alt.In = ins
					alt.Out = []coin.TransactionOutput{{Address: userKeys[3].Addr, Coins: total.Uint64(), Hours: 0}}
					signTxn(&alt, owners)
					if rapid.Bool().Draw(t, "altfirst") {
						txns = append([]coin.Transaction{alt}, txns...)
					} else {
						txns = append(txns, alt)
					}
				}
			}
		case "spend_created_in_block":
			h := txref.TxnHash(&txns[0])
			o := txns[0].Out[0]
			if k, ok := keyByAddr[o.Address]; ok {
				var c coin.Transaction
				c.In = []cipher.SHA256{txref.UxID(h, o.Address, o.Coins, o.Hours)}
				c.Out = []coin.TransactionOutput{{Address: userKeys[2].Addr, Coins: o.Coins, Hours: 0}}
				signTxn(&c, []gen.Key{k})
				txns = append(txns, c)
			}
		case "spend_spent":
			for id, sp := range m.Spent {
				if k, ok := keyByAddr[sp.Ux.Body.Address]; ok {
					var c coin.Transaction
					c.In = []cipher.SHA256{id}
					c.Out = []coin.TransactionOutput{{Address: userKeys[1].Addr, Coins: sp.Ux.Body.Coins, Hours: 0}}
					signTxn(&c, []gen.Key{k})
					txns = append(txns, c)
					break
				}
			}
		case "invalid_txn":
			p := w.buildTxn(t, m, rapid.SampledFrom([]string{"hard:create", "hard:destroy", "hard:hours", "hard:wrong_signer", "hard:dup_output", "hard:zero_coin", "hard:inner_hash", "hard:length", "hard:null_sig", "hard:unknown_input", "hard:dup_input"}).Draw(t, "badclass"))
			if p != nil {
				txns = append(txns, p.txn)
			}
		case "create_coins", "destroy_coins":
			// an otherwise perfect block (signed by the publisher, header consistent with the body) whose transaction -
			// properly signed by the owners of its inputs - pays out more or fewer coins than it spends
			i := rapid.IntRange(0, len(txns)-1).Draw(t, "which_txn")
			k := rapid.SampledFrom([]uint64{1, 1000, 1000000, 5000000}).Draw(t, "delta")
			o := rapid.IntRange(0, len(txns[i].Out)-1).Draw(t, "which_out")
			if mut == "create_coins" && txns[i].Out[o].Coins <= ^uint64(0)-k {
				txns[i].Out[o].Coins += k
			} else if mut == "destroy_coins" && txns[i].Out[o].Coins > k {
				txns[i].Out[o].Coins -= k
			}
			var owners []gen.Key
			for _, in := range txns[i].In {
				owners = append(owners, keyByAddr[m.Utxo[in].Body.Address])
			}
			signTxn(&txns[i], owners)
			w.stats["crafted_block_with_unbalanced_coins"]++
		case "wrap_coins":
			// as create_coins, but by 2^64: two extra outputs of 2^63 coins each (at drawn positions, to addresses that keep
			// every output of the transaction distinct), so that the 64-bit sum of the outputs wraps round to the balanced total
			i := rapid.IntRange(0, len(txns)-1).Draw(t, "which_txn")
			for x := 0; x < 2; x++ {
				at := rapid.IntRange(0, len(txns[i].Out)).Draw(t, "wrap_at")
				extra := coin.TransactionOutput{Address: userKeys[(x+1)%len(userKeys)].Addr, Coins: 1 << 63}
				txns[i].Out = append(txns[i].Out[:at], append([]coin.TransactionOutput{extra}, txns[i].Out[at:]...)...)
			}
			var owners []gen.Key
			for _, in := range txns[i].In {
				owners = append(owners, keyByAddr[m.Utxo[in].Body.Address])
			}
			signTxn(&txns[i], owners)
			w.stats["crafted_block_with_unbalanced_coins"]++
			w.stats["crafted_block_with_output_coins_wrapping_2^64"]++
		case "reorder":
			if len(txns) >= 2 {
				txns[0], txns[1] = txns[1], txns[0]
			}
		case "empty":
			txns = nil
		}
	}
	b := nextBlock(m, txns, when)
	if kind == "body" && mut == "drop_txn" && len(txns) >= 2 && rapid.Bool().Draw(t, "keephash") {
		b.Body.Transactions = txns[:1] // body hash still covers both
	}
	if kind == "header" {
		mut = rapid.SampledFrom(headerMutations).Draw(t, "mutation")
		head := m.Head().Head
		switch mut {
		case "version":
			b.Head.Version = head.Version + 1 + uint32(rapid.IntRange(0, 3).Draw(t, "v"))
		case "time_le_head":
			if head.Time > 0 {
				b.Head.Time = rapid.Uint64Range(0, head.Time-1).Draw(t, "time")
			} else {
				b.Head.Time = 0
			}
		case "time_eq_head":
			b.Head.Time = head.Time
		case "seq_same":
			b.Head.BkSeq = head.BkSeq
		case "seq_plus2":
			b.Head.BkSeq = head.BkSeq + 2
		case "seq_zero":
			b.Head.BkSeq = 0
		case "seq_max":
			b.Head.BkSeq = ^uint64(0)
		case "fee":
			b.Head.Fee += 1 + rapid.Uint64Range(0, 1000).Draw(t, "fee")
		case "prev_random":
			b.Head.PrevHash = gen.NonNullSHA(t, "prev")
		case "prev_zero":
			b.Head.PrevHash = cipher.SHA256{}
		case "prev_grandparent":
			if len(m.Blocks) >= 2 {
				b.Head.PrevHash = txref.HeaderHash(m.Blocks[len(m.Blocks)-2].Head)
			} else {
				b.Head.PrevHash = cipher.SHA256{}
			}
		case "bodyhash":
			b.Head.BodyHash[rapid.IntRange(0, 31).Draw(t, "byte")] ^= 1
		case "uxhash":
			b.Head.UxHash[rapid.IntRange(0, 31).Draw(t, "byte")] ^= 1
		case "uxhash_zero": // the value the genesis block carries
			b.Head.UxHash = cipher.SHA256{}
		case "uxhash_of_parent":
			b.Head.UxHash = head.UxHash
		case "uxhash_random":
			b.Head.UxHash = gen.NonNullSHA(t, "ux")
		case "bodyhash_zero":
			b.Head.BodyHash = cipher.SHA256{}
		case "other_key":
			signer = otherKey
		case "unsigned":
			resign = false
		case "genesis_again":
			sb := m.Blocks[0]
			w.stats["mut:"+mut]++
			w.submit(t, n, sb, "crafted:genesis_again")
			return
		}
	}
	var sb coin.SignedBlock
	if resign {
		sb = signBlock(b, signer)
	} else {
		sb = coin.SignedBlock{Block: b}
	}
	if mut == "sig_flip" {
		sb.Sig[rapid.IntRange(0, 64).Draw(t, "sigbyte")] ^= byte(1 << uint(rapid.IntRange(0, 7).Draw(t, "sigbit")))
	}
	w.stats["mut:"+mut]++
	if mut == "none" {
		w.prePool(t, n, sb.Body.Transactions)
	}
	if resign && signer == publisherKey && mut != "none" && mut != "sig_flip" {
		w.stats["resigned_mutation"]++
	}
	w.submit(t, n, sb, "crafted:"+mut)
}

// ---------------------------------------------------------------------------
// pool maintenance and restart

func (w *world) actRefresh(t *rapid.T) {
	n := w.pickNode(t, "node")
	before := map[cipher.SHA256]bool{}
	for h, e := range n.m.Pool {
		before[h] = e.Valid
	}
	n.m.Refresh()
	var nowValid []cipher.SHA256
	var err error
	if p := call(func() { nowValid, err = n.v.RefreshUnconfirmed() }); p != nil {
		t.Fatalf("RefreshUnconfirmed panicked: %v\n history:\n  %s", p, w.history())
	}
	if err != nil {
		t.Fatalf("RefreshUnconfirmed: %v", err)
	}
	want := 0
	for h, e := range n.m.Pool {
		if e.Valid && !before[h] {
			want++
		}
		if e.Valid != before[h] {
			w.stats["pool_validity_changed"]++
		}
	}
	w.logf("%s.Refresh -> %d became valid [model %d]", n.name, len(nowValid), want)
	if len(nowValid) != want {
		t.Fatalf("%s: RefreshUnconfirmed reports %d newly valid, model %d\n history:\n  %s", n.name, len(nowValid), want, w.history())
	}
	w.checkNode(t, n, "refresh")
}

func (w *world) actRemoveInvalid(t *rapid.T) {
	n := w.pickNode(t, "node")
	wantRemoved := n.m.RemoveInvalid()
	var removed []cipher.SHA256
	var err error
	if p := call(func() { removed, err = n.v.RemoveInvalidUnconfirmed() }); p != nil {
		t.Fatalf("RemoveInvalidUnconfirmed panicked: %v\n history:\n  %s", p, w.history())
	}
	if err != nil {
		t.Fatalf("RemoveInvalidUnconfirmed: %v", err)
	}
	w.logf("%s.RemoveInvalid -> %d removed [model %d]", n.name, len(removed), len(wantRemoved))
	if len(removed) != len(wantRemoved) {
		t.Fatalf("%s: RemoveInvalidUnconfirmed removed %d, model %d\n history:\n  %s", n.name, len(removed), len(wantRemoved), w.history())
	}
	if len(removed) > 0 {
		w.stats["removed_invalid"] += len(removed)
	}
	// afterwards no pooled transaction violates a hard rule
	for h, e := range n.m.Pool {
		if ok, why := n.m.HardSingle(&e.Txn); !ok {
			t.Fatalf("harness: model pool still holds hard-invalid %s (%s)", shortHash(h), why)
		}
	}
	w.checkNode(t, n, "remove-invalid")
}

func (w *world) actRestart(t *rapid.T) {
	n := w.pickNode(t, "node")
	n.close()
	n.open(t)
	w.logf("%s.Restart", n.name)
	w.stats["restart"]++
	// documented: Init removes hard-invalid transactions from the pool
	n.m.RemoveInvalid()
	w.checkNode(t, n, "restart")
}

// checkDatabase runs the node's own integrity verification on every node (end of history).
func (w *world) checkDatabases(t *rapid.T) {
	for _, n := range w.nodes {
		var err error
		if p := call(func() { err = visor.CheckDatabase(n.db, publisherKey.Pub, nil) }); p != nil {
			t.Fatalf("%s: CheckDatabase panicked: %v", n.name, p)
		}
		if err != nil {
			t.Fatalf("%s: CheckDatabase fails at the end of the history: %v\n history:\n  %s", n.name, err, w.history())
		}
	}
}

var _ = ref.New

// checkHours is the explicit C03 oracle for a block that is being accepted: for every transaction the
// output hours must not exceed the hours its inputs have accrued at the previous block's time
// (an input whose accrued total does not fit 64 bits counts as zero: the documented legacy exception).
func (w *world) checkHours(t *rapid.T, n *node, sb coin.SignedBlock) {
	prevTime := n.m.Head().Head.Time
	for i := range sb.Body.Transactions {
		txn := &sb.Body.Transactions[i]
		in := new(big.Int)
		accrual := false
		for _, id := range txn.In {
			ux, ok := n.m.Utxo[id]
			if !ok {
				t.Fatalf("%s accepted a block spending %s which is not unspent\n history:\n  %s", n.name, shortHash(id), w.history())
			}
			v, c := rules.Accrued(ux, prevTime)
			switch c {
			case rules.AccrueOK:
				in.Add(in, v)
				if v.Cmp(bu(ux.Body.Hours)) > 0 {
					accrual = true
				}
			case rules.AccrueFinalOverflow:
				w.stats["legacy_overflow_input_counted_zero"]++
			default:
				t.Fatalf("%s accepted a transaction whose input hour calculation overflows\n history:\n  %s", n.name, w.history())
			}
		}
		out := new(big.Int)
		for _, o := range txn.Out {
			out.Add(out, bu(o.Hours))
		}
		if out.Cmp(two64) >= 0 {
			w.stats["legacy_wrap_blocks"]++ // not generated; counted if it ever happens
			continue
		}
		if out.Cmp(in) > 0 {
			t.Fatalf("%s accepted transaction %s creating coin hours: outputs %s > inputs accrued %s at time %d\n history:\n  %s", n.name, shortHash(txref.TxnHash(txn)), out, in, prevTime, w.history())
		}
		w.stats["hours_checked_txns"]++
		if accrual {
			w.stats["hours_with_accrual"]++
		}
	}
}

func hashesHex(hs []cipher.SHA256) []string {
	out := make([]string, len(hs))
	for i := range hs {
		out[i] = shortHash(hs[i])
	}
	return out
}

func sortedPoolHashes(m *ref.Model) []cipher.SHA256 {
	hs := make([]cipher.SHA256, 0, len(m.Pool))
	for h := range m.Pool {
		hs = append(hs, h)
	}
	sort.Slice(hs, func(i, j int) bool { return bytes.Compare(hs[i][:], hs[j][:]) < 0 })
	return hs
}
