package ledger

import (
	"fmt"
	"testing"

	"pgregory.net/rapid"

	"github.com/skycoin/skycoin/src/coin"
	"github.com/skycoin/skycoin/src/transaction"

	"verif/harness/internal/ev"
	"verif/harness/internal/gen"
	"verif/harness/internal/hx"
	"verif/harness/internal/ref/rules"
	"verif/harness/internal/ref/txref"
)

// injectForeignChecked injects txn into dst as a network transaction and compares the verdict with the model.
func (w *world) injectForeignChecked(t *rapid.T, dst *node, txn coin.Transaction, class string) bool {
	admitted, _, softOK, why := dst.m.InjectForeign(txn)
	var softErr *transaction.ErrTxnViolatesSoftConstraint
	var err error
	if p := call(func() { _, softErr, err = dst.v.InjectForeignTransaction(txn) }); p != nil {
		t.Fatalf("InjectForeignTransaction panicked: %v\n history:\n  %s", p, w.history())
	}
	w.logf("%s.InjectForeign(%s %s) -> soft=%v err=%v [model admitted=%v softOK=%v %s]", dst.name, shortHash(txref.TxnHash(&txn)), class, softErr != nil, err, admitted, softOK, why)
	if admitted != (err == nil) {
		t.Fatalf("%s: InjectForeignTransaction err=%v but model says admitted=%v (%s)\n history:\n  %s", dst.name, err, admitted, why, w.history())
	}
	if admitted && softOK != (softErr == nil) {
		t.Fatalf("%s: InjectForeignTransaction soft violation=%v, model softOK=%v (%s)\n history:\n  %s", dst.name, softErr, softOK, why, w.history())
	}
	return admitted
}

// TestC05_TiedPools: large pools (13-45 candidates) in which many transactions have exactly the same fee per kilobyte
// (same size, same burnt hours), some of them conflicting pairs, some with higher or lower fees, and block size limits
// that cut inside a run of ties.  The publisher's block must be the reference selection (fee/KB descending, ties by
// ascending hash, first of each conflict class, size limit) - the same oracle as the state machine, on pools the
// random histories rarely reach.
func TestC05_TiedPools(t *testing.T) {
	r := ev.Get("C05")
	r.Rule("tied pools: the genesis output is fanned out into 13-45 outputs with equal hours in one block; one or two (conflicting) single-input single-output spends per output are injected with the burnt hours drawn from 3 values, so that most candidates tie exactly on fee per kilobyte; block size limit in {2048, 3000, 5000, 34816}; the publisher's block is compared with the reference selection and must be acceptable to an independent node model; non-trivial = at least 13 eligible candidates with at least one tie group of 3 or more and one conflicting pair")
	hx.Check(t, "C05", 12, 800, func(t *rapid.T) {
		cfg := genWorldCfg(t)
		cfg.genesisVolume = 100e12
		cfg.genesisTime = 1000
		cfg.unconfirmed.MaxTransactionSize, cfg.createBlock.MaxTransactionSize = 2048, 2048
		cfg.unconfirmed.MaxDropletPrecision, cfg.createBlock.MaxDropletPrecision = 3, 3
		cfg.maxBlockSize = rapid.SampledFrom([]uint32{2048, 3000, 5000, 34816}).Draw(t, "blocklimit")
		cfg.followers = 1
		w := newWorld(t, cfg)
		defer w.destroy()
		pub := w.nodes[0]
		g := pub.m.SortedUtxo()
		if len(g) != 1 {
			t.Fatalf("expected the genesis output only")
		}
		k := rapid.IntRange(13, 45).Draw(t, "fanout")
		dests := append(append([]gen.Key{}, userKeys...), distKeys[0])
		hoursIn, c := rules.Accrued(g[0], pub.m.Head().Head.Time)
		if c != rules.AccrueOK {
			t.Fatalf("genesis hours: %s", c)
		}
		per := hoursIn.Uint64() / 2 / uint64(k)
		var fan coin.Transaction
		fan.In = append(fan.In, txref.UxBodyID(g[0].Body))
		rem := g[0].Body.Coins
		for i := 0; i < k; i++ {
			amt := uint64(1000e6) + uint64(i/len(dests))*1e6
			if i == k-1 {
				amt = rem
			}
			rem -= amt
			fan.Out = append(fan.Out, coin.TransactionOutput{Address: dests[i%len(dests)].Addr, Coins: amt, Hours: per})
		}
		signTxn(&fan, []gen.Key{genesisKey})
		if !w.injectForeignChecked(t, pub, fan, "fanout") {
			t.Fatalf("fan-out transaction was not admitted\n history:\n  %s", w.history())
		}
		w.actPublish(t)
		if pub.m.Head().Head.BkSeq != 1 {
			t.Skip("fan-out block was not created (drawn block time not after the head)")
		}
		// candidates
		burn := uint64(cfg.createBlock.BurnFactor)
		if b := uint64(cfg.unconfirmed.BurnFactor); b > burn {
			burn = b
		}
		req := (per + burn - 1) / burn
		fees := []uint64{req, req, req, req + 7, per / 2}
		conflicts, n := 0, 0
		for _, ux := range pub.m.SortedUtxo() {
			if ux.Body.SrcTransaction != txref.TxnHash(&fan) {
				continue
			}
			owner, ok := keyByAddr[ux.Body.Address]
			if !ok {
				continue
			}
			variants := 1
			if rapid.IntRange(0, 3).Draw(t, "conflict") == 0 {
				variants = 2
			}
			fee := rapid.SampledFrom(fees).Draw(t, "fee")
			for v := 0; v < variants; v++ {
				var txn coin.Transaction
				txn.In = append(txn.In, txref.UxBodyID(ux.Body))
				txn.Out = append(txn.Out, coin.TransactionOutput{Address: dests[(n+v+1)%len(dests)].Addr, Coins: ux.Body.Coins, Hours: per - fee})
				signTxn(&txn, []gen.Key{owner})
				if w.injectForeignChecked(t, pub, txn, fmt.Sprintf("tied fee=%d", fee)) {
					n++
				}
			}
			if variants == 2 {
				conflicts++
			}
		}
		w.checkNode(t, pub, "tied injections")
		ordered, chosen := expectedBlockTxns(pub.m)
		// largest tie group among the eligible candidates
		groups := map[uint64]int{}
		maxTie := 0
		for i := range ordered {
			f := feePerKB(pub.m, &ordered[i])
			groups[f]++
			if groups[f] > maxTie {
				maxTie = groups[f]
			}
		}
		before := pub.m.Head().Head.BkSeq
		w.actPublish(t) // compares the block with the reference selection, executes it, checks an independent node model accepts it
		published := pub.m.Head().Head.BkSeq > before
		if published {
			w.actDeliverAll(t)
		}
		w.checkAll(t, "tied pool")
		nt := published && len(ordered) >= 13 && maxTie >= 3 && conflicts >= 1
		r.CaseS(nt, w.history())
		r.Count("tied_pools")
		if published {
			r.Count("tied_pools_published")
		}
		r.CountN("tied_candidates", int64(len(ordered)))
		r.CountN("tied_chosen", int64(len(chosen)))
		if len(chosen) < len(ordered)-conflicts {
			r.Count("tied_pools_cut_by_size")
		}
		if r.WantSample(nt) {
			r.Sample(nt, map[string]interface{}{"fanout": k, "candidates": len(ordered), "largest_tie_group": maxTie, "conflicting_pairs": conflicts, "block_limit": cfg.maxBlockSize, "chosen": len(chosen)})
		}
	})
}

// actDeliverAll hands every published block the followers do not have yet to them, in order.
func (w *world) actDeliverAll(t *rapid.T) {
	for _, f := range w.nodes[1:] {
		for int(f.m.Head().Head.BkSeq)+1 < len(w.published) {
			i := int(f.m.Head().Head.BkSeq) + 1
			w.submit(t, f, w.published[i], fmt.Sprintf("published[%d]", i))
			if int(f.m.Head().Head.BkSeq) != i {
				t.Fatalf("%s did not accept published block %d\n history:\n  %s", f.name, i, w.history())
			}
		}
	}
}
