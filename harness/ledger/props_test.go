package ledger

import (
	"fmt"
	"strings"
	"testing"

	"pgregory.net/rapid"

	"github.com/skycoin/skycoin/src/coin"

	"verif/harness/internal/ev"
	"verif/harness/internal/hx"
	"verif/harness/internal/ref/rules"
)

const ruleLedger = "rapid state machine over 1 publisher node (arbitrating) and 1-2 follower nodes (real visor.Visor on real bolt files) with 7 key pairs, genesis volume in {1e9, 1e14, 2^63, 2^64-1000, 2^64-1}, generated verification parameters and block size limits; actions: build a spend from a node's unspent set (1-3 inputs, 1-4 outputs, amounts at 3-decimal precision, hours at the burn boundary) in one of 25 classes (valid, 5 soft-invalid, 13 hard-invalid incl. unknown/spent/duplicate input, coin creation/destruction by 1, hour creation by 1, wrong signer, bad inner hash/length, output-hour overflow), inject it (foreign or user, also re-injection) into any node, publisher assembles a block at head+{1,10,3600,1e6,2^40}, deliver published blocks in order / duplicated / skipping, craft and sign a next block for any node with one of 24 header mutations (incl. an unspent-set hash that is flipped, zero, the parent's or random, and a zero body hash) or 11 body mutations (coins created or destroyed by a delta or by exactly 2^64 so that the 64-bit output sum wraps, double spend in block, spend of an output created in the block, spend of a spent output, invalid transaction, duplicate, reorder, dropped, empty), refresh, remove-invalid, restart; after every action the touched node's chain, stored headers+signatures, full unspent set, coin sum, metadata and pool (incl. validity flags) are compared with the reference model, and accept/reject of every injection and block must equal the model's prediction; "

type focus struct {
	prop    string
	weights map[string]int
	nt      func(w *world) bool
	ntRule  string
}

func runHistory(t *rapid.T, f focus) *world {
	w := newWorld(t, genWorldCfg(t))
	defer w.destroy()
	if f.prop == "C03" {
		// the histories of the coin-hour property draw the hour-related transaction classes more often
		w.moreClasses = []string{"hard:hours", "hard:hours_overflow", "hard:hours_overflow", "hard:hours_overflow", "soft:nofee", "soft:lowfee"}
	}
	acts := map[string]func(*rapid.T){}
	add := func(name string, fn func(*rapid.T)) {
		n := f.weights[name]
		for i := 0; i < n; i++ {
			acts[fmt.Sprintf("%s%d", name, i)] = fn
		}
	}
	add("inject", w.actInject)
	add("publish", w.actPublish)
	add("deliver", w.actDeliver)
	add("craft", w.actCraft)
	add("refresh", w.actRefresh)
	add("remove_invalid", w.actRemoveInvalid)
	add("restart", w.actRestart)
	if f.weights["views"] > 0 {
		add("views", w.actViews)
		add("rebuild", w.actRebuild)
	}
	t.Repeat(acts)
	w.checkAll(t, "end of history")
	w.checkDatabases(t)
	if f.weights["views"] > 0 {
		for _, n := range w.nodes {
			w.checkViews(t, n, "end of history")
		}
	}
	r := ev.Get(f.prop)
	nt := f.nt(w)
	for k, v := range w.stats {
		if !strings.HasPrefix(k, "rejected:") {
			r.CountN(k, int64(v))
		}
	}
	r.CaseS(nt, w.history())
	if r.WantSample(nt) && len(w.hist) <= 45 {
		r.Sample(nt, map[string]interface{}{"genesis_volume": w.cfg.genesisVolume, "followers": w.cfg.followers, "max_block_size": w.cfg.maxBlockSize, "actions": w.hist})
	}
	return w
}

var baseWeights = map[string]int{"inject": 6, "publish": 3, "deliver": 3, "craft": 3, "refresh": 1, "remove_invalid": 1, "restart": 1}

func weights(over map[string]int) map[string]int {
	out := map[string]int{}
	for k, v := range baseWeights {
		out[k] = v
	}
	for k, v := range over {
		out[k] = v
	}
	return out
}

func ledgerTest(t *testing.T, f focus, quick, thorough int) {
	r := ev.Get(f.prop)
	r.Rule(ruleLedger + "non-trivial = " + f.ntRule + "; distinct by the action log")
	r.Assume("reference model: harness/internal/ref/ledger on top of ref/rules, ref/txref and the textbook curve; block-level output-hour wrap (documented legacy) is not generated")
	hx.Check(t, f.prop, quick, thorough, func(t *rapid.T) { runHistory(t, f) })
}

func TestC01_CoinConservation(t *testing.T) {
	ledgerTest(t, focus{prop: "C01", weights: weights(nil),
		nt: func(w *world) bool {
			return w.stats["accepted_multi"] >= 1 && w.stats["block_rejected"]+w.stats["inject_foreign_rejected"]+w.stats["inject_user_rejected"] >= 1
		},
		ntRule: "the history has an accepted multi-transaction or multi-input block and at least one rejected block or injection"}, 40, 1500)
}

func TestC02_UnspentSet(t *testing.T) {
	ledgerTest(t, focus{prop: "C02", weights: weights(map[string]int{"craft": 6}),
		nt: func(w *world) bool {
			kinds := 0
			for _, k := range []string{"rejected:double spend inside the block", "rejected:input not unspent", "rejected:duplicate output across transactions"} {
				if w.stats[k] > 0 {
					kinds++
				}
			}
			return w.stats["block_accepted"] >= 2 && kinds >= 1
		},
		ntRule: "at least two accepted blocks and a rejected double-spend attempt (inside a block, of a spent / not-yet-existing output, or a duplicate output)"}, 40, 1500)
}

func TestC04_BlockAcceptance(t *testing.T) {
	ledgerTest(t, focus{prop: "C04", weights: weights(map[string]int{"craft": 8, "inject": 4}),
		nt:     func(w *world) bool { return w.stats["resigned_mutation"] >= 1 && w.stats["block_accepted"] >= 1 },
		ntRule: "a mutated block that was re-signed with the publisher key (so only the structural rule can reject it) was submitted after at least one accepted block"}, 60, 2500)
}

func TestC05_PublisherBlocks(t *testing.T) {
	ledgerTest(t, focus{prop: "C05", weights: weights(map[string]int{"inject": 14, "publish": 4, "craft": 1, "deliver": 1}),
		nt: func(w *world) bool {
			return w.stats["published"] >= 1 && (w.stats["published_with_leftover_pool"] >= 1 || w.stats["published_multi_txn"] >= 1)
		},
		ntRule: "the publisher assembled a block from a pool that held more than it could or should include (conflicting, invalid or oversize entries) or a multi-transaction block"}, 40, 1500)
}

func TestC06_UnconfirmedPool(t *testing.T) {
	ledgerTest(t, focus{prop: "C06", weights: weights(map[string]int{"inject": 10, "refresh": 3, "remove_invalid": 3}),
		nt:     func(w *world) bool { return w.stats["pool_validity_changed"]+w.stats["removed_invalid"] >= 1 },
		ntRule: "a pooled transaction changed its validity class (flag flipped on refresh, or removed as hard-invalid)"}, 40, 1500)
}

func TestC07_Views(t *testing.T) {
	ledgerTest(t, focus{prop: "C07", weights: weights(map[string]int{"views": 4, "rebuild": 2, "inject": 8, "publish": 4, "deliver": 4}),
		nt: func(w *world) bool {
			return w.stats["views_checked"] >= 3 && w.stats["block_accepted"]+w.stats["published"] >= 2 && w.stats["inject_foreign_admitted"]+w.stats["inject_user_admitted"] >= 1
		},
		ntRule: "views were compared at least three times in a history with at least two accepted blocks (addresses that received and spent) and a pending transaction; after every view action: per-address unspents, address count, history record of every output ever created (incl. spending block and transaction), confirmed transactions by hash and per address, transaction count, confirmed/predicted balances, block range queries; the rebuild action erases the index/history progress markers, restarts and compares everything again"}, 30, 1200)
}

func TestC03_CoinHours(t *testing.T) {
	ledgerTest(t, focus{prop: "C03", weights: weights(map[string]int{"inject": 8, "publish": 4, "craft": 4}),
		nt:     func(w *world) bool { return w.stats["hours_checked_txns"] >= 2 && w.stats["hours_with_accrual"] >= 1 },
		ntRule: "at least two transactions were accepted into blocks and checked against the exact accrued input hours (math/big, at the previous block's time), at least one of them with inputs that earned hours since their creation"}, 40, 1500)
}

// TestC03_Accrual: UxOut.CoinHours equals the exact formula and never decreases with time.
func TestC03_Accrual(t *testing.T) {
	r := ev.Get("C03")
	hx.Check(t, "C03", 8000, 500000, func(t *rapid.T) {
		coins := rapid.OneOf(rapid.Uint64Range(0, 1e14), rapid.Uint64()).Draw(t, "coins")
		hours := rapid.OneOf(rapid.Uint64Range(0, 1e12), rapid.Uint64()).Draw(t, "hours")
		t0 := rapid.Uint64Range(0, 1<<34).Draw(t, "t0")
		d1 := rapid.OneOf(rapid.Uint64Range(0, 1<<34), rapid.Uint64Range(0, 1<<62)).Draw(t, "d1")
		d2 := rapid.OneOf(rapid.Uint64Range(0, 1<<34), rapid.Uint64Range(0, 1<<62)).Draw(t, "d2")
		if rapid.IntRange(0, 2).Draw(t, "aimed") == 0 {
			// aimed at the region where whole-coin seconds and droplet seconds each fit 64 bits but their sum is
			// around 2^64: whole coins ~ 2^64/dt with a non-zero droplet remainder
			d1 = rapid.Uint64Range(1, 1<<44).Draw(t, "adt")
			w := ^uint64(0)/d1 + rapid.Uint64Range(0, 2).Draw(t, "wu") - rapid.Uint64Range(0, 2).Draw(t, "wd")
			if w > ^uint64(0)/1000000-1 {
				w = ^uint64(0)/1000000 - 1
			}
			coins = w*1000000 + rapid.OneOf(rapid.Just(uint64(999999)), rapid.Uint64Range(1, 999999)).Draw(t, "frac")
			hours = rapid.OneOf(rapid.Just(uint64(0)), rapid.Uint64Range(0, 1e12)).Draw(t, "ahours")
			d2 = rapid.Uint64Range(0, 3).Draw(t, "ad2")
			if rapid.Bool().Draw(t, "stepback") && d1 > 3 {
				d1 -= 3 // t1 just before the wrap, t2 at or after it
			}
		}
		ux := coin.UxOut{Head: coin.UxHead{Time: t0}, Body: coin.UxBody{Coins: coins, Hours: hours}}
		t1 := t0 + d1
		t2 := t1 + d2
		v1, e1 := ux.CoinHours(t1)
		v2, e2 := ux.CoinHours(t2)
		w1, c1 := rules.Accrued(ux, t1)
		w2, c2 := rules.Accrued(ux, t2)
		if (c1 == rules.AccrueOK) != (e1 == nil) || (c2 == rules.AccrueOK) != (e2 == nil) {
			t.Fatalf("CoinHours(coins=%d hours=%d dt=%d/%d): errors %v %v, reference classes %s %s", coins, hours, d1, d1+d2, e1, e2, c1, c2)
		}
		if e1 == nil && bu(v1).Cmp(w1) != 0 || e2 == nil && bu(v2).Cmp(w2) != 0 {
			t.Fatalf("CoinHours(coins=%d hours=%d): got %d,%d want %s,%s", coins, hours, v1, v2, w1, w2)
		}
		if e1 == nil && e2 == nil && v2 < v1 {
			t.Fatalf("accrued hours decreased: %d at t+%d, %d at t+%d", v1, d1, v2, d1+d2)
		}
		if e1 != nil && e2 == nil {
			t.Fatalf("overflow at t+%d but none later at t+%d", d1, d1+d2)
		}
		r.CaseS(d1 > 0 && coins >= 1000000, fmt.Sprintf("acc/%d/%d/%d/%d/%d", coins, hours, t0, d1, d2))
	})
}
