package ledger

import (
	"fmt"
	"sort"
	"testing"

	"pgregory.net/rapid"

	"github.com/skycoin/skycoin/src/coin"
	"github.com/skycoin/skycoin/src/daemon"

	"verif/harness/internal/ev"
	"verif/harness/internal/hx"
	"verif/harness/internal/ref/txref"
)

const ruleC33 = "a publisher chain of 3-10 blocks (built by injecting valid spends and publishing at generated times) and a delivery plan of 2-14 GiveBlocks messages for a fresh receiving node (an ordinary follower, or 1 in 3 a node in publisher mode on the same chain): each message carries 1-5 blocks in ascending order taken from the publisher chain with generated gaps, overlaps, duplicates of earlier messages and omissions, the message order is a generated permutation, and forged blocks are interleaved (unsigned, signed by another key, publisher-signed fork from an earlier head, re-signed header mutation by another key, body swapped under a genuine header); messages are processed by the real GiveBlocksMessage.process on a recording daemon over a real visor; afterwards an honest peer answers the follower's recorded GetBlocks requests from the set of blocks that were given; oracle: after every message the follower's chain equals the sequential reference model and is a prefix of the publisher's chain block for block, every stored block verifies under the publisher key, whenever blocks were added an AnnounceBlocks(head) and a GetBlocks(head, n) were emitted, and after the honest answers the follower holds exactly the longest gap-free prefix of the given blocks; finally announcements of blocks 0, head, head+1, head+2, head+k and 2^64-1 arrive: a request for the blocks after the head is sent exactly when the announced block is above the head; non-trivial = the plan delivers out of order across messages or contains a forged block, and the follower ends above genesis; distinct by plan"

func TestC33_Sync(t *testing.T) {
	r := ev.Get("C33")
	r.Rule(ruleC33)
	r.Assume("blocks inside one peer message are in ascending order (as getSignedBlocksSince produces them); the network layer is replaced by the recording daemon hook")
	hx.Check(t, "C33", 40, 2500, func(t *rapid.T) {
		cfg := genWorldCfg(t)
		cfg.followers = 1
		w := newWorld(t, cfg)
		defer w.destroy()
		pub, fol := w.nodes[0], w.nodes[1]
		// the receiving node is an ordinary follower or (1 in 3) a node running in publisher mode on the same chain
		// (a second or restarted publisher instance): it must be just as strict about whose blocks it appends
		recvPublisherMode := rapid.IntRange(0, 2).Draw(t, "recvmode") == 0
		if recvPublisherMode {
			fol.close()
			fol.cfg.IsBlockPublisher, fol.cfg.Arbitrating, fol.cfg.BlockchainSeckey = true, true, publisherKey.Sec
			fol.publisher = true
			fol.open(t)
			r.Count("receiver_in_publisher_mode")
		}
		// --- build the publisher chain
		want := rapid.IntRange(3, 10).Draw(t, "chainlen")
		for tries := 0; len(w.published)-1 < want && tries < want*6; tries++ {
			p := w.buildTxn(t, pub.m, "valid")
			if p == nil {
				break
			}
			if admitted, _, _ := pub.m.InjectUser(p.txn); admitted {
				if _, _, _, err := pub.v.InjectUserTransaction(p.txn); err != nil {
					t.Fatalf("publisher rejects a transaction the model admits: %v", err)
				}
			} else if admitted, _, _, _ := pub.m.InjectForeign(p.txn); admitted {
				if _, _, err := pub.v.InjectForeignTransaction(p.txn); err != nil {
					t.Fatalf("publisher rejects a transaction the model admits: %v", err)
				}
			} else {
				continue
			}
			if len(pub.m.Pool) > 0 && rapid.IntRange(0, 2).Draw(t, "pubnow") != 0 {
				w.actPublish(t) // the pool is not empty, so this never skips
			}
		}
		chain := w.published // chain[0] = genesis
		if len(chain) < 3 {
			t.Skip("could not build a chain")
		}
		n := len(chain) - 1
		// --- delivery plan
		type msg struct {
			blocks []coin.SignedBlock
			desc   []string
		}
		forge := func(kind string, seq int) (coin.SignedBlock, string) {
			base := chain[seq]
			switch kind {
			case "unsigned":
				base.Sig = [65]byte{}
			case "other_key":
				base = signBlock(base.Block, otherKey)
			case "fork":
				// publisher-signed block that extends an earlier head (a fork): valid signature, wrong parent for anyone past that point
				b := base.Block
				b.Head.Time += 7
				if seq >= 2 {
					b.Head.PrevHash = txref.HeaderHash(chain[seq-2].Head)
				} else {
					b.Head.PrevHash = txref.HeaderHash(chain[len(chain)-1].Head)
				}
				base = signBlock(b, publisherKey)
			case "mutated_resigned":
				b := base.Block
				b.Head.Fee++
				base = signBlock(b, otherKey)
			case "body_swap":
				other := chain[1+(seq%n)]
				if txref.BodyHash(other.Body.Transactions) != txref.BodyHash(base.Body.Transactions) {
					base.Body = other.Body
				} else {
					base.Sig[3] ^= 1
				}
			}
			return base, fmt.Sprintf("%s(%d)", kind, seq)
		}
		nMsgs := rapid.IntRange(2, 14).Draw(t, "nmsgs")
		var plan []msg
		given := map[int]bool{}
		forged := false
		for i := 0; i < nMsgs; i++ {
			start := rapid.IntRange(1, n).Draw(t, "start")
			cnt := rapid.IntRange(1, 5).Draw(t, "count")
			var m msg
			for s := start; s <= n && len(m.blocks) < cnt; s++ {
				if rapid.IntRange(0, 5).Draw(t, "omit") == 0 {
					continue // a gap inside the message
				}
				if rapid.IntRange(0, 6).Draw(t, "forge") == 0 {
					b, d := forge(rapid.SampledFrom([]string{"unsigned", "other_key", "fork", "mutated_resigned", "body_swap"}).Draw(t, "kind"), s)
					m.blocks = append(m.blocks, b)
					m.desc = append(m.desc, d)
					forged = true
					continue
				}
				m.blocks = append(m.blocks, chain[s])
				m.desc = append(m.desc, fmt.Sprint(s))
				given[s] = true
			}
			if len(m.blocks) > 0 {
				plan = append(plan, m)
			}
		}
		if len(plan) == 0 {
			t.Skip("empty plan")
		}
		// --- run
		dc := daemon.DaemonConfig{GetBlocksRequestCount: uint64(rapid.IntRange(1, 20).Draw(t, "reqcount")), MaxOutgoingMessageLength: 256 * 1024}
		d := daemon.NewVerifDaemon(fol.v, dc)
		var log []string
		outOfOrder := false
		lastStart := 0
		checkFollower := func(after string) {
			seq, _, err := fol.v.HeadBkSeq()
			if err != nil {
				t.Fatal(err)
			}
			if seq != fol.m.Head().Head.BkSeq {
				t.Fatalf("after %s the follower's head is %d, the sequential model says %d\n plan: %v", after, seq, fol.m.Head().Head.BkSeq, log)
			}
			if int(seq) > n {
				t.Fatalf("follower is ahead of the publisher")
			}
			for i := uint64(0); i <= seq; i++ {
				sb, err := fol.v.GetSignedBlockBySeq(i)
				if err != nil || sb == nil {
					t.Fatalf("follower lacks block %d: %v", i, err)
				}
				if txref.HeaderHash(sb.Head) != txref.HeaderHash(chain[i].Head) || sb.Sig != chain[i].Sig || txref.BodyHash(sb.Body.Transactions) != txref.BodyHash(chain[i].Body.Transactions) {
					t.Fatalf("after %s the follower's block %d is not the publisher's block\n plan: %v", after, i, log)
				}
				if err := sb.VerifySignature(publisherKey.Pub); err != nil {
					t.Fatalf("follower holds block %d that does not verify under the publisher key: %v", i, err)
				}
			}
		}
		deliver := func(blocks []coin.SignedBlock, desc string) {
			log = append(log, desc)
			before := fol.m.Head().Head.BkSeq
			// sequential reference: skip seq <= head at message start, stop at the first block that is not acceptable
			for i := range blocks {
				if blocks[i].Head.BkSeq <= before {
					continue
				}
				if ok, _ := w.expectAccept(fol, &blocks[i]); !ok {
					break
				}
				fol.m.Apply(blocks[i])
			}
			sentBefore := len(d.Sent)
			gm := &daemon.GiveBlocksMessage{Blocks: blocks}
			if p := call(func() { daemon.VerifProcess(d, gm, "10.1.1.1:6000", 1) }); p != nil {
				t.Fatalf("GiveBlocksMessage.process panicked: %v\n plan: %v", p, log)
			}
			checkFollower(desc)
			after := fol.m.Head().Head.BkSeq
			newSent := d.Sent[sentBefore:]
			if after > before {
				var ann, get bool
				for _, s := range newSent {
					switch x := s.Msg.(type) {
					case *daemon.AnnounceBlocksMessage:
						if x.MaxBkSeq == after {
							ann = true
						}
					case *daemon.GetBlocksMessage:
						if x.LastBlock == after && x.RequestedBlocks == dc.GetBlocksRequestCount {
							get = true
						}
					}
				}
				if !ann || !get {
					t.Fatalf("head advanced %d -> %d but the follower did not announce it and request more (announce=%v request=%v)\n plan: %v", before, after, ann, get, log)
				}
			}
		}
		order := rapid.Permutation(intsTo(len(plan))).Draw(t, "order")
		for _, i := range order {
			m := plan[i]
			first := int(m.blocks[0].Head.BkSeq)
			if first < lastStart {
				outOfOrder = true
			}
			lastStart = first
			deliver(m.blocks, fmt.Sprintf("msg%v", m.desc))
		}
		// --- an honest peer answers the follower's outstanding block requests from what was given
		givenSeqs := make([]int, 0, len(given))
		for s := range given {
			givenSeqs = append(givenSeqs, s)
		}
		sort.Ints(givenSeqs)
		prefix := 0
		for prefix+1 <= n && given[prefix+1] {
			prefix++
		}
		for round := 0; round < n+2; round++ {
			head := int(fol.m.Head().Head.BkSeq)
			if head >= prefix {
				break
			}
			var blocks []coin.SignedBlock
			for s := head + 1; s <= prefix && uint64(len(blocks)) < dc.GetBlocksRequestCount; s++ {
				blocks = append(blocks, chain[s])
			}
			deliver(blocks, fmt.Sprintf("answer(%d..%d)", head+1, head+len(blocks)))
		}
		if int(fol.m.Head().Head.BkSeq) < prefix {
			t.Fatalf("follower stopped at %d although blocks 1..%d were given and re-offered\n plan: %v", fol.m.Head().Head.BkSeq, prefix, log)
		}
		// announcements: a peer that says it has blocks above the node's head is asked for them - also when it is only one
		// block ahead; a peer that has nothing new is not
		{
			head := fol.m.Head().Head.BkSeq
			for _, ann := range []uint64{0, head, head + 1, head + 2, head + uint64(rapid.IntRange(3, 500).Draw(t, "ahead")), ^uint64(0)} {
				if ann < head && ann != 0 {
					continue
				}
				d.Sent = nil
				if p := call(func() { daemon.VerifProcess(d, &daemon.AnnounceBlocksMessage{MaxBkSeq: ann}, "10.1.1.1:6000", 1) }); p != nil {
					t.Fatalf("AnnounceBlocksMessage.process panicked: %v", p)
				}
				asked := false
				for _, snt := range d.Sent {
					if g, ok := snt.Msg.(*daemon.GetBlocksMessage); ok {
						if g.LastBlock != head || g.RequestedBlocks != dc.GetBlocksRequestCount {
							t.Fatalf("after an announcement of block %d the node (head %d) asks for blocks after %d, count %d; want after %d, count %d", ann, head, g.LastBlock, g.RequestedBlocks, head, dc.GetBlocksRequestCount)
						}
						asked = true
					}
				}
				if asked != (ann > head) {
					t.Fatalf("a peer announces block %d to a node whose head is %d: request for blocks sent = %v, want %v\n plan: %v", ann, head, asked, ann > head, log)
				}
				r.Count("announcements_checked")
			}
		}
		w.checkNode(t, fol, "sync plan")
		nt := (outOfOrder || forged) && fol.m.Head().Head.BkSeq > 0
		if forged {
			r.Count("plans_with_forgery")
		}
		if outOfOrder {
			r.Count("plans_out_of_order")
		}
		r.CountN("blocks_synced", int64(fol.m.Head().Head.BkSeq))
		r.CaseS(nt, fmt.Sprint(log))
		if r.WantSample(nt) {
			r.Sample(nt, map[string]interface{}{"publisher_chain_blocks": n, "deliveries": log, "follower_head": fol.m.Head().Head.BkSeq, "given_prefix": prefix})
		}
	})
}
