package ledger

import (
	"fmt"
	"testing"

	"pgregory.net/rapid"

	"github.com/skycoin/skycoin/src/cipher"
	"github.com/skycoin/skycoin/src/coin"
	"github.com/skycoin/skycoin/src/daemon"
	"github.com/skycoin/skycoin/src/daemon/gnet"

	"verif/harness/internal/ev"
	"verif/harness/internal/gen"
	"verif/harness/internal/hx"
	"verif/harness/internal/ref/rules"
	"verif/harness/internal/ref/txref"
)

// TestC11_NodeInjection: the property names Visor.InjectUserTransaction as an observation point.  The ledger state machine
// runs with injections dominating, on nodes whose pool and block-creation parameters (burn factor, size limit, precision)
// are drawn and differ from the user parameters: a transaction injected by the user must pass the user's soft rules
// whatever the pool would tolerate, a network transaction is pooled and flagged by the pool's rules, and each refusal
// carries the right class of error (soft / hard / user).
func TestC11_NodeInjection(t *testing.T) {
	ledgerTest(t, focus{prop: "C11", weights: weights(map[string]int{"inject": 18, "publish": 3, "deliver": 1, "craft": 0, "refresh": 1, "remove_invalid": 0, "restart": 0}),
		nt: func(w *world) bool {
			return w.stats["inject_user_rejected"] >= 1 && w.stats["inject_user_admitted"]+w.stats["inject_foreign_admitted"] >= 1 && w.stats["pooled_soft_invalid"] >= 1
		},
		ntRule: "node level (Visor.InjectUserTransaction / InjectForeignTransaction with drawn verification parameters for the pool that differ from the user parameters): at least one user injection was refused, one injection admitted and one network transaction pooled as soft-invalid"}, 30, 1200)
}

// TestC23_Replies: messages the node builds in answer to a peer - the transactions for a GetTxns request, the blocks for
// a GetBlocks request, the request for announced transactions it does not know - must fit the configured maximum
// OUTGOING length (which is not the incoming one) and carry the longest prefix that fits.
func TestC23_Replies(t *testing.T) {
	r := ev.Get("C23")
	r.Rule("replies built by the message handlers (real GetTxnsMessage / GetBlocksMessage / AnnounceTxnsMessage.process on a recording daemon over a real visor): a chain of 3-6 blocks and a pool of 3-10 transactions of 1-32 outputs; maximum outgoing length drawn from 64..6000 (and far below the incoming limit of 1 MiB), requested counts and hash lists drawn incl. unknown hashes and up to 300 announced hashes; oracle: every message handed to the send function, framed with EncodeMessage, is no longer than the outgoing limit, its items are a prefix of what the node holds for the request, and one more item would not have fitted (or the item cap was reached); non-trivial = a reply was truncated; distinct by (limit, request)")
	hx.Check(t, "C23", 25, 1000, func(t *rapid.T) {
		cfg := genWorldCfg(t)
		cfg.genesisVolume = 100e12
		cfg.genesisTime = 1000
		cfg.unconfirmed.MaxTransactionSize, cfg.createBlock.MaxTransactionSize = 2048, 2048
		cfg.maxBlockSize = 34816
		cfg.followers = 1
		w := newWorld(t, cfg)
		defer w.destroy()
		pub := w.nodes[0]
		g := pub.m.SortedUtxo()
		k := rapid.IntRange(6, 16).Draw(t, "fanout")
		dests := append(append([]gen.Key{}, userKeys...), distKeys[0])
		hoursIn, c := rules.Accrued(g[0], pub.m.Head().Head.Time)
		if c != rules.AccrueOK {
			t.Fatalf("genesis hours: %s", c)
		}
		per := hoursIn.Uint64() / 2 / uint64(k)
		var fan coin.Transaction
		fan.In = append(fan.In, txref.UxBodyID(g[0].Body))
		rem := g[0].Body.Coins
		for i := 0; i < k; i++ {
			amt := uint64(1000e6) + uint64(i)*1e6
			if i == k-1 {
				amt = rem
			}
			rem -= amt
			fan.Out = append(fan.Out, coin.TransactionOutput{Address: dests[i%len(dests)].Addr, Coins: amt, Hours: per})
		}
		signTxn(&fan, []gen.Key{genesisKey})
		if !w.injectForeignChecked(t, pub, fan, "fanout") {
			t.Skip("fan-out transaction was not admitted (drawn parameters)")
		}
		w.actPublish(t)
		if pub.m.Head().Head.BkSeq != 1 {
			t.Skip("fan-out block was not created")
		}
		// spends of the fan-out outputs with 1-32 outputs each; a few of them are published one by one, the rest stays pooled
		wantBlocks := rapid.IntRange(2, 5).Draw(t, "more_blocks")
		n := 0
		for _, ux := range pub.m.SortedUtxo() {
			if ux.Body.SrcTransaction != txref.TxnHash(&fan) {
				continue
			}
			owner, ok := keyByAddr[ux.Body.Address]
			if !ok {
				continue
			}
			nOut := rapid.SampledFrom([]int{1, 1, 2, 5, 12, 32}).Draw(t, "nout")
			var txn coin.Transaction
			txn.In = append(txn.In, txref.UxBodyID(ux.Body))
			left := ux.Body.Coins
			for i := 0; i < nOut; i++ {
				amt := uint64(1e6)
				if i == nOut-1 {
					amt = left
				}
				left -= amt
				txn.Out = append(txn.Out, coin.TransactionOutput{Address: dests[(n+i)%len(dests)].Addr, Coins: amt, Hours: uint64(i)})
			}
			signTxn(&txn, []gen.Key{owner})
			if !w.injectForeignChecked(t, pub, txn, fmt.Sprintf("%d outputs", nOut)) {
				continue
			}
			n++
			if int(pub.m.Head().Head.BkSeq) < 1+wantBlocks {
				w.actPublish(t)
			}
		}
		limit := uint64(rapid.OneOf(rapid.IntRange(64, 600), rapid.IntRange(64, 6000)).Draw(t, "max_outgoing"))
		dc := daemon.DaemonConfig{MaxOutgoingMessageLength: limit, MaxIncomingMessageLength: 1 << 20, MaxGetBlocksResponseCount: uint64(rapid.IntRange(1, 20).Draw(t, "max_blocks_response")), GetBlocksRequestCount: 20}
		d := daemon.NewVerifDaemon(pub.v, dc)
		truncated := false
		framed := func(m gnet.Message) int {
			b, err := gnet.EncodeMessage(m)
			if err != nil {
				t.Fatalf("EncodeMessage(%T): %v", m, err)
			}
			return len(b)
		}
		take := func(what string) gnet.Message {
			if len(d.Sent) == 0 {
				return nil
			}
			if len(d.Sent) != 1 {
				t.Fatalf("%s: %d messages sent, want one reply", what, len(d.Sent))
			}
			m := d.Sent[0].Msg
			d.Sent = nil
			if n := framed(m); uint64(n) > limit {
				t.Fatalf("%s: the reply %T is %d bytes framed, the maximum outgoing length is %d (incoming limit %d)", what, m, n, limit, dc.MaxIncomingMessageLength)
			}
			return m
		}
		// --- GetTxns -> GiveTxns
		var hashes []cipher.SHA256
		for h := range pub.m.Pool {
			hashes = append(hashes, h)
		}
		sortHashes(hashes)
		if len(hashes) > 0 {
			hashes = rapid.Permutation(hashes).Draw(t, "request_order")
			hashes = append(hashes, cipher.SumSHA256([]byte("unknown")))
			known, err := pub.v.GetKnownUnconfirmed(hashes)
			if err != nil {
				t.Fatal(err)
			}
			call(func() { daemon.VerifProcess(d, &daemon.GetTxnsMessage{Transactions: hashes}, "10.2.2.2:6000", 2) })
			if m := take("GetTxns"); m != nil {
				gt, ok := m.(*daemon.GiveTxnsMessage)
				if !ok {
					t.Fatalf("GetTxns answered with %T", m)
				}
				if len(gt.Transactions) > len(known) {
					t.Fatalf("GiveTxns carries %d transactions, the node knows %d of the requested", len(gt.Transactions), len(known))
				}
				for i := range gt.Transactions {
					if txref.TxnHash(&gt.Transactions[i]) != txref.TxnHash(&known[i]) {
						t.Fatalf("GiveTxns item %d is not item %d of the known requested transactions", i, i)
					}
				}
				if len(gt.Transactions) < len(known) {
					truncated = true
					bigger := &daemon.GiveTxnsMessage{Transactions: known[:len(gt.Transactions)+1]}
					if uint64(framed(bigger)) <= limit && len(gt.Transactions) < 256 {
						t.Fatalf("GiveTxns stops at %d of %d transactions although one more would fit %d bytes", len(gt.Transactions), len(known), limit)
					}
				}
			} else if len(known) > 0 {
				one := &daemon.GiveTxnsMessage{Transactions: known[:1]}
				if uint64(framed(one)) <= limit {
					t.Fatalf("no GiveTxns reply although the first known transaction fits the limit %d", limit)
				}
			}
		}
		// --- GetBlocks -> GiveBlocks
		{
			head := pub.m.Head().Head.BkSeq
			last := rapid.Uint64Range(0, head).Draw(t, "last_block")
			reqN := uint64(rapid.IntRange(1, 40).Draw(t, "requested_blocks"))
			call(func() {
				daemon.VerifProcess(d, &daemon.GetBlocksMessage{LastBlock: last, RequestedBlocks: reqN}, "10.2.2.2:6000", 2)
			})
			capN := reqN
			if capN > dc.MaxGetBlocksResponseCount {
				capN = dc.MaxGetBlocksResponseCount
			}
			var have []coin.SignedBlock
			for s := last + 1; s <= head && uint64(len(have)) < capN; s++ {
				have = append(have, pub.m.Blocks[s])
			}
			if m := take("GetBlocks"); m != nil {
				gb, ok := m.(*daemon.GiveBlocksMessage)
				if !ok {
					t.Fatalf("GetBlocks answered with %T", m)
				}
				if len(gb.Blocks) > len(have) {
					t.Fatalf("GiveBlocks carries %d blocks, at most %d were to be sent", len(gb.Blocks), len(have))
				}
				for i := range gb.Blocks {
					if txref.HeaderHash(gb.Blocks[i].Head) != txref.HeaderHash(have[i].Head) {
						t.Fatalf("GiveBlocks item %d is not block %d", i, have[i].Head.BkSeq)
					}
				}
				if len(gb.Blocks) < len(have) {
					truncated = true
					bigger := &daemon.GiveBlocksMessage{Blocks: have[:len(gb.Blocks)+1]}
					if uint64(framed(bigger)) <= limit && len(gb.Blocks) < 128 {
						t.Fatalf("GiveBlocks stops at %d of %d blocks although one more would fit %d bytes", len(gb.Blocks), len(have), limit)
					}
				}
			}
		}
		// --- AnnounceTxns (unknown hashes) -> GetTxns
		{
			cnt := rapid.OneOf(rapid.IntRange(1, 12), rapid.IntRange(1, 256)).Draw(t, "announced")
			var ann []cipher.SHA256
			for i := 0; i < cnt; i++ {
				ann = append(ann, cipher.SumSHA256([]byte(fmt.Sprintf("announced-%d", i))))
			}
			call(func() {
				daemon.VerifProcess(d, &daemon.AnnounceTxnsMessage{Transactions: ann}, "10.2.2.2:6000", 2)
			})
			if m := take("AnnounceTxns"); m != nil {
				gt, ok := m.(*daemon.GetTxnsMessage)
				if !ok {
					t.Fatalf("AnnounceTxns answered with %T", m)
				}
				for i := range gt.Transactions {
					if gt.Transactions[i] != ann[i] {
						t.Fatalf("GetTxns item %d is not announced hash %d", i, i)
					}
				}
				if len(gt.Transactions) < len(ann) {
					truncated = true
					bigger := &daemon.GetTxnsMessage{Transactions: ann[:len(gt.Transactions)+1]}
					if uint64(framed(bigger)) <= limit && len(gt.Transactions) < 256 {
						t.Fatalf("GetTxns stops at %d of %d hashes although one more would fit %d bytes", len(gt.Transactions), len(ann), limit)
					}
				}
			}
		}
		r.CaseS(truncated, fmt.Sprintf("replies/%d/%d/%v", limit, len(hashes), w.history()))
		r.Count("reply_cases")
		if truncated {
			r.Count("reply_cases_truncated")
		}
		if r.WantSample(truncated) {
			r.Sample(truncated, map[string]interface{}{"max_outgoing": limit, "pooled": len(pub.m.Pool), "blocks": pub.m.Head().Head.BkSeq, "truncated": truncated})
		}
	})
}

func sortHashes(hs []cipher.SHA256) {
	for i := range hs {
		for j := i + 1; j < len(hs); j++ {
			if string(hs[j][:]) < string(hs[i][:]) {
				hs[i], hs[j] = hs[j], hs[i]
			}
		}
	}
}
