package ledger

import "pgregory.net/rapid"

func (w *world) actViews(t *rapid.T) {}

func (w *world) checkViews(t *rapid.T, n *node, after string) {}
