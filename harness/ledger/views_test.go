package ledger

import (
	"fmt"
	"math/big"
	"sort"

	"pgregory.net/rapid"

	"github.com/skycoin/skycoin/src/cipher"
	"github.com/skycoin/skycoin/src/coin"
	"github.com/skycoin/skycoin/src/visor"
	"github.com/skycoin/skycoin/src/visor/blockdb"
	"github.com/skycoin/skycoin/src/visor/dbutil"
	"github.com/skycoin/skycoin/src/visor/historydb"

	ref "verif/harness/internal/ref/ledger"
	"verif/harness/internal/ref/rules"
	"verif/harness/internal/ref/txref"
)

var unknownAddr = cipher.Address{Version: 0, Key: cipher.Ripemd160{9, 9, 9}}

// actViews queries one node for a random address subset.
func (w *world) actViews(t *rapid.T) {
	n := w.pickNode(t, "node")
	w.checkViews(t, n, "views")
}

// actRebuild erases the index / history progress markers and restarts the node, which forces the
// address index and the history database to be rebuilt from the stored blocks.
func (w *world) actRebuild(t *rapid.T) {
	n := w.pickNode(t, "node")
	what := rapid.SampledFrom([]string{"addr_index", "history", "both", "history_bucket_emptied", "history_bucket_emptied"}).Draw(t, "what")
	err := n.db.Update("verif erase markers", func(tx *dbutil.Tx) error {
		if what == "history_bucket_emptied" {
			// one of the history buckets is empty although the progress marker is present (a database written by a
			// version that did not have that bucket yet): the node must notice and build the whole history again
			bkt := rapid.SampledFrom([][]byte{historydb.AddressTxnsBkt, historydb.AddressUxBkt, historydb.UxOutsBkt, historydb.TransactionsBkt}).Draw(t, "bucket")
			return dbutil.Reset(tx, bkt)
		}
		if what != "history" {
			if err := dbutil.Delete(tx, blockdb.UnspentMetaBkt, []byte("addr_index_height")); err != nil {
				return err
			}
		}
		if what != "addr_index" {
			if err := dbutil.Delete(tx, historydb.HistoryMetaBkt, []byte("parsed_height")); err != nil {
				return err
			}
		}
		return nil
	})
	if err != nil {
		t.Fatalf("erase markers: %v", err)
	}
	n.close()
	n.open(t)
	n.m.RemoveInvalid()
	w.logf("%s.Rebuild(%s)", n.name, what)
	w.stats["rebuild"]++
	w.checkNode(t, n, "rebuild")
	w.checkViews(t, n, "rebuild")
}

func sortedIDs(uxs coin.UxArray) []string {
	out := make([]string, len(uxs))
	for i, ux := range uxs {
		h := txref.UxBodyID(ux.Body)
		out[i] = fmt.Sprintf("%s/%d/%d", h.Hex(), ux.Head.Time, ux.Head.BkSeq)
	}
	sort.Strings(out)
	return out
}

func (w *world) checkViews(t *rapid.T, n *node, after string) {
	fail := func(format string, a ...interface{}) {
		t.Fatalf("%s view check after %s: %s\n history:\n  %s", n.name, after, fmt.Sprintf(format, a...), w.history())
	}
	m := n.m
	headTime := m.Head().Head.Time
	// --- per-address unspents, address count
	byAddr := map[cipher.Address]coin.UxArray{}
	for _, ux := range m.Utxo {
		byAddr[ux.Body.Address] = append(byAddr[ux.Body.Address], ux)
	}
	cnt, err := n.v.AddressCount()
	if err != nil {
		fail("AddressCount: %v", err)
	}
	if cnt != uint64(len(byAddr)) {
		fail("AddressCount=%d, model has %d addresses with unspent outputs", cnt, len(byAddr))
	}
	query := append(append([]cipher.Address{}, allAddrs...), unknownAddr, allAddrs[1]) // includes an unknown address and a duplicate
	got, err := n.v.GetUnspentsOfAddrs(query)
	if err != nil {
		fail("GetUnspentsOfAddrs: %v", err)
	}
	for _, a := range query {
		g, wnt := sortedIDs(got[a]), sortedIDs(byAddr[a])
		if fmt.Sprint(g) != fmt.Sprint(wnt) {
			fail("unspents of %s: node %v, model %v", a, g, wnt)
		}
	}
	for a := range got {
		if len(got[a]) > 0 && len(byAddr[a]) == 0 {
			fail("GetUnspentsOfAddrs returned outputs for %s which owns none", a)
		}
	}
	// --- every output ever created: history record
	for id, seq := range m.Created {
		hux, ht, err := n.v.GetUxOutByID(id)
		if err != nil || hux == nil {
			fail("GetUxOutByID(%s) created in block %d: %v %v", shortHash(id), seq, hux, err)
		}
		if ht != headTime {
			fail("GetUxOutByID head time %d, model %d", ht, headTime)
		}
		if sp, spent := m.Spent[id]; spent {
			if hux.SpentBlockSeq != sp.BlockSeq || hux.SpentTxnID != sp.Txn {
				fail("output %s: history says spent in block %d by %s, model: block %d by %s", shortHash(id), hux.SpentBlockSeq, shortHash(hux.SpentTxnID), sp.BlockSeq, shortHash(sp.Txn))
			}
			if hux.Out != sp.Ux {
				fail("output %s: history record %+v differs from the created output %+v", shortHash(id), hux.Out, sp.Ux)
			}
		} else {
			if hux.SpentBlockSeq != 0 || hux.SpentTxnID != (cipher.SHA256{}) {
				fail("output %s is unspent but history says spent in block %d", shortHash(id), hux.SpentBlockSeq)
			}
			if hux.Out != m.Utxo[id] {
				fail("output %s: history record %+v differs from the unspent output %+v", shortHash(id), hux.Out, m.Utxo[id])
			}
		}
	}
	if hux, _, _ := n.v.GetUxOutByID(cipher.SHA256{0xee, 1}); hux != nil {
		fail("GetUxOutByID(unknown) = %v", hux)
	}
	// --- confirmed transactions: by hash and per address
	type ctx struct {
		txn coin.Transaction
		seq uint64
		t   uint64
	}
	confirmed := map[cipher.SHA256]ctx{}
	addrTxns := map[cipher.Address]map[cipher.SHA256]bool{}
	touch := func(a cipher.Address, h cipher.SHA256) {
		if addrTxns[a] == nil {
			addrTxns[a] = map[cipher.SHA256]bool{}
		}
		addrTxns[a][h] = true
	}
	for _, b := range m.Blocks {
		for i := range b.Body.Transactions {
			txn := b.Body.Transactions[i]
			h := txref.TxnHash(&txn)
			confirmed[h] = ctx{txn, b.Head.BkSeq, b.Head.Time}
			for _, o := range txn.Out {
				touch(o.Address, h)
			}
			for _, in := range txn.In {
				if sp, ok := m.Spent[in]; ok {
					touch(sp.Ux.Body.Address, h)
				}
			}
		}
	}
	num, err := n.v.GetTransactionsNum()
	if err != nil {
		fail("GetTransactionsNum: %v", err)
	}
	if num != uint64(len(confirmed)) {
		fail("GetTransactionsNum=%d, chain holds %d transactions", num, len(confirmed))
	}
	for h, c := range confirmed {
		tx, err := n.v.GetTransaction(h)
		if err != nil || tx == nil {
			fail("GetTransaction(%s) confirmed in block %d: %v %v", shortHash(h), c.seq, tx, err)
		}
		if !tx.Status.Confirmed || tx.Status.BlockSeq != c.seq || tx.Status.Height != m.Head().Head.BkSeq-c.seq+1 || tx.Time != c.t {
			fail("GetTransaction(%s): status %+v time %d, model: block %d time %d head %d", shortHash(h), tx.Status, tx.Time, c.seq, c.t, m.Head().Head.BkSeq)
		}
		if txref.TxnHash(&tx.Transaction) != h {
			fail("GetTransaction(%s) returned another transaction", shortHash(h))
		}
	}
	for h := range m.Pool {
		tx, err := n.v.GetTransaction(h)
		if err != nil || tx == nil || tx.Status.Confirmed {
			fail("GetTransaction(%s) pooled: %+v %v", shortHash(h), tx, err)
		}
	}
	for _, a := range query {
		txs, _, err := n.v.GetTransactions([]visor.TxFilter{visor.NewAddrsFilter([]cipher.Address{a}), visor.NewConfirmedTxFilter(true)}, visor.AscOrder, nil)
		if err != nil {
			fail("GetTransactions(confirmed, %s): %v", a, err)
		}
		seen := map[cipher.SHA256]bool{}
		prev := uint64(0)
		for _, tx := range txs {
			h := txref.TxnHash(&tx.Transaction)
			if seen[h] {
				fail("GetTransactions(%s) lists %s twice", a, shortHash(h))
			}
			seen[h] = true
			if !addrTxns[a][h] {
				fail("GetTransactions(%s) lists %s which does not involve the address", a, shortHash(h))
			}
			if tx.Status.BlockSeq < prev {
				fail("GetTransactions(%s) not ordered by block", a)
			}
			prev = tx.Status.BlockSeq
		}
		if len(seen) != len(addrTxns[a]) {
			fail("GetTransactions(confirmed, %s) lists %d transactions, the chain has %d involving it", a, len(seen), len(addrTxns[a]))
		}
	}
	// all transactions (confirmed + pooled) for an address set: must not fail or panic, results must involve the addresses
	{
		var txs []visor.Transaction
		var err error
		sub := []cipher.Address{query[1], query[2], unknownAddr}
		if p := call(func() {
			txs, _, err = n.v.GetTransactions([]visor.TxFilter{visor.NewAddrsFilter(sub)}, visor.AscOrder, nil)
		}); p != nil {
			fail("GetTransactions(address filter, pool of %d) panicked: %v", len(m.Pool), p)
		}
		if err != nil {
			fail("GetTransactions(address filter): %v", err)
		}
		for _, tx := range txs {
			h := txref.TxnHash(&tx.Transaction)
			ok := false
			for _, a := range sub {
				if addrTxns[a][h] {
					ok = true
				}
				for _, o := range tx.Transaction.Out {
					if o.Address == a {
						ok = true
					}
				}
				for _, in := range tx.Transaction.In {
					if ux, found := m.Utxo[in]; found && ux.Body.Address == a {
						ok = true
					}
				}
			}
			if !ok {
				fail("GetTransactions(address filter) returned %s which does not involve any queried address", shortHash(h))
			}
		}
	}
	// --- balances
	// pooled transactions whose inputs are no longer unspent can never confirm; predicted balances ignore them
	spentByPool := map[cipher.SHA256]bool{}
	var livePool []coin.Transaction
	for _, e := range m.Pool {
		if _, ok := m.Resolve(&e.Txn); !ok {
			w.stats["balance_with_unresolvable_pool"]++
			continue
		}
		livePool = append(livePool, e.Txn)
		for _, in := range e.Txn.In {
			spentByPool[in] = true
		}
	}
	var bps []walletBalancePair
	var berr error
	if p := call(func() { bps, berr = balances(n.v, query) }); p != nil {
		fail("GetBalanceOfAddresses panicked: %v", p)
	}
	predOverflow := false
	for _, a := range query {
		pc, ph := new(big.Int), new(big.Int)
		for _, ux := range byAddr[a] {
			if !spentByPool[txref.UxBodyID(ux.Body)] {
				pc.Add(pc, bu(ux.Body.Coins))
				if v, c := rules.Accrued(ux, headTime); c == rules.AccrueOK {
					ph.Add(ph, v)
				}
			}
		}
		for _, e := range m.Pool {
			for _, o := range e.Txn.Out {
				if o.Address == a {
					pc.Add(pc, bu(o.Coins))
					ph.Add(ph, bu(o.Hours))
				}
			}
		}
		if pc.Cmp(two64) >= 0 || ph.Cmp(two64) >= 0 {
			predOverflow = true
		}
	}
	if predOverflow && berr != nil {
		// conflicting pooled transactions pay the address more than 64 bits can hold in total: a predicted balance does
		// not exist, the query may report an error (only a crash would be a finding)
		w.stats["balance_prediction_not_representable"]++
	} else if accrualProblem(m, query, headTime) {
		// some queried output's coin hours cannot be computed at the head time (64-bit overflow):
		// the query may fail as a whole; only a crash would be a finding
		w.stats["balance_with_hour_overflow"]++
	} else {
		if berr != nil {
			fail("GetBalanceOfAddresses: %v", berr)
		}
		for i, a := range query {
			coins, pcoins := new(big.Int), new(big.Int)
			hours, phours := new(big.Int), new(big.Int)
			hoursKnown := true
			for _, ux := range byAddr[a] {
				coins.Add(coins, bu(ux.Body.Coins))
				v, c := rules.Accrued(ux, headTime)
				if c != rules.AccrueOK {
					hoursKnown = false
				} else {
					hours.Add(hours, v)
				}
				if !spentByPool[txref.UxBodyID(ux.Body)] {
					pcoins.Add(pcoins, bu(ux.Body.Coins))
					if c == rules.AccrueOK {
						phours.Add(phours, v)
					}
				}
			}
			for _, ptx := range livePool {
				for _, o := range ptx.Out {
					if o.Address == a {
						pcoins.Add(pcoins, bu(o.Coins))
						phours.Add(phours, bu(o.Hours))
					}
				}
			}
			if bu(bps[i].cc).Cmp(coins) != 0 {
				fail("confirmed coins of %s: node %d, model %s", a, bps[i].cc, coins)
			}
			if pcoins.Cmp(two64) < 0 && bu(bps[i].pc).Cmp(pcoins) != 0 {
				fail("predicted coins of %s: node %d, model %s (pool %d txns)", a, bps[i].pc, pcoins, len(m.Pool))
			}
			if hoursKnown && hours.Cmp(two64) < 0 && bu(bps[i].ch).Cmp(hours) != 0 {
				fail("confirmed hours of %s: node %d, model %s", a, bps[i].ch, hours)
			}
			if hoursKnown && phours.Cmp(two64) < 0 && bu(bps[i].ph).Cmp(phours) != 0 {
				fail("predicted hours of %s: node %d, model %s", a, bps[i].ph, phours)
			}
		}
		w.stats["balance_checked"]++
	}
	// --- block queries
	headSeq := m.Head().Head.BkSeq
	for _, since := range []uint64{0, headSeq / 2, headSeq, headSeq + 3} {
		for _, ct := range []uint64{0, 1, 3, 1000} {
			bl, err := n.v.GetSignedBlocksSince(since, ct)
			if err != nil {
				fail("GetSignedBlocksSince(%d,%d): %v", since, ct, err)
			}
			want := uint64(0)
			if headSeq > since {
				want = headSeq - since
			}
			if want > ct {
				want = ct
			}
			if uint64(len(bl)) != want {
				fail("GetSignedBlocksSince(%d,%d) returned %d blocks, want %d", since, ct, len(bl), want)
			}
			for j, b := range bl {
				if txref.HeaderHash(b.Head) != txref.HeaderHash(m.Blocks[since+1+uint64(j)].Head) {
					fail("GetSignedBlocksSince(%d,%d)[%d] is not block %d of the chain", since, ct, j, since+1+uint64(j))
				}
			}
		}
	}
	last, err := n.v.GetLastBlocks(3)
	if err != nil {
		fail("GetLastBlocks: %v", err)
	}
	wantLast := 3
	if len(m.Blocks) < 3 {
		wantLast = len(m.Blocks)
	}
	if len(last) != wantLast {
		fail("GetLastBlocks(3) returned %d, want %d", len(last), wantLast)
	}
	for j, b := range last {
		if txref.HeaderHash(b.Head) != txref.HeaderHash(m.Blocks[len(m.Blocks)-wantLast+j].Head) {
			fail("GetLastBlocks(3)[%d] wrong block", j)
		}
	}
	hb, err := n.v.GetSignedBlockByHash(txref.HeaderHash(m.Head().Head))
	if err != nil || hb == nil || hb.Head.BkSeq != headSeq {
		fail("GetSignedBlockByHash(head): %v %v", hb, err)
	}
	w.stats["views_checked"]++
}

type walletBalancePair struct{ cc, ch, pc, ph uint64 }

func balances(v *visor.Visor, addrs []cipher.Address) ([]walletBalancePair, error) {
	bps, err := v.GetBalanceOfAddresses(addrs)
	if err != nil {
		return nil, err
	}
	out := make([]walletBalancePair, len(bps))
	for i, b := range bps {
		out[i] = walletBalancePair{b.Confirmed.Coins, b.Confirmed.Hours, b.Predicted.Coins, b.Predicted.Hours}
	}
	return out, nil
}

// accrualProblem: does any unspent output of the queried addresses have accrued hours that do not fit 64 bits?
func accrualProblem(m *ref.Model, addrs []cipher.Address, headTime uint64) bool {
	set := map[cipher.Address]bool{}
	for _, a := range addrs {
		set[a] = true
	}
	sum := map[cipher.Address]*big.Int{}
	for _, ux := range m.Utxo {
		if !set[ux.Body.Address] {
			continue
		}
		v, c := rules.Accrued(ux, headTime)
		if c != rules.AccrueOK {
			return true
		}
		if sum[ux.Body.Address] == nil {
			sum[ux.Body.Address] = new(big.Int)
		}
		sum[ux.Body.Address].Add(sum[ux.Body.Address], v)
	}
	for _, s := range sum {
		if s.Cmp(two64) >= 0 {
			return true
		}
	}
	return false
}
