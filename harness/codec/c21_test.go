package codec

import (
	"bytes"
	"encoding/binary"
	"encoding/hex"
	"fmt"
	"reflect"
	"sort"
	"strings"
	"testing"

	"pgregory.net/rapid"

	"github.com/skycoin/skycoin/src/cipher/encoder"
	"github.com/skycoin/skycoin/src/cipher/encoder/verifcodec"
	"github.com/skycoin/skycoin/src/coin"
	"github.com/skycoin/skycoin/src/daemon"
	"github.com/skycoin/skycoin/src/visor"
	"github.com/skycoin/skycoin/src/visor/blockdb"
	"github.com/skycoin/skycoin/src/visor/historydb"

	"verif/harness/internal/ev"
	"verif/harness/internal/gen"
	"verif/harness/internal/hx"
	"verif/harness/internal/ref/enc"
)

func TestMain(m *testing.M) { hx.Main(m) }

func allCodecs() []verifcodec.Codec {
	var out []verifcodec.Codec
	out = append(out, coin.VerifCodecs()...)
	out = append(out, daemon.VerifCodecs()...)
	out = append(out, visor.VerifCodecs()...)
	out = append(out, blockdb.VerifCodecs()...)
	out = append(out, historydb.VerifCodecs()...)
	return out
}

const ruleC21 = "for each of the 29 generated codecs: values built by a reflection-driven generator (edge-biased integers, random byte arrays, nil / empty / 1-6 element slices, slice and string lengths at maxlen-1, maxlen, maxlen+1 where maxlen <= 1024 and, in thorough, a few at 65535+-1) and byte strings (valid encodings with byte edits, any 4 bytes patched to a boundary length value, length prefixes of fields without a limit of their own rewritten to the limits other fields have (+-1) with padding, truncations at random cuts, extensions, random bytes); oracle: three voices - generated code, reflection encoder, independent reference encoder - must agree on bytes and size, both decoders on success/error kind, consumed length and decoded value, exact decoding re-encodes to the input, no panic; non-trivial = value has a non-empty slice or a boundary length / byte string is a mutation; distinct by (codec, bytes)"

type genCtx = gen.Filler

func errKind(err error) string {
	switch err {
	case nil:
		return "ok"
	case encoder.ErrBufferUnderflow:
		return "underflow"
	case encoder.ErrMaxLenExceeded:
		return "maxlen"
	case encoder.ErrRemainingBytes:
		return "remaining"
	case encoder.ErrInvalidBool:
		return "invalid_bool"
	case encoder.ErrBufferOverflow:
		return "overflow"
	}
	return "other:" + err.Error()
}

func guard(what string, f func()) (err error) {
	defer func() {
		if p := recover(); p != nil {
			err = fmt.Errorf("%s panicked: %v", what, p)
		}
	}()
	f()
	return nil
}

// checkValue runs the encode-side and round-trip oracles on one value.
func checkValue(c verifcodec.Codec, v interface{}) error {
	var gen []byte
	var gerr error
	var gsize uint64
	if e := guard(c.Name+" Encode", func() { gsize = c.EncodeSize(v); gen, gerr = c.Encode(v) }); e != nil {
		return e
	}
	third := enc.Encode(v)
	var refl []byte
	var rsize uint64
	if e := guard("encoder.Serialize", func() { refl = encoder.Serialize(v); rsize = encoder.Size(v) }); e != nil {
		return e
	}
	if !bytes.Equal(refl, third) {
		return fmt.Errorf("%s: reflection encoder and independent reference disagree:\n refl =%x\n third=%x", c.Name, refl, third)
	}
	if rsize != uint64(len(refl)) || gsize != rsize {
		return fmt.Errorf("%s: sizes differ: generated EncodeSize=%d, encoder.Size=%d, len=%d", c.Name, gsize, rsize, len(refl))
	}
	over := enc.ExceedsMaxLen(v)
	if over {
		// documented: maxlen is enforced by the generated encoder, the reflection encoder serialises anyway;
		// both decoders must then refuse the bytes with the maxlen error
		if gerr != encoder.ErrMaxLenExceeded {
			return fmt.Errorf("%s: value exceeds a maxlen tag but generated Encode returned %v", c.Name, gerr)
		}
		d1, d2 := c.New(), c.New()
		var e1, e2 error
		if e := guard(c.Name+" Decode", func() { _, e1 = c.Decode(refl, d1) }); e != nil {
			return e
		}
		if e := guard("encoder.DeserializeRaw", func() { _, e2 = encoder.DeserializeRaw(refl, d2) }); e != nil {
			return e
		}
		if errKind(e1) != "maxlen" || errKind(e2) != "maxlen" {
			return fmt.Errorf("%s: over-long value decodes with generated=%v reflection=%v, want maxlen error from both", c.Name, e1, e2)
		}
		return nil
	}
	if gerr != nil {
		return fmt.Errorf("%s: generated Encode failed: %v", c.Name, gerr)
	}
	if !bytes.Equal(gen, refl) {
		return fmt.Errorf("%s: generated and reflection encodings differ:\n gen =%x\n refl=%x", c.Name, gen, refl)
	}
	// EncodeToBuffer: short buffer is refused, long buffer gets the same prefix
	if len(gen) > 0 {
		if err := c.EncodeToBuffer(make([]byte, len(gen)-1), v); err != encoder.ErrBufferUnderflow {
			return fmt.Errorf("%s: EncodeToBuffer with a short buffer returned %v", c.Name, err)
		}
	}
	big := make([]byte, len(gen)+7)
	if err := c.EncodeToBuffer(big, v); err != nil || !bytes.Equal(big[:len(gen)], gen) {
		return fmt.Errorf("%s: EncodeToBuffer into a larger buffer: err=%v", c.Name, err)
	}
	// round trips
	d1, d2 := c.New(), c.New()
	var n1, n2 uint64
	var e1, e2 error
	if e := guard(c.Name+" Decode", func() { n1, e1 = c.Decode(gen, d1) }); e != nil {
		return e
	}
	if e := guard("encoder.DeserializeRaw", func() { n2, e2 = encoder.DeserializeRaw(gen, d2) }); e != nil {
		return e
	}
	if e1 != nil || e2 != nil || n1 != uint64(len(gen)) || n2 != n1 {
		return fmt.Errorf("%s: decoding own encoding: generated n=%d err=%v, reflection n=%d err=%v, len=%d", c.Name, n1, e1, n2, e2, len(gen))
	}
	if !bytes.Equal(enc.Encode(d1), third) || !bytes.Equal(enc.Encode(d2), third) {
		return fmt.Errorf("%s: decoded value differs from the original (bytes %x)", c.Name, gen)
	}
	d3 := c.New()
	if err := c.DecodeExact(gen, d3); err != nil || !bytes.Equal(enc.Encode(d3), third) {
		return fmt.Errorf("%s: DecodeExact of own encoding: %v", c.Name, err)
	}
	return nil
}

// checkBytes runs the decode-side differential oracle on an arbitrary byte string.
func checkBytes(c verifcodec.Codec, b []byte) (decoded bool, err error) {
	d1, d2 := c.New(), c.New()
	var n1, n2 uint64
	var e1, e2 error
	if e := guard(c.Name+" Decode", func() { n1, e1 = c.Decode(b, d1) }); e != nil {
		return false, fmt.Errorf("%v (input %x)", e, b)
	}
	if e := guard("encoder.DeserializeRaw", func() { n2, e2 = encoder.DeserializeRaw(b, d2) }); e != nil {
		return false, fmt.Errorf("%v (input %x)", e, b)
	}
	if errKind(e1) != errKind(e2) {
		return false, fmt.Errorf("%s: decoders disagree on %x: generated %q, reflection %q", c.Name, b, errKind(e1), errKind(e2))
	}
	if e1 == nil {
		if n1 != n2 {
			return true, fmt.Errorf("%s: consumed lengths differ on %x: generated %d, reflection %d", c.Name, b, n1, n2)
		}
		if !bytes.Equal(enc.Encode(d1), enc.Encode(d2)) {
			return true, fmt.Errorf("%s: decoded values differ on %x", c.Name, b)
		}
	}
	d3, d4 := c.New(), c.New()
	var x1, x2 error
	if e := guard(c.Name+" DecodeExact", func() { x1 = c.DecodeExact(b, d3) }); e != nil {
		return false, fmt.Errorf("%v (input %x)", e, b)
	}
	if e := guard("encoder.DeserializeRawExact", func() { x2 = encoder.DeserializeRawExact(b, d4) }); e != nil {
		return false, fmt.Errorf("%v (input %x)", e, b)
	}
	if errKind(x1) != errKind(x2) {
		return false, fmt.Errorf("%s: exact decoders disagree on %x: generated %q, reflection %q", c.Name, b, errKind(x1), errKind(x2))
	}
	if x1 == nil {
		re, err := c.Encode(d3)
		if err != nil {
			return true, fmt.Errorf("%s: exact decode of %x succeeded but re-encoding fails: %v", c.Name, b, err)
		}
		if !bytes.Equal(re, b) {
			if isOmitEmptyTail(c, d3, b, re) && hx.IsKnown("C21", "omitempty-explicit-zero") {
				ev.Get("C21").Count("excluded_known_omitempty_explicit_zero")
				knownOmitSeen = true
				return true, nil
			}
			return true, fmt.Errorf("%s: exact decoding is not canonical:\n in =%x\n out=%x", c.Name, b, re)
		}
		return true, nil
	}
	return e1 == nil, nil
}

var knownOmitSeen bool

// isOmitEmptyTail: the only difference is a trailing explicit zero length for an omitempty last field.
func isOmitEmptyTail(c verifcodec.Codec, v interface{}, in, out []byte) bool {
	t := reflect.Indirect(reflect.ValueOf(v)).Type()
	if t.Kind() != reflect.Struct || t.NumField() == 0 {
		return false
	}
	last := t.Field(t.NumField() - 1)
	if !strings.Contains(last.Tag.Get("enc"), ",omitempty") {
		return false
	}
	return len(in) == len(out)+4 && bytes.Equal(in[:len(out)], out) && bytes.Equal(in[len(out):], []byte{0, 0, 0, 0})
}

func mutateBytes(t *rapid.T, b []byte, maxlens []int, lens []enc.LenAt) ([]byte, string) {
	b = append([]byte(nil), b...)
	switch rapid.IntRange(0, 8).Draw(t, "bmut") {
	case 7, 8: // aimed: rewrite one real length prefix of the encoding with a boundary value of its own field
		var in []enc.LenAt
		for _, l := range lens {
			if l.Off+4 <= len(b) {
				in = append(in, l)
			}
		}
		if len(in) == 0 {
			return b, "valid"
		}
		l := in[rapid.IntRange(0, len(in)-1).Draw(t, "whichlen")]
		cands := []uint32{0, 1, uint32(len(b) - l.Off - 4), uint32(len(b)-l.Off-4) + 1, 0x7fffffff, 0xffffffff}
		if l.MaxLen > 0 {
			cands = []uint32{uint32(l.MaxLen), uint32(l.MaxLen), uint32(l.MaxLen + 1), uint32(l.MaxLen - 1), uint32(l.MaxLen), 0, 0xffffffff}
		} else if len(globalMaxlens) > 0 && rapid.Bool().Draw(t, "foreign_limit") {
			// a field for which the struct tags name no limit: aim at the limits other fields of the code base have, so
			// that a limit known to only one of the decoders (generated code and struct tags out of step) shows
			m := rapid.SampledFrom(globalMaxlens).Draw(t, "foreign_maxlen")
			v := uint32(m + rapid.IntRange(-1, 1).Draw(t, "foreign_delta"))
			binary.LittleEndian.PutUint32(b[l.Off:], v)
			b = append(b[:l.Off+4:l.Off+4], make([]byte, int(v)+2+rapid.IntRange(0, 40).Draw(t, "pad"))...)
			return b, "len_aimed_foreign_limit"
		}
		binary.LittleEndian.PutUint32(b[l.Off:], rapid.SampledFrom(cands).Draw(t, "lenval"))
		switch rapid.IntRange(0, 3).Draw(t, "after") {
		case 0:
			b = b[:l.Off+4]
		case 1, 2:
			// the decoders compare the length with the number of bytes that follow before they look at maxlen:
			// give them at least maxlen+1 bytes so that the maxlen comparison itself decides
			if l.MaxLen > 0 && l.MaxLen <= 1<<16 {
				b = append(b[:l.Off+4:l.Off+4], make([]byte, l.MaxLen+2+rapid.IntRange(0, 40).Draw(t, "pad"))...)
				return b, "len_aimed_padded"
			}
		}
		return b, "len_aimed"
	case 0:
		return b, "valid"
	case 1:
		if len(b) == 0 {
			return b, "valid"
		}
		n := rapid.IntRange(1, 3).Draw(t, "edits")
		for i := 0; i < n; i++ {
			b[rapid.IntRange(0, len(b)-1).Draw(t, "pos")] = rapid.Byte().Draw(t, "val")
		}
		return b, "byte_edit"
	case 2, 3: // patch 4 bytes with a boundary length
		if len(b) < 4 {
			return append(b, 0xff), "extended"
		}
		pos := rapid.IntRange(0, len(b)-4).Draw(t, "pos")
		cands := []uint32{0, 1, 2, uint32(len(b) - pos - 4), uint32(len(b) - pos - 3), uint32(len(b)), 0x7fffffff, 0x80000000, 0xffffffff}
		for _, m := range maxlens {
			cands = append(cands, uint32(m), uint32(m+1), uint32(m-1))
		}
		binary.LittleEndian.PutUint32(b[pos:], rapid.SampledFrom(cands).Draw(t, "lenval"))
		return b, "len_patch"
	case 4:
		return b[:rapid.IntRange(0, len(b)).Draw(t, "cut")], "truncated"
	case 5:
		return append(b, rapid.SliceOfN(rapid.Byte(), 1, 12).Draw(t, "extra")...), "extended"
	default:
		return rapid.SliceOfN(rapid.Byte(), 0, 120).Draw(t, "raw"), "random"
	}
}

// every maxlen value (2..1024) that occurs in a struct tag of any of the codec types
var globalMaxlens []int

func maxlensOf(t reflect.Type, out *[]int) {
	switch t.Kind() {
	case reflect.Struct:
		for i := 0; i < t.NumField(); i++ {
			if m := enc.MaxLen(t.Field(i).Tag.Get("enc")); m > 0 {
				*out = append(*out, m)
			}
			maxlensOf(t.Field(i).Type, out)
		}
	case reflect.Slice, reflect.Array:
		maxlensOf(t.Elem(), out)
	}
}

func TestC21_Codecs(t *testing.T) {
	r := ev.Get("C21")
	r.Rule(ruleC21)
	r.Assume("the independent reference encoder (harness/internal/ref/enc) is written from the encoder package documentation; value equality after decoding is judged through it (nil and empty slices are identified, as documented)")
	codecs := allCodecs()
	if len(codecs) != 29 {
		t.Fatalf("expected 29 generated codecs, registry has %d", len(codecs))
	}
	r.Set("codecs", len(codecs))
	if len(globalMaxlens) == 0 {
		seen := map[int]bool{}
		for _, c := range codecs {
			var mls []int
			maxlensOf(reflect.TypeOf(c.New()).Elem(), &mls)
			for _, m := range mls {
				if m >= 2 && m <= 1024 && !seen[m] {
					seen[m] = true
					globalMaxlens = append(globalMaxlens, m)
				}
			}
		}
		sort.Ints(globalMaxlens)
	}
	for _, c := range codecs {
		c := c
		var mls []int
		maxlensOf(reflect.TypeOf(c.New()).Elem(), &mls)
		t.Run(c.Name, func(t *testing.T) {
			hx.Check(t, "C21", 300, 3000, func(t *rapid.T) {
				g := &genCtx{T: t, Budget: 60}
				v := c.New()
				g.Fill(reflect.ValueOf(v).Elem(), 0)
				if err := checkValue(c, v); err != nil {
					t.Fatal(err)
				}
				base, lens := enc.EncodeLenOffsets(v)
				if len(base) > 4096 {
					base = base[:4096]
				}
				b, class := mutateBytes(t, base, mls, lens)
				decoded, err := checkBytes(c, b)
				if err != nil {
					t.Fatal(err)
				}
				r.Count("bytes_" + class)
				if decoded {
					r.Count("bytes_decoded_" + class)
				}
				if g.Boundary {
					r.Count("value_at_maxlen_boundary")
				}
				nt := g.NonEmpty || g.Boundary || class != "valid"
				key := append([]byte(c.Name+"/"), b...)
				r.Case(nt, key)
				if r.WantSample(nt) && len(b) <= 200 && class != "random" {
					r.Sample(nt, map[string]interface{}{"codec": c.Name, "class": class, "bytes": hex.EncodeToString(b), "decodes": decoded})
				}
			})
		})
	}
	if knownOmitSeen {
		hx.ReportKnown("C21", "omitempty-explicit-zero")
	}
}

// FuzzC21_Decode: first byte selects the codec, the rest is the input of the decode-side oracle.
func FuzzC21_Decode(f *testing.F) {
	codecs := allCodecs()
	for i, c := range codecs {
		v := c.New()
		f.Add(append([]byte{byte(i)}, enc.Encode(v)...))
		f.Add([]byte{byte(i), 0xff, 0xff, 0xff, 0xff})
		f.Add([]byte{byte(i), 1, 0, 0, 0, 1, 0, 0, 0, 1, 0, 0, 0, 0, 0, 0, 0, 0, 0, 0, 0, 0, 0, 0, 0})
	}
	f.Fuzz(func(t *testing.T, b []byte) {
		if len(b) == 0 {
			return
		}
		c := codecs[int(b[0])%len(codecs)]
		if _, err := checkBytes(c, b[1:]); err != nil {
			t.Fatal(err)
		}
	})
}
