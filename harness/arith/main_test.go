package arith

import (
	"math/big"
	"testing"

	"pgregory.net/rapid"

	"verif/harness/internal/hx"
)

func TestMain(m *testing.M) { hx.Main(m) }

var (
	two64 = new(big.Int).Lsh(big.NewInt(1), 64)
	two63 = new(big.Int).Lsh(big.NewInt(1), 63)
	two32 = new(big.Int).Lsh(big.NewInt(1), 32)
)

func bu(x uint64) *big.Int { return new(big.Int).SetUint64(x) }

// edge64 is the boundary set used both for the exhaustive grid and for biased draws.
func edge64() []uint64 {
	seen := map[uint64]bool{}
	var out []uint64
	add := func(v uint64) {
		if !seen[v] {
			seen[v] = true
			out = append(out, v)
		}
	}
	for _, v := range []uint64{0, 1, 2, 3, 5, 9, 10, 59, 60, 99, 100, 999, 1000, 3599, 3600, 3601, 999999, 1000000, 1000001,
		3599999999, 3600000000, 3600000001, 1e12, 1e15, 1e18} {
		add(v)
	}
	for k := uint(1); k < 64; k++ {
		add(uint64(1) << k)
		add(uint64(1)<<k - 1)
		add(uint64(1)<<k + 1)
	}
	for j := uint64(0); j < 6; j++ {
		add(^uint64(0) - j)
	}
	return out
}

var edges = edge64()

// genU64 draws a uint64 with boundary bias.
func genU64() *rapid.Generator[uint64] {
	return rapid.OneOf(
		rapid.SampledFrom(edges),
		rapid.Uint64(),
		rapid.Uint64Range(0, 1<<20),
		rapid.Custom(func(t *rapid.T) uint64 { // around an edge
			e := rapid.SampledFrom(edges).Draw(t, "e")
			d := rapid.Uint64Range(0, 4000).Draw(t, "d")
			if rapid.Bool().Draw(t, "neg") {
				return e - d
			}
			return e + d
		}),
		rapid.Custom(func(t *rapid.T) uint64 { // random bit width
			w := rapid.UintRange(1, 64).Draw(t, "w")
			v := rapid.Uint64().Draw(t, "v")
			if w == 64 {
				return v
			}
			return v & (uint64(1)<<w - 1)
		}),
	)
}
