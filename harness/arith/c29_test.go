package arith

import (
	"fmt"
	"math/big"
	"testing"

	"pgregory.net/rapid"

	"github.com/skycoin/skycoin/src/visor"

	"verif/harness/internal/ev"
	"verif/harness/internal/hx"
)

func bmin(a, b *big.Int) *big.Int {
	if a.Cmp(b) < 0 {
		return a
	}
	return b
}

// checkCal compares PageIndex.Cal with [min((p-1)*size,n), min(p*size,n)) in exact arithmetic.
func checkCal(size, page, n uint64) (empty bool, err error) {
	pi, e := visor.NewPageIndex(size, page)
	if size == 0 || page == 0 || size > visor.MaxTxnPageSize {
		if e == nil {
			return false, fmt.Errorf("NewPageIndex(%d,%d) accepted", size, page)
		}
		return true, nil
	}
	if e != nil {
		return false, fmt.Errorf("NewPageIndex(%d,%d): %v", size, page, e)
	}
	start, end, total, e := pi.Cal(n)
	if e != nil {
		return false, fmt.Errorf("Cal(size=%d,page=%d,n=%d): %v", size, page, n, e)
	}
	bn := bu(n)
	ws := bmin(new(big.Int).Mul(bu(page-1), bu(size)), bn)
	we := bmin(new(big.Int).Mul(bu(page), bu(size)), bn)
	wt := new(big.Int).Add(bn, bu(size-1))
	wt.Quo(wt, bu(size))
	if bu(total).Cmp(wt) != 0 {
		return false, fmt.Errorf("Cal(size=%d,page=%d,n=%d) total=%d want %s", size, page, n, total, wt)
	}
	if ws.Cmp(we) == 0 {
		// empty page: any start==end is an empty slice
		if start != end {
			return true, fmt.Errorf("Cal(size=%d,page=%d,n=%d) = [%d,%d) want an empty page (page > total %s)", size, page, n, start, end, wt)
		}
		if end > n {
			return true, fmt.Errorf("Cal(size=%d,page=%d,n=%d) = [%d,%d) out of range", size, page, n, start, end)
		}
		return true, nil
	}
	if bu(start).Cmp(ws) != 0 || bu(end).Cmp(we) != 0 {
		return false, fmt.Errorf("Cal(size=%d,page=%d,n=%d) = [%d,%d) want [%s,%s)", size, page, n, start, end, ws, we)
	}
	return false, nil
}

const ruleC29 = "page size 0..101 x page number from {edge set, random uint64, 1..N+2, values p with (p-1)*size wrapping 2^64} x list length 0..10^4 (and 64-bit lengths for Cal alone); plus full partition checks (pages 1..N+2 concatenated == 0..n-1); non-trivial = page number > 1 and n > 0; distinct by (size,page,n)"

func TestC29_Cal(t *testing.T) {
	r := ev.Get("C29")
	r.Rule(ruleC29)
	// exhaustive small space: size 1..100, n 0..220, page 1..n/size+3
	cnt := 0
	for size := uint64(1); size <= 100; size++ {
		for n := uint64(0); n <= 220; n++ {
			covered := uint64(0)
			np := n/size + 3
			for p := uint64(1); p <= np; p++ {
				if _, err := checkCal(size, p, n); err != nil {
					t.Fatal(err)
				}
				pi, _ := visor.NewPageIndex(size, p)
				s, e, tot, _ := pi.Cal(n)
				if s != e {
					if s != covered {
						t.Fatalf("pages not consecutive: size=%d n=%d page=%d starts at %d, covered so far %d", size, n, p, s, covered)
					}
					covered = e
				}
				if p > tot && s != e {
					t.Fatalf("page %d beyond total %d not empty", p, tot)
				}
				cnt++
			}
			if covered != n {
				t.Fatalf("pages 1..%d cover %d of %d items (size=%d)", np, covered, n, size)
			}
			r.Case(n > 0, []byte(fmt.Sprintf("part/%d/%d", size, n)))
		}
	}
	r.Set("exhaustive_small_cal_calls", cnt)
	hx.Check(t, "C29", 40000, 2000000, func(t *rapid.T) {
		size := rapid.Uint64Range(0, 101).Draw(t, "size")
		n := rapid.OneOf(rapid.Uint64Range(0, 10000), rapid.Uint64Range(0, 300), rapid.Map(genU64(), func(v uint64) uint64 { return v >> 2 })).Draw(t, "n") // a list length is a Go slice length (< 2^63)
		var page uint64
		switch rapid.IntRange(0, 3).Draw(t, "pmode") {
		case 0:
			page = genU64().Draw(t, "page")
		case 1:
			if size > 0 {
				page = n/size + rapid.Uint64Range(0, 3).Draw(t, "poff")
			}
		case 2: // (page-1)*size wraps around 2^64 to a small value
			if size > 0 {
				k := rapid.Uint64Range(1, size).Draw(t, "k")
				q := new(big.Int).Mul(two64, bu(k))
				q.Add(q, bu(rapid.Uint64Range(0, 1000).Draw(t, "r")))
				q.Quo(q, bu(size))
				q.Add(q, big.NewInt(1))
				page = q.Uint64() + rapid.Uint64Range(0, 2).Draw(t, "pp")
			}
		default:
			page = rapid.Uint64Range(0, 200).Draw(t, "page")
		}
		empty, err := checkCal(size, page, n)
		if err != nil {
			t.Fatal(err)
		}
		nt := page > 1 && n > 0 && size > 0 && size <= 100
		if nt && empty {
			r.Count("beyond_last_page")
		}
		if nt && new(big.Int).Mul(bu(page-1), bu(size)).Cmp(two64) >= 0 {
			r.Count("product_exceeds_2^64")
		}
		r.Case(nt, []byte(fmt.Sprintf("cal/%d/%d/%d", size, page, n)))
		if r.WantSample(nt) {
			r.Sample(nt, map[string]interface{}{"kind": "cal", "size": size, "page": page, "n": n, "empty": empty})
		}
	})
}
