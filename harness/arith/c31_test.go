package arith

import (
	"fmt"
	"math"
	"math/big"
	"testing"

	"pgregory.net/rapid"

	"github.com/skycoin/skycoin/src/coin"
	"github.com/skycoin/skycoin/src/util/fee"
	"github.com/skycoin/skycoin/src/util/mathutil"

	"verif/harness/internal/ev"
	"verif/harness/internal/hx"
)

// ---------------------------------------------------------------------------
// C31 oracles (math/big only)

func checkAdd64(a, b uint64) error {
	got, err := mathutil.AddUint64(a, b)
	want := new(big.Int).Add(bu(a), bu(b))
	fits := want.Cmp(two64) < 0
	if fits != (err == nil) {
		return fmt.Errorf("AddUint64(%d,%d): err=%v but exact sum %s fits=%v", a, b, err, want, fits)
	}
	if fits && want.Uint64() != got {
		return fmt.Errorf("AddUint64(%d,%d)=%d want %s", a, b, got, want)
	}
	if !fits && err != mathutil.ErrUint64AddOverflow {
		return fmt.Errorf("AddUint64(%d,%d): wrong error %v", a, b, err)
	}
	return nil
}

func checkMul64(a, b uint64) error {
	got, err := mathutil.MultUint64(a, b)
	want := new(big.Int).Mul(bu(a), bu(b))
	fits := want.Cmp(two64) < 0
	if fits != (err == nil) {
		return fmt.Errorf("MultUint64(%d,%d): err=%v but exact product %s fits=%v", a, b, err, want, fits)
	}
	if fits && want.Uint64() != got {
		return fmt.Errorf("MultUint64(%d,%d)=%d want %s", a, b, got, want)
	}
	if !fits && err != mathutil.ErrUint64MultOverflow {
		return fmt.Errorf("MultUint64(%d,%d): wrong error %v", a, b, err)
	}
	return nil
}

func checkAdd32(a, b uint32) error {
	got, err := mathutil.AddUint32(a, b)
	want := uint64(a) + uint64(b)
	fits := want <= math.MaxUint32
	if fits != (err == nil) {
		return fmt.Errorf("AddUint32(%d,%d): err=%v, exact %d", a, b, err, want)
	}
	if fits && uint64(got) != want {
		return fmt.Errorf("AddUint32(%d,%d)=%d want %d", a, b, got, want)
	}
	return nil
}

func checkConv(a uint64) error {
	i, err := mathutil.Uint64ToInt64(a)
	fits := bu(a).Cmp(two63) < 0
	if fits != (err == nil) {
		return fmt.Errorf("Uint64ToInt64(%d): err=%v fits=%v", a, err, fits)
	}
	if fits && big.NewInt(i).Cmp(bu(a)) != 0 {
		return fmt.Errorf("Uint64ToInt64(%d)=%d", a, i)
	}
	s := int64(a) // reinterpret to reach negative values
	u, err := mathutil.Int64ToUint64(s)
	if (s >= 0) != (err == nil) {
		return fmt.Errorf("Int64ToUint64(%d): err=%v", s, err)
	}
	if s >= 0 && bu(u).Cmp(big.NewInt(s)) != 0 {
		return fmt.Errorf("Int64ToUint64(%d)=%d", s, u)
	}
	n := int(s)
	v, err := mathutil.IntToUint32(n)
	fits32 := n >= 0 && big.NewInt(int64(n)).Cmp(two32) < 0
	if fits32 != (err == nil) {
		return fmt.Errorf("IntToUint32(%d): err=%v fits=%v", n, err, fits32)
	}
	if fits32 && int64(v) != int64(n) {
		return fmt.Errorf("IntToUint32(%d)=%d", n, v)
	}
	return nil
}

func checkFee(h uint64, b uint32) error {
	if b == 0 {
		return nil
	}
	req := fee.RequiredFee(h, b)
	q, r := new(big.Int).QuoRem(bu(h), bu(uint64(b)), new(big.Int))
	if r.Sign() != 0 {
		q.Add(q, big.NewInt(1))
	}
	if bu(req).Cmp(q) != 0 {
		return fmt.Errorf("RequiredFee(%d,%d)=%d want %s", h, b, req, q)
	}
	rem := fee.RemainingHours(h, b)
	want := new(big.Int).Sub(bu(h), q)
	if want.Sign() < 0 || bu(rem).Cmp(want) != 0 {
		return fmt.Errorf("RemainingHours(%d,%d)=%d want %s", h, b, rem, want)
	}
	return nil
}

// checkFeeVerify: VerifyTransactionFeeForHours(hours, fee, burn) accepts iff fee>0,
// hours+fee fits and fee >= ceil((hours+fee)/burn).
func checkFeeVerify(hours, f uint64, b uint32) error {
	if b == 0 {
		return nil
	}
	err := fee.VerifyTransactionFeeForHours(hours, f, b)
	total := new(big.Int).Add(bu(hours), bu(f))
	ok := f != 0 && total.Cmp(two64) < 0
	if ok {
		q, r := new(big.Int).QuoRem(total, bu(uint64(b)), new(big.Int))
		if r.Sign() != 0 {
			q.Add(q, big.NewInt(1))
		}
		ok = bu(f).Cmp(q) >= 0
	}
	if ok != (err == nil) {
		return fmt.Errorf("VerifyTransactionFeeForHours(hours=%d,fee=%d,burn=%d) err=%v, model accept=%v", hours, f, b, err, ok)
	}
	return nil
}

var (
	bigE6   = big.NewInt(1e6)
	big3600 = big.NewInt(3600)
)

// checkCoinHours compares UxOut.CoinHours with hours + floor(coins*dt/3.6e9).
// Returns (class, error).
func checkCoinHours(coins, hours, t0, t uint64) (string, error) {
	ux := coin.UxOut{Head: coin.UxHead{Time: t0, BkSeq: 1}, Body: coin.UxBody{Coins: coins, Hours: hours}}
	got, err := ux.CoinHours(t)
	if t < t0 {
		// documented: no accrual backwards in time
		if err != nil || got != hours {
			return "past", fmt.Errorf("CoinHours(t<head): got %d,%v want %d", got, err, hours)
		}
		return "past", nil
	}
	dt := bu(t - t0)
	whole, frac := new(big.Int).QuoRem(bu(coins), bigE6, new(big.Int))
	p1 := new(big.Int).Mul(dt, whole)
	p2 := new(big.Int).Mul(dt, frac)
	sum := new(big.Int).Add(p1, new(big.Int).Quo(p2, bigE6))
	// exact definition from the statement
	exact := new(big.Int).Mul(bu(coins), dt)
	exact.Quo(exact, big.NewInt(3600000000))
	exact.Add(exact, bu(hours))
	// cross-check the two formulations (harness self-check)
	alt := new(big.Int).Add(new(big.Int).Quo(sum, big3600), bu(hours))
	if alt.Cmp(exact) != 0 {
		panic("harness: formulations disagree")
	}
	interOverflow := p1.Cmp(two64) >= 0 || p2.Cmp(two64) >= 0 || sum.Cmp(two64) >= 0
	finalOverflow := exact.Cmp(two64) >= 0
	class := "fits"
	if interOverflow {
		class = "intermediate_overflow"
	} else if finalOverflow {
		class = "final_overflow"
	}
	if err == nil {
		if interOverflow || finalOverflow {
			return class, fmt.Errorf("CoinHours(coins=%d,hours=%d,dt=%s) returned %d without error although class=%s (exact %s)", coins, hours, dt, got, class, exact)
		}
		if bu(got).Cmp(exact) != 0 {
			return class, fmt.Errorf("CoinHours(coins=%d,hours=%d,dt=%s)=%d want %s", coins, hours, dt, got, exact)
		}
		return class, nil
	}
	if !interOverflow && !finalOverflow {
		return class, fmt.Errorf("CoinHours(coins=%d,hours=%d,dt=%s) error %v although everything fits (exact %s)", coins, hours, dt, err, exact)
	}
	if !interOverflow && finalOverflow && err != coin.ErrAddEarnedCoinHoursAdditionOverflow {
		return class, fmt.Errorf("CoinHours final overflow reported with the wrong error: %v", err)
	}
	return class, nil
}

// ---------------------------------------------------------------------------

const ruleC31 = "pairs/triples of 64-bit values drawn with boundary bias (edge set of powers of two +-1, 2^64-j, decimal and time constants, neighbourhoods of edges, random bit widths) plus the exhaustive edge x edge grid; non-trivial = the exact result is within 2^16 of the 2^64 (or 2^32 / 2^63) boundary on either side, or an overflow class (intermediate/final) is hit, or the fee division has a non-zero remainder; distinct by argument tuple"

func nearBoundary(x *big.Int, bound *big.Int) bool {
	d := new(big.Int).Sub(x, bound)
	d.Abs(d)
	return d.Cmp(big.NewInt(1<<16)) <= 0
}

func TestC31_Grid(t *testing.T) {
	r := ev.Get("C31")
	r.Rule(ruleC31)
	r.Assume("math/big is correct")
	n := 0
	for _, a := range edges {
		for _, b := range edges {
			for _, err := range []error{checkAdd64(a, b), checkMul64(a, b), checkAdd32(uint32(a), uint32(b)), checkFee(a, uint32(b)), checkFeeVerify(a, b, 10), checkFeeVerify(a, b, uint32(a>>7)|1)} {
				if err != nil {
					t.Fatal(err)
				}
			}
			sum := new(big.Int).Add(bu(a), bu(b))
			prod := new(big.Int).Mul(bu(a), bu(b))
			nt := nearBoundary(sum, two64) || nearBoundary(prod, two64)
			r.Case(nt, []byte(fmt.Sprintf("grid/%d/%d", a, b)))
			n++
		}
		if err := checkConv(a); err != nil {
			t.Fatal(err)
		}
	}
	// coin hours grid: (coins, dt) over the edges, hours over a smaller set
	hs := []uint64{0, 1, 1 << 32, 1<<63 - 1, 1 << 63, ^uint64(0) - 1, ^uint64(0)}
	for _, c := range edges {
		for _, dt := range edges {
			for _, h := range hs {
				class, err := checkCoinHours(c, h, 1000, 1000+dt) // 1000+dt may wrap: then t<t0 branch
				if err != nil {
					t.Fatal(err)
				}
				r.Count("coinhours_" + class)
				r.Case(class != "fits" && class != "past", []byte(fmt.Sprintf("chgrid/%d/%d/%d", c, dt, h)))
				n++
			}
		}
	}
	r.Set("grid_cases", n)
	r.Sample(true, map[string]interface{}{"kind": "grid", "edge_values": len(edges), "example_pair": []uint64{edges[len(edges)-1], edges[3]}})
}

func TestC31_Random(t *testing.T) {
	r := ev.Get("C31")
	r.Rule(ruleC31)
	hx.Check(t, "C31", 40000, 3000000, func(t *rapid.T) {
		a := genU64().Draw(t, "a")
		b := genU64().Draw(t, "b")
		if err := checkAdd64(a, b); err != nil {
			t.Fatal(err)
		}
		if err := checkMul64(a, b); err != nil {
			t.Fatal(err)
		}
		if err := checkAdd32(uint32(a), uint32(b)); err != nil {
			t.Fatal(err)
		}
		if err := checkConv(a); err != nil {
			t.Fatal(err)
		}
		burn := uint32(rapid.OneOf(rapid.Uint32Range(1, 64), rapid.Uint32Range(1, math.MaxUint32), rapid.Just(uint32(math.MaxUint32))).Draw(t, "burn"))
		if err := checkFee(a, burn); err != nil {
			t.Fatal(err)
		}
		if err := checkFeeVerify(a, b, burn); err != nil {
			t.Fatal(err)
		}
		// fee exactly at the boundary: fee = ceil(total/burn) +-1 where total=a
		if a > 0 {
			req := fee.RequiredFee(a, burn)
			for _, f := range []uint64{req - 1, req, req + 1} {
				if f <= a {
					if err := checkFeeVerify(a-f, f, burn); err != nil {
						t.Fatal(err)
					}
				}
			}
		}
		sum := new(big.Int).Add(bu(a), bu(b))
		prod := new(big.Int).Mul(bu(a), bu(b))
		nt := nearBoundary(sum, two64) || nearBoundary(prod, two64) || a%uint64(burn) != 0
		r.Case(nt, []byte(fmt.Sprintf("r/%d/%d/%d", a, b, burn)))
		if r.WantSample(nt) {
			r.Sample(nt, map[string]interface{}{"kind": "arith", "a": a, "b": b, "burn": burn})
		}
	})
}

// genCoinHoursArgs is built to reach the three overflow classes, including the
// silent-wrap region where both products fit but their sum does not.
func genCoinHoursArgs(t *rapid.T) (coins, hours, t0, tt uint64) {
	mode := rapid.IntRange(0, 5).Draw(t, "mode")
	switch mode {
	case 0: // realistic
		coins = rapid.Uint64Range(0, 1e14).Draw(t, "coins")
		hours = rapid.Uint64Range(0, 1e12).Draw(t, "hours")
		t0 = rapid.Uint64Range(0, 2e9).Draw(t, "t0")
		tt = t0 + rapid.Uint64Range(0, 1e9).Draw(t, "dt")
	case 1: // products near 2^64: choose dt, derive whole coins ~ 2^64/dt
		dt := rapid.Uint64Range(1, 1<<44).Draw(t, "dt")
		w := ^uint64(0) / dt
		w = w - rapid.Uint64Range(0, 3).Draw(t, "wd") + rapid.Uint64Range(0, 3).Draw(t, "wu")
		if w > ^uint64(0)/1e6-1 {
			w = ^uint64(0)/1e6 - 1
		}
		frac := rapid.OneOf(rapid.Just(uint64(0)), rapid.Just(uint64(999999)), rapid.Uint64Range(0, 999999)).Draw(t, "frac")
		coins = w*1e6 + frac
		hours = rapid.OneOf(rapid.Just(uint64(0)), genU64()).Draw(t, "hours")
		t0 = rapid.Uint64Range(0, 1<<16).Draw(t, "t0")
		tt = t0 + dt
	case 2: // final sum near 2^64
		coins = rapid.Uint64Range(0, 1e13).Draw(t, "coins")
		dt := rapid.Uint64Range(0, 1e6).Draw(t, "dt")
		earned := new(big.Int).Mul(bu(coins), bu(dt))
		earned.Quo(earned, big.NewInt(3600000000))
		e := earned.Uint64()
		hours = ^uint64(0) - e - 2 + rapid.Uint64Range(0, 4).Draw(t, "off")
		t0 = rapid.Uint64Range(0, 1<<32).Draw(t, "t0")
		tt = t0 + dt
	case 3: // time in the past
		t0 = genU64().Draw(t, "t0")
		tt = rapid.Uint64Range(0, t0).Draw(t, "tt")
		coins = genU64().Draw(t, "coins")
		hours = genU64().Draw(t, "hours")
	default:
		coins = genU64().Draw(t, "coins")
		hours = genU64().Draw(t, "hours")
		t0 = genU64().Draw(t, "t0")
		tt = genU64().Draw(t, "tt")
	}
	return
}

func TestC31_CoinHours(t *testing.T) {
	r := ev.Get("C31")
	r.Rule(ruleC31)
	hx.Check(t, "C31", 30000, 2000000, func(t *rapid.T) {
		coins, hours, t0, tt := genCoinHoursArgs(t)
		class, err := checkCoinHours(coins, hours, t0, tt)
		if err != nil {
			t.Fatal(err)
		}
		// monotone in t (C03 uses it too): for t' >= t both fitting => value(t') >= value(t)
		if tt >= t0 && tt < ^uint64(0) {
			t2 := tt + rapid.Uint64Range(0, ^uint64(0)-tt).Draw(t, "later")
			ux := coin.UxOut{Head: coin.UxHead{Time: t0}, Body: coin.UxBody{Coins: coins, Hours: hours}}
			v1, e1 := ux.CoinHours(tt)
			v2, e2 := ux.CoinHours(t2)
			if e1 == nil && e2 == nil && v2 < v1 {
				t.Fatalf("CoinHours not monotone: t=%d -> %d, t=%d -> %d (coins=%d hours=%d t0=%d)", tt, v1, t2, v2, coins, hours, t0)
			}
			if e1 != nil && e2 == nil {
				t.Fatalf("CoinHours: overflow at t=%d (%v) but none at later t=%d", tt, e1, t2)
			}
		}
		r.Count("coinhours_" + class)
		nt := class == "intermediate_overflow" || class == "final_overflow"
		if !nt && tt >= t0 {
			ex := new(big.Int).Mul(bu(coins), bu(tt-t0))
			ex.Quo(ex, big.NewInt(3600000000))
			ex.Add(ex, bu(hours))
			nt = nearBoundary(ex, two64)
		}
		r.Case(nt, []byte(fmt.Sprintf("ch/%d/%d/%d/%d", coins, hours, t0, tt)))
		if r.WantSample(nt) {
			r.Sample(nt, map[string]interface{}{"kind": "coinhours", "coins": coins, "hours": hours, "t0": t0, "t": tt, "class": class})
		}
	})
}
