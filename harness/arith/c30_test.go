package arith

import (
	"fmt"
	"math/big"
	"regexp"
	"strconv"
	"strings"
	"testing"

	"pgregory.net/rapid"

	"github.com/skycoin/skycoin/src/util/droplet"

	"verif/harness/internal/ev"
	"verif/harness/internal/hx"
)

// numeric grammar of the reference parser: sign? digits? ('.' digits?)? (e sign? digits)? with >=1 mantissa digit
var (
	numRe   = regexp.MustCompile(`^([+-]?)([0-9]*)(?:\.([0-9]*))?(?:[eE]([+-]?[0-9]+))?$`)
	plainRe = regexp.MustCompile(`^[0-9]+(?:\.[0-9]+)?$`)
	intRe   = regexp.MustCompile(`^[0-9]+$`)
	maxI64  = new(big.Int).Sub(two63, big.NewInt(1))
)

// refParse returns (value as exact rational, ok).  ok=false: not a number in the grammar.
func refParse(s string) (*big.Rat, bool) {
	m := numRe.FindStringSubmatch(s)
	if m == nil || (m[2] == "" && m[3] == "") {
		return nil, false
	}
	digits := m[2] + m[3]
	n, ok := new(big.Int).SetString(digits, 10)
	if !ok {
		return nil, false
	}
	exp := -len(m[3])
	if m[4] != "" {
		e, err := strconv.Atoi(m[4])
		if err != nil {
			return nil, false
		}
		exp += e
	}
	r := new(big.Rat).SetInt(n)
	p := new(big.Int).Exp(big.NewInt(10), big.NewInt(int64(abs(exp))), nil)
	if exp >= 0 {
		r.Mul(r, new(big.Rat).SetInt(p))
	} else {
		r.Quo(r, new(big.Rat).SetInt(p))
	}
	if m[1] == "-" {
		r.Neg(r)
	}
	return r, true
}

func abs(x int) int {
	if x < 0 {
		return -x
	}
	return x
}

// checkFromString returns (class, error)
func checkFromString(s string) (string, error) {
	got, err := droplet.FromString(s)
	val, numeric := refParse(s)
	if !numeric {
		if err == nil {
			return "nonnumeric", fmt.Errorf("FromString(%q) accepted a non-numeric string as %d", s, got)
		}
		return "nonnumeric", nil
	}
	dr := new(big.Rat).Mul(val, big.NewRat(1000000, 1))
	exactInt := dr.IsInt()
	fits := exactInt && dr.Num().Sign() >= 0 && dr.Num().Cmp(maxI64) <= 0
	class := "representable"
	switch {
	case val.Sign() < 0:
		class = "negative"
	case !exactInt:
		class = "too_many_decimals"
	case !fits:
		class = "too_large"
	}
	if err == nil {
		// soundness: anything accepted is exact
		if val.Sign() < 0 {
			return class, fmt.Errorf("FromString(%q) accepted a negative amount as %d", s, got)
		}
		if !fits {
			return class, fmt.Errorf("FromString(%q)=%d but the exact value %s*1e6 is class %s", s, got, val.RatString(), class)
		}
		if bu(got).Cmp(dr.Num()) != 0 {
			return class, fmt.Errorf("FromString(%q)=%d want %s", s, got, dr.Num())
		}
		return class, nil
	}
	// a refusal that makes a claim about the number must be true of the number, whatever the notation
	switch err {
	case droplet.ErrTooLarge:
		if fits || !exactInt && dr.Cmp(new(big.Rat).SetInt(maxI64)) <= 0 && val.Sign() >= 0 {
			return class, fmt.Errorf("FromString(%q) says the value is too large, but %s coins = %s droplets is within the 63-bit range", s, val.RatString(), dr.RatString())
		}
	case droplet.ErrNegativeValue:
		if val.Sign() >= 0 {
			return class, fmt.Errorf("FromString(%q) says the value is negative, it is %s", s, val.RatString())
		}
	}
	// (ErrTooManyDecimals is a statement about the text, e.g. "100e-8" is written with eight places; it is not judged here)
	// completeness for the unambiguous notation: plain decimal, <= 6 fraction digits, fits
	if plainRe.MatchString(s) && fits {
		frac := ""
		if i := strings.IndexByte(s, '.'); i >= 0 {
			frac = s[i+1:]
		}
		if len(frac) <= 6 {
			return class, fmt.Errorf("FromString(%q) rejected (%v) a plain amount with <=6 decimals that fits (%s droplets)", s, err, dr.Num())
		}
	}
	return class + "_rejected", nil
}

func digitsGen(min, max int) *rapid.Generator[string] {
	return rapid.StringOfN(rapid.RuneFrom([]rune("0123456789")), min, max, -1)
}

func genAmountString() *rapid.Generator[string] {
	return rapid.Custom(func(t *rapid.T) string {
		mode := rapid.IntRange(0, 11).Draw(t, "mode")
		switch mode {
		case 10, 11: // a short mantissa times a power of ten, written with an exponent: values up to and just beyond 2^63-1 droplets
			d := rapid.Uint64Range(1, 999).Draw(t, "mant")
			z := rapid.IntRange(0, 19).Draw(t, "zeros") // droplets = d * 10^z
			e := z - 6                                  // coins = d * 10^(z-6)
			form := rapid.IntRange(0, 2).Draw(t, "form")
			switch form {
			case 0:
				return fmt.Sprintf("%de%d", d, e)
			case 1:
				return fmt.Sprintf("%dE+%d", d, e+0)
			default: // 0.d e(e+len)
				ds := strconv.FormatUint(d, 10)
				return fmt.Sprintf("0.%se%d", ds, e+len(ds))
			}
		case 0: // plain representable
			n := genU64().Draw(t, "n") >> rapid.UintRange(0, 40).Draw(t, "sh")
			s := fmt.Sprintf("%d.%06d", n/1e6, n%1e6)
			cut := rapid.IntRange(0, 6).Draw(t, "cut") // drop trailing zeros only
			for i := 0; i < cut && strings.HasSuffix(s, "0") && !strings.HasSuffix(s, ".0"); i++ {
				s = s[:len(s)-1]
			}
			if rapid.Bool().Draw(t, "lead0") {
				s = "00" + s
			}
			return s
		case 1: // around the max
			d := rapid.IntRange(-3, 3).Draw(t, "d")
			v := new(big.Int).Add(maxI64, big.NewInt(int64(d)))
			q, r := new(big.Int).QuoRem(v, bigE6, new(big.Int))
			return fmt.Sprintf("%s.%06d", q, r.Uint64())
		case 2: // grammar pieces
			sign := rapid.SampledFrom([]string{"", "", "", "+", "-"}).Draw(t, "sign")
			ip := digitsGen(0, 22).Draw(t, "int")
			s := sign + ip
			if rapid.Bool().Draw(t, "dot") {
				s += "." + digitsGen(0, 9).Draw(t, "frac")
			}
			if rapid.IntRange(0, 3).Draw(t, "hasexp") == 0 {
				s += rapid.SampledFrom([]string{"e", "E"}).Draw(t, "e") + rapid.SampledFrom([]string{"", "+", "-"}).Draw(t, "es") +
					strconv.Itoa(rapid.IntRange(0, 40).Draw(t, "exp"))
			}
			return s
		case 3: // fraction length boundary 5..8 with zero / non-zero tails
			ip := digitsGen(1, 13).Draw(t, "int")
			frac := digitsGen(5, 8).Draw(t, "frac")
			if rapid.Bool().Draw(t, "zerotail") && len(frac) > 6 {
				frac = frac[:6] + strings.Repeat("0", len(frac)-6)
			}
			return ip + "." + frac
		case 4: // one edit of a valid string
			base := fmt.Sprintf("%d.%06d", rapid.Uint64Range(0, 1e9).Draw(t, "n"), rapid.Uint64Range(0, 999999).Draw(t, "f"))
			pos := rapid.IntRange(0, len(base)).Draw(t, "pos")
			ins := rapid.SampledFrom([]string{" ", "\t", "\n", "_", ",", "-", "+", "e", ".", "x", "٣", "\x00", "1", "0", "é", "E2", "e-1", "Inf", "NaN"}).Draw(t, "ins")
			return base[:pos] + ins + base[pos:]
		case 5:
			return rapid.String().Draw(t, "s")
		case 8, 9: // one or two token insertions into a string that HAS an exponent part (signs are legal in two places there)
			base := digitsGen(0, 4).Draw(t, "int") + rapid.SampledFrom([]string{"", ".", "."}).Draw(t, "dot") + digitsGen(0, 4).Draw(t, "frac") +
				rapid.SampledFrom([]string{"e", "E"}).Draw(t, "e") + rapid.SampledFrom([]string{"", "+", "-"}).Draw(t, "es") + strconv.Itoa(rapid.IntRange(0, 8).Draw(t, "exp"))
			for k := rapid.IntRange(1, 2).Draw(t, "nins"); k > 0; k-- {
				pos := rapid.IntRange(0, len(base)).Draw(t, "pos")
				base = base[:pos] + rapid.SampledFrom([]string{"+", "-", "+", "-", ".", "e", "E", " ", "0"}).Draw(t, "ins") + base[pos:]
			}
			return base
		case 6: // exponent forms that are exactly representable
			n := rapid.Uint64Range(0, 1e12).Draw(t, "n")
			e := rapid.IntRange(-6, 6).Draw(t, "e")
			return fmt.Sprintf("%de%d", n, e)
		default:
			return rapid.StringMatching(`[0-9+\-.eE ]{0,12}`).Draw(t, "s")
		}
	})
}

const ruleC30 = "uint64 values (boundary-biased) for ToString/round-trip; strings from a decimal grammar (sign, leading zeros, 0-9 fraction digits, exponent forms |e|<=40), values around 2^63-1, single edits of valid strings, random unicode; non-trivial = string is numeric in the reference grammar and is not a plain accepted integer (has fraction/exponent/sign, or is rejected for decimals/size), or a round trip of a value >= 10^6; distinct by string/value"

func TestC30_RoundTrip(t *testing.T) {
	r := ev.Get("C30")
	r.Rule(ruleC30)
	r.Assume("reference parser: regexp grammar + math/big.Rat; exponents bounded to |e|<=40 (cost of the unbounded case is covered under C28)")
	check := func(n uint64) error {
		s, err := droplet.ToString(n)
		if bu(n).Cmp(maxI64) > 0 {
			if err == nil {
				return fmt.Errorf("ToString(%d) = %q, want error (above MaxInt64)", n, s)
			}
			return nil
		}
		if err != nil {
			return fmt.Errorf("ToString(%d): %v", n, err)
		}
		want := fmt.Sprintf("%d.%06d", n/1000000, n%1000000)
		if s != want {
			return fmt.Errorf("ToString(%d)=%q want %q", n, s, want)
		}
		back, err := droplet.FromString(s)
		if err != nil || back != n {
			return fmt.Errorf("FromString(ToString(%d)=%q) = %d,%v", n, s, back, err)
		}
		return nil
	}
	for _, e := range edges {
		if err := check(e); err != nil {
			t.Fatal(err)
		}
		r.Case(true, []byte(fmt.Sprintf("rt/%d", e)))
	}
	hx.Check(t, "C30", 20000, 1000000, func(t *rapid.T) {
		n := genU64().Draw(t, "n")
		if err := check(n); err != nil {
			t.Fatal(err)
		}
		nt := n >= 1000000
		r.Case(nt, []byte(fmt.Sprintf("rt/%d", n)))
		if r.WantSample(nt) && n%7 == 0 {
			s, _ := droplet.ToString(n)
			r.Sample(nt, map[string]interface{}{"kind": "roundtrip", "n": n, "text": s})
		}
	})
}

func TestC30_Parse(t *testing.T) {
	r := ev.Get("C30")
	r.Rule(ruleC30)
	// hand-picked regression strings first
	for _, s := range []string{"", ".", "5", "5.", ".5", "+5", "-0", "-0.0", "-1", "1e3", "1E3", "1e-3", "1e-7", "100e-8", "1.0000000", "1.00000010",
		" 5", "5 ", "0x10", "1_0", "1e", "e1", "1.2.3", "٣", "Inf", "NaN", "1,5", "00.1", "9223372036854.775807", "9223372036854.775808",
		"9223372036854.7758070", "1e18", "0.0000001", "0.0000000", "18446744073709.551615", "18446744073709.551616"} {
		class, err := checkFromString(s)
		if err != nil {
			t.Fatal(err)
		}
		r.Count("parse_" + class)
		r.Case(true, []byte("p/"+s))
	}
	hx.Check(t, "C30", 30000, 2000000, func(t *rapid.T) {
		s := genAmountString().Draw(t, "s")
		class, err := checkFromString(s)
		if err != nil {
			t.Fatal(err)
		}
		r.Count("parse_" + class)
		nt := class != "nonnumeric" && !intRe.MatchString(s)
		r.Case(nt, []byte("p/"+s))
		if r.WantSample(nt) {
			r.Sample(nt, map[string]interface{}{"kind": "parse", "text": s, "class": class})
		}
	})
}
