package arith

import (
	"testing"
	"time"

	"github.com/skycoin/skycoin/src/util/droplet"

	"verif/harness/internal/ev"
)

// Replay tier: the concrete inputs of every defect these checks have found (KNOWN_FINDINGS.txt, `fixed:` lines), run as
// plain cases that bypass the generators, so that a regression is reported whatever the generators happen to draw.

func TestC29_Regressions(t *testing.T) {
	r := ev.Get("C29")
	for _, c := range [][3]uint64{{3, 12297829382473034412, 2}, {2, 1<<63 + 1, 5}, {4, 1<<62 + 1, 3}, {1, ^uint64(0), 1}, {100, 184467440737095517, 50}} {
		if _, err := checkCal(c[0], c[1], c[2]); err != nil {
			t.Fatal(err)
		}
		r.CaseS(true, "regress/cal")
	}
}

func TestC30_Regressions(t *testing.T) {
	r := ev.Get("C30")
	for _, s := range []string{".+1", ".+1e+0", ".+1e+2", "1.-5", "-.+1", "1e+-2", "0.+0", "9223372036854.775808", "9223372036854.776000", "9223372036854.775807"} {
		if _, err := checkFromString(s); err != nil {
			t.Fatal(err)
		}
		r.CaseS(true, "regress/"+s)
	}
	// the exponent bomb must be answered at once
	for _, s := range []string{"1e50000000", "0.1e999999999", "1e-999999999", "0e99999999999"} {
		done := make(chan struct{})
		go func() { _, _ = droplet.FromString(s); close(done) }()
		select {
		case <-done:
		case <-time.After(5 * time.Second):
			t.Fatalf("FromString(%q) did not return within 5 s", s)
		}
		r.CaseS(true, "regress/"+s)
	}
}

func TestC31_Regressions(t *testing.T) {
	r := ev.Get("C31")
	if _, err := checkCoinHours(17592169267215999999, 0, 0, 1048577); err != nil {
		t.Fatal(err)
	}
	for _, b := range []uint32{2, 3, 10, 1<<32 - 1} {
		for _, h := range []uint64{^uint64(0), ^uint64(0) - 1, ^uint64(0) - uint64(b) + 1, ^uint64(0) - uint64(b) + 2} {
			if err := checkFee(h, b); err != nil {
				t.Fatal(err)
			}
		}
	}
	r.CaseS(true, "regress/coinhours+fee")
}
