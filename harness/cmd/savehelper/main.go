// savehelper performs exactly one save operation on a prepared directory.  It is run under
// `strace -e inject=...:signal=KILL:when=N` by the C20 check, which kills it at the N-th
// file-system syscall after the marker.
//
// usage: savehelper <op> <dir> [args...]
//
//	wallet-label    <dir> <walletID> <label>
//	wallet-newaddr  <dir> <walletID> <n>
//	wallet-encrypt  <dir> <walletID> <password>
//	wallet-create   <dir> <seed>
//	kv-add          <dir> <key> <value>
//	kv-remove       <dir> <key>
package main

import (
	"fmt"
	"os"
	"path/filepath"
	"runtime"
	"strconv"

	"github.com/skycoin/skycoin/src/cipher/crypto"
	"github.com/skycoin/skycoin/src/kvstorage"
	"github.com/skycoin/skycoin/src/util/logging"
	"github.com/skycoin/skycoin/src/wallet"
	_ "github.com/skycoin/skycoin/src/wallet/bip44wallet"
	_ "github.com/skycoin/skycoin/src/wallet/collection"
	_ "github.com/skycoin/skycoin/src/wallet/deterministic"
	_ "github.com/skycoin/skycoin/src/wallet/xpubwallet"
)

func die(format string, a ...interface{}) {
	fmt.Fprintf(os.Stderr, format+"\n", a...)
	os.Exit(3)
}

// marker: a recognisable syscall that separates preparation from the operation under test
func marker(dir string) {
	f, err := os.OpenFile(filepath.Join(dir, "VERIF_MARKER"), os.O_RDONLY, 0)
	if err == nil {
		f.Close()
	}
}

// every syscall of the operation is issued by the main thread, so that the per-thread
// syscall ordinals strace counts for `when=` are the same in every run
func init() { runtime.LockOSThread() }

func main() {
	logging.Disable()
	if len(os.Args) < 3 {
		die("usage")
	}
	op, dir, args := os.Args[1], os.Args[2], os.Args[3:]
	switch op {
	case "wallet-label", "wallet-newaddr", "wallet-encrypt", "wallet-create":
		cfg := wallet.NewConfig()
		cfg.WalletDir = dir
		cfg.EnableWalletAPI = true
		cfg.CryptoType = crypto.CryptoTypeSha256Xor
		s, err := wallet.NewService(cfg)
		if err != nil {
			die("NewService: %v", err)
		}
		marker(dir)
		switch op {
		case "wallet-label":
			err = s.UpdateWalletLabel(args[0], args[1])
		case "wallet-newaddr":
			n, _ := strconv.Atoi(args[1])
			_, err = s.NewAddresses(args[0], nil, wallet.OptionGenerateN(uint64(n)))
		case "wallet-encrypt":
			_, err = s.EncryptWallet(args[0], []byte(args[1]))
		case "wallet-create":
			_, err = s.CreateWallet("created.wlt", wallet.Options{Type: wallet.WalletTypeDeterministic, Seed: args[0], Label: "created", CryptoType: crypto.CryptoTypeSha256Xor, GenerateN: 2})
		}
		if err != nil {
			die("%s: %v", op, err)
		}
	case "kv-init":
		// the first start on an empty storage directory: the manager writes the initial file
		c := kvstorage.NewConfig()
		c.StorageDir = dir
		c.EnableStorageAPI = true
		c.EnabledStorages = []kvstorage.Type{kvstorage.TypeGeneral}
		marker(dir)
		if _, err := kvstorage.NewManager(c); err != nil {
			die("NewManager: %v", err)
		}
	case "kv-add", "kv-remove":
		c := kvstorage.NewConfig()
		c.StorageDir = dir
		c.EnableStorageAPI = true
		c.EnabledStorages = []kvstorage.Type{kvstorage.TypeGeneral}
		m, err := kvstorage.NewManager(c)
		if err != nil {
			die("NewManager: %v", err)
		}
		marker(dir)
		if op == "kv-add" {
			err = m.AddStorageValue(kvstorage.TypeGeneral, args[0], args[1])
		} else {
			err = m.RemoveStorageValue(kvstorage.TypeGeneral, args[0])
		}
		if err != nil {
			die("%s: %v", op, err)
		}
	default:
		die("unknown op %s", op)
	}
}
