// Package hx holds the small amount of glue shared by all property packages:
// tier / seed / shard handling, the rapid wrapper, the known-findings file and
// scratch directories.
package hx

import (
	"bufio"
	"flag"
	"fmt"
	"hash/fnv"
	"io"
	"log"
	"os"
	"path/filepath"
	"strconv"
	"strings"
	"sync"
	"testing"

	"github.com/sirupsen/logrus"
	"pgregory.net/rapid"

	"github.com/skycoin/skycoin/src/util/logging"

	"verif/harness/internal/ev"
)

// Thorough reports whether the thorough tier was requested.
func Thorough() bool { return os.Getenv("VERIF_TIER") == "thorough" }

// Seed returns VERIF_SEED (default 1).
func Seed() uint64 {
	s, err := strconv.ParseUint(os.Getenv("VERIF_SEED"), 10, 64)
	if err != nil {
		return 1
	}
	return s
}

func envInt(name string, def int) int {
	v, err := strconv.Atoi(os.Getenv(name))
	if err != nil {
		return def
	}
	return v
}

// Shard / Shards give this process's position in a sharded run.
func Shard() int  { return envInt("VERIF_SHARD", 0) }
func Shards() int { return envInt("VERIF_SHARDS", 1) }

// N picks the per-process case count for the tier: quick, or thorough/Shards.
func N(quick, thorough int) int {
	if Thorough() {
		n := thorough / Shards()
		if n < 1 {
			n = 1
		}
		return n
	}
	return quick
}

// SubSeed derives a non-zero rapid seed from VERIF_SEED, the shard and a label.
func SubSeed(label string) uint64 {
	h := fnv.New64a()
	fmt.Fprintf(h, "%d/%d/%s", Seed(), Shard(), label)
	s := h.Sum64()
	if s == 0 {
		s = 1
	}
	return s
}

// Check runs a rapid property with tier-sized case counts and a derived seed.
// When replaying (-rapid.failfile given on the command line) counts are left alone.
func Check(t *testing.T, prop string, quick, thorough int, f func(*rapid.T)) {
	t.Helper()
	n := N(quick, thorough)
	if m := envInt("VERIF_CHECKS_OVERRIDE", 0); m > 0 {
		n = m
	}
	_ = flag.Set("rapid.checks", strconv.Itoa(n))
	_ = flag.Set("rapid.seed", strconv.FormatUint(SubSeed(t.Name()), 10))
	ev.Get(prop).Requested(int64(n))
	rapid.Check(t, f)
}

// ---------------------------------------------------------------------------
// known findings

type Finding struct {
	Status string // "known" or "fixed"
	Prop   string
	Key    string
	What   string
}

var (
	kfOnce sync.Once
	kf     []Finding
)

// Findings parses $VERIF_KNOWN (lines `known: property=<id> key=<key> <what>` and
// `fixed: property=<id> <commit> <what>`).
func Findings() []Finding {
	kfOnce.Do(func() {
		p := os.Getenv("VERIF_KNOWN")
		if p == "" {
			return
		}
		f, err := os.Open(p)
		if err != nil {
			return
		}
		defer f.Close()
		sc := bufio.NewScanner(f)
		for sc.Scan() {
			line := strings.TrimSpace(sc.Text())
			if line == "" || strings.HasPrefix(line, "#") {
				continue
			}
			var fd Finding
			switch {
			case strings.HasPrefix(line, "known:"):
				fd.Status = "known"
				line = strings.TrimSpace(strings.TrimPrefix(line, "known:"))
			case strings.HasPrefix(line, "fixed:"):
				fd.Status = "fixed"
				line = strings.TrimSpace(strings.TrimPrefix(line, "fixed:"))
			default:
				continue
			}
			fields := strings.Fields(line)
			rest := []string{}
			for _, w := range fields {
				switch {
				case strings.HasPrefix(w, "property=") && fd.Prop == "":
					fd.Prop = strings.TrimPrefix(w, "property=")
				case strings.HasPrefix(w, "key=") && fd.Key == "":
					fd.Key = strings.TrimPrefix(w, "key=")
				default:
					rest = append(rest, w)
				}
			}
			fd.What = strings.Join(rest, " ")
			kf = append(kf, fd)
		}
	})
	return kf
}

// IsKnown reports whether (prop,key) is listed as a known (unrepaired) finding.
func IsKnown(prop, key string) bool {
	for _, f := range Findings() {
		if f.Status == "known" && f.Prop == prop && f.Key == key {
			return true
		}
	}
	return false
}

// ReportKnown prints the KNOWN-FINDING line for a listed finding that still reproduces.
func ReportKnown(prop, key string) {
	for _, f := range Findings() {
		if f.Status == "known" && f.Prop == prop && f.Key == key {
			line := fmt.Sprintf("KNOWN-FINDING: property=%s key=%s %s", prop, key, f.What)
			fmt.Println(line)
			ev.Get(prop).Known(line)
			return
		}
	}
}

// ---------------------------------------------------------------------------
// scratch space

var scratchRoot string

// Scratch returns a per-process scratch directory (on /dev/shm when present).
func Scratch() string {
	if scratchRoot != "" {
		return scratchRoot
	}
	base := os.Getenv("VERIF_SCRATCH")
	if base == "" {
		base = "/dev/shm"
		if st, err := os.Stat(base); err != nil || !st.IsDir() {
			base = os.TempDir()
		}
	}
	d, err := os.MkdirTemp(base, fmt.Sprintf("verif-%d-", os.Getpid()))
	if err != nil {
		panic(err)
	}
	scratchRoot = d
	return d
}

// TempDir makes a fresh directory under Scratch.
func TempDir(prefix string) string {
	d, err := os.MkdirTemp(Scratch(), prefix)
	if err != nil {
		panic(err)
	}
	return d
}

// Main is the TestMain body of every property package.
func Main(m *testing.M) {
	if os.Getenv("VERIF_KEEP_LOG") == "" {
		log.SetOutput(io.Discard)
		logging.Disable()
		logging.SetLevel(logrus.PanicLevel)
	}
	code := m.Run()
	ev.Flush()
	if scratchRoot != "" {
		_ = os.RemoveAll(scratchRoot)
	}
	os.Exit(code)
}

// ReplayDir returns the directory of hand-kept regression inputs of a property.
func ReplayDir(prop string) string {
	root := os.Getenv("VERIF_ROOT")
	if root == "" {
		root = "/verif"
	}
	return filepath.Join(root, "replays", prop)
}
