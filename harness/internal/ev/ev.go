// Package ev records what a check actually explored and writes the raw
// per-process evidence that the driver merges into /verif/evidence/<id>.json.
package ev

import (
	"crypto/sha256"
	"encoding/binary"
	"encoding/json"
	"fmt"
	"os"
	"sort"
	"sync"
	"time"
)

const maxSamples = 6
const maxHashes = 4_000_000

// Rec accumulates evidence for one property inside one test process.
type Rec struct {
	mu          sync.Mutex
	Prop        string
	level       string
	rules       []string
	assumptions []string
	evals       int64
	nt          map[uint64]struct{}
	ntOverflow  int64
	classes     map[string]int64
	samples     []interface{}
	ntSamples   int
	extra       map[string]interface{}
	requested   int64
	exhaustive  *bool
	knownLines  []string
}

var (
	regMu sync.Mutex
	reg   = map[string]*Rec{}
	start = time.Now()
)

// Get returns the recorder of a property (created on first use).
func Get(prop string) *Rec {
	regMu.Lock()
	defer regMu.Unlock()
	r, ok := reg[prop]
	if !ok {
		r = &Rec{Prop: prop, level: "exploration", nt: map[uint64]struct{}{}, classes: map[string]int64{}, extra: map[string]interface{}{}}
		reg[prop] = r
	}
	return r
}

// Level sets the claimed level of the evidence (default exploration).
func (r *Rec) Level(l string) { r.mu.Lock(); r.level = l; r.mu.Unlock() }

// Rule appends a sentence to the generation / non-triviality rule.
func (r *Rec) Rule(s string) {
	r.mu.Lock()
	defer r.mu.Unlock()
	for _, x := range r.rules {
		if x == s {
			return
		}
	}
	r.rules = append(r.rules, s)
}

// Assume records an assumption / trusted component.
func (r *Rec) Assume(s string) {
	r.mu.Lock()
	defer r.mu.Unlock()
	for _, x := range r.assumptions {
		if x == s {
			return
		}
	}
	r.assumptions = append(r.assumptions, s)
}

// Requested adds to the number of cases the run intended to generate.
func (r *Rec) Requested(n int64) { r.mu.Lock(); r.requested += n; r.mu.Unlock() }

// Exhaustive marks that (part of) the run enumerated a finite space fully.
func (r *Rec) Exhaustive(b bool) { r.mu.Lock(); r.exhaustive = &b; r.mu.Unlock() }

// Case records one evaluated case.  key identifies the case for the
// distinct count (only used when nontrivial).
func (r *Rec) Case(nontrivial bool, key []byte) {
	r.mu.Lock()
	defer r.mu.Unlock()
	r.evals++
	if nontrivial {
		h := sha256.Sum256(key)
		k := binary.LittleEndian.Uint64(h[:8])
		if len(r.nt) < maxHashes {
			r.nt[k] = struct{}{}
		} else if _, ok := r.nt[k]; !ok {
			r.ntOverflow++
		}
	}
}

// CaseS is Case with a string key.
func (r *Rec) CaseS(nontrivial bool, key string) { r.Case(nontrivial, []byte(key)) }

// Count increments a class counter.
func (r *Rec) Count(class string) { r.CountN(class, 1) }

// CountN adds n to a class counter.
func (r *Rec) CountN(class string, n int64) {
	r.mu.Lock()
	r.classes[class] += n
	r.mu.Unlock()
}

// Set stores an extra coverage key.
func (r *Rec) Set(k string, v interface{}) { r.mu.Lock(); r.extra[k] = v; r.mu.Unlock() }

// Known records a KNOWN-FINDING line that was printed.
func (r *Rec) Known(line string) {
	r.mu.Lock()
	r.knownLines = append(r.knownLines, line)
	r.mu.Unlock()
}

// WantSample reports whether another sample would be kept.
func (r *Rec) WantSample(nontrivial bool) bool {
	r.mu.Lock()
	defer r.mu.Unlock()
	if nontrivial {
		return r.ntSamples < maxSamples-1
	}
	return len(r.samples) == 0
}

// Sample keeps a rendered case (a few per run; non-trivial ones preferred).
func (r *Rec) Sample(nontrivial bool, v interface{}) {
	r.mu.Lock()
	defer r.mu.Unlock()
	if nontrivial {
		if r.ntSamples >= maxSamples-1 {
			return
		}
		r.ntSamples++
		r.samples = append(r.samples, v)
		return
	}
	if len(r.samples) == 0 {
		r.samples = append(r.samples, v)
	}
}

type raw struct {
	Prop        string                 `json:"property_id"`
	Level       string                 `json:"level"`
	Rules       []string               `json:"rules"`
	Assumptions []string               `json:"assumptions"`
	Evals       int64                  `json:"evaluations"`
	Requested   int64                  `json:"requested"`
	NT          []uint64               `json:"nt_hashes"`
	NTOverflow  int64                  `json:"nt_overflow"`
	Classes     map[string]int64       `json:"classes"`
	Samples     []interface{}          `json:"samples"`
	Extra       map[string]interface{} `json:"extra"`
	Exhaustive  *bool                  `json:"exhaustive,omitempty"`
	Known       []string               `json:"known_findings"`
	WallS       float64                `json:"wall_s"`
}

// Flush writes one raw file per property into $VERIF_EVIDENCE_DIR (if set).
func Flush() {
	dir := os.Getenv("VERIF_EVIDENCE_DIR")
	if dir == "" {
		return
	}
	shard := os.Getenv("VERIF_SHARD")
	if shard == "" {
		shard = "0"
	}
	regMu.Lock()
	defer regMu.Unlock()
	for _, r := range reg {
		r.mu.Lock()
		out := raw{Prop: r.Prop, Level: r.level, Rules: r.rules, Assumptions: r.assumptions, Evals: r.evals,
			Requested: r.requested, NTOverflow: r.ntOverflow, Classes: r.classes, Samples: r.samples, Extra: r.extra,
			Exhaustive: r.exhaustive, Known: r.knownLines, WallS: time.Since(start).Seconds()}
		out.NT = make([]uint64, 0, len(r.nt))
		for k := range r.nt {
			out.NT = append(out.NT, k)
		}
		sort.Slice(out.NT, func(i, j int) bool { return out.NT[i] < out.NT[j] })
		r.mu.Unlock()
		b, err := json.Marshal(out)
		if err != nil {
			// a sample that cannot be rendered must not lose the evidence
			out.Samples = []interface{}{fmt.Sprintf("unrenderable sample: %v", err)}
			b, _ = json.Marshal(out)
		}
		name := fmt.Sprintf("%s/%s.%s.%d.raw.json", dir, r.Prop, shard, os.Getpid())
		_ = os.WriteFile(name, b, 0o644)
	}
}
