package gen

import (
	"fmt"
	"os"
	"reflect"
	"strings"

	"pgregory.net/rapid"

	"verif/harness/internal/ref/enc"
)

func thorough() bool { return os.Getenv("VERIF_TIER") == "thorough" }

var edgeU = []uint64{0, 1, 2, 0x7f, 0x80, 0xff, 0x100, 0x7fff, 0x8000, 0xffff, 0x10000, 0x7fffffff, 0x80000000, 0xffffffff, 0x100000000, 0x7fffffffffffffff, 0x8000000000000000, 0xffffffffffffffff}

// Filler fills a value through reflection with rapid draws (used for codecs and wire messages).
type Filler struct {
	T        *rapid.T
	Boundary bool // some slice was put at a maxlen boundary
	NonEmpty bool
	Budget   int  // remaining slice elements to generate in this value
	MaxOnly  bool // boundary lengths never exceed maxlen (for values that must encode)
	n        int
}

func (g *Filler) label(s string) string { g.n++; return fmt.Sprintf("%s%d", s, g.n) }

func (g *Filler) Fill(v reflect.Value, maxlen int) {
	t := g.T
	switch v.Kind() {
	case reflect.Bool:
		v.SetBool(rapid.Bool().Draw(t, g.label("b")))
	case reflect.Uint8, reflect.Uint16, reflect.Uint32, reflect.Uint64:
		var x uint64
		if rapid.Bool().Draw(t, g.label("edge")) {
			x = rapid.SampledFrom(edgeU).Draw(t, g.label("e"))
		} else {
			x = rapid.Uint64().Draw(t, g.label("u"))
		}
		if bits := uint(v.Type().Bits()); bits < 64 {
			x &= uint64(1)<<bits - 1
		}
		v.SetUint(x)
	case reflect.Int8, reflect.Int16, reflect.Int32, reflect.Int64:
		x := rapid.Int64().Draw(t, g.label("i"))
		bits := uint(v.Type().Bits())
		v.SetInt(x << (64 - bits) >> (64 - bits))
	case reflect.Array:
		if v.Type().Elem().Kind() == reflect.Uint8 {
			b := rapid.SliceOfN(rapid.Byte(), v.Len(), v.Len()).Draw(t, g.label("arr"))
			reflect.Copy(v, reflect.ValueOf(b))
			return
		}
		for i := 0; i < v.Len(); i++ {
			g.Fill(v.Index(i), 0)
		}
	case reflect.String:
		n := g.sliceLen(maxlen, true)
		if n <= 64 {
			v.SetString(rapid.StringOfN(rapid.Rune(), n, n, -1).Draw(t, g.label("s")))
			// byte length may exceed n for multi-byte runes; that is fine (still a generated string)
		} else {
			v.SetString(strings.Repeat("a", n))
		}
		if v.Len() > 0 {
			g.NonEmpty = true
		}
	case reflect.Slice:
		cheap := v.Type().Elem().Kind() != reflect.Struct || v.Type().Elem().NumField() <= 3
		n := g.sliceLen(maxlen, cheap)
		if n == 0 {
			if rapid.Bool().Draw(t, g.label("nil")) {
				v.Set(reflect.Zero(v.Type()))
			} else {
				v.Set(reflect.MakeSlice(v.Type(), 0, 0))
			}
			return
		}
		g.NonEmpty = true
		s := reflect.MakeSlice(v.Type(), n, n)
		if v.Type().Elem().Kind() == reflect.Uint8 {
			if n <= 64 {
				reflect.Copy(s, reflect.ValueOf(rapid.SliceOfN(rapid.Byte(), n, n).Draw(t, g.label("bytes"))))
			}
			v.Set(s)
			return
		}
		for i := 0; i < n && g.Budget > 0; i++ {
			g.Budget--
			g.Fill(s.Index(i), 0)
		}
		v.Set(s)
	case reflect.Struct:
		ty := v.Type()
		for i := 0; i < ty.NumField(); i++ {
			f := ty.Field(i)
			if f.PkgPath != "" {
				continue
			}
			tag := f.Tag.Get("enc")
			if strings.HasPrefix(tag, "-") {
				continue
			}
			g.Fill(v.Field(i), enc.MaxLen(tag))
		}
	default:
		panic("genValue: unsupported kind " + v.Kind().String())
	}
}

// sliceLen picks a length; with a maxlen tag it sometimes sits on the boundary.
func (g *Filler) sliceLen(maxlen int, cheap bool) int {
	t := g.T
	if maxlen > 0 && cheap {
		lim, hit := 10, 0
		if maxlen > 1024 {
			// the 65535 limits: a value of 2-4 MB, so rare (rapid favours the ends of a range: the hit sits in the middle)
			lim, hit = 30, 13
		}
		if rapid.IntRange(0, lim).Draw(t, g.label("atmax")) == hit {
			g.Boundary = true
			hi := 1
			if g.MaxOnly {
				hi = 0
			}
			return maxlen + rapid.IntRange(-1, hi).Draw(t, g.label("maxoff"))
		}
	}
	return rapid.SampledFrom([]int{0, 0, 1, 1, 2, 3, 4, 6}).Draw(t, g.label("len"))
}
