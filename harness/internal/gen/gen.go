// Package gen holds generators shared by the property packages: cached key
// pairs, unspent outputs and signed transactions.
package gen

import (
	"crypto/sha256"
	"fmt"
	"math/big"
	"sync"

	"pgregory.net/rapid"

	"github.com/skycoin/skycoin/src/cipher"
	"github.com/skycoin/skycoin/src/coin"

	"verif/harness/internal/ref/curve"
)

// Key is a cached deterministic key pair.
type Key struct {
	Sec  cipher.SecKey
	Pub  cipher.PubKey
	Addr cipher.Address
}

var (
	keyMu    sync.Mutex
	keyCache = map[int]Key{}
)

// KeyN returns the i-th harness key pair (derived from a fixed seed, cached).
func KeyN(i int) Key {
	keyMu.Lock()
	defer keyMu.Unlock()
	if k, ok := keyCache[i]; ok {
		return k
	}
	pub, sec, err := cipher.GenerateDeterministicKeyPair([]byte(fmt.Sprintf("verif-harness-key-%d", i)))
	if err != nil {
		panic(err)
	}
	k := Key{Sec: sec, Pub: pub, Addr: cipher.AddressFromPubKey(pub)}
	keyCache[i] = k
	return k
}

// Keys returns the first n harness keys.
func Keys(n int) []Key {
	out := make([]Key, n)
	for i := range out {
		out[i] = KeyN(i)
	}
	return out
}

// SHA draws a random 32-byte hash.
func SHA(t *rapid.T, label string) cipher.SHA256 {
	var h cipher.SHA256
	copy(h[:], rapid.SliceOfN(rapid.Byte(), 32, 32).Draw(t, label))
	return h
}

// NonNullSHA draws a hash that is never all zero (also after shrinking).
func NonNullSHA(t *rapid.T, label string) cipher.SHA256 {
	h := SHA(t, label)
	if h == (cipher.SHA256{}) {
		h[31] = 1
	}
	return h
}

// Amount draws a coin/hour amount with boundary bias below `max`.
func Amount(max uint64) *rapid.Generator[uint64] {
	if max == 0 {
		return rapid.Just(uint64(0))
	}
	return rapid.OneOf(
		rapid.Uint64Range(0, max),
		rapid.Uint64Range(0, minU(max, 10)),
		rapid.Uint64Range(0, minU(max, 2000000)),
		rapid.Custom(func(t *rapid.T) uint64 { return max - rapid.Uint64Range(0, minU(max, 3)).Draw(t, "below") }),
		rapid.Custom(func(t *rapid.T) uint64 { // multiples of 1e6, 1e3
			unit := rapid.SampledFrom([]uint64{1000000, 1000, 100000}).Draw(t, "unit")
			if max < unit {
				return max
			}
			return unit * rapid.Uint64Range(0, max/unit).Draw(t, "k")
		}),
	)
}

func minU(a, b uint64) uint64 {
	if a < b {
		return a
	}
	return b
}

// Ux draws an unspent output owned by addr.
func Ux(t *rapid.T, label string, addr cipher.Address, maxCoins, maxHours uint64) coin.UxOut {
	return coin.UxOut{
		Head: coin.UxHead{
			Time:  rapid.Uint64Range(0, 1<<33).Draw(t, label+"_time"),
			BkSeq: rapid.Uint64Range(0, 1<<20).Draw(t, label+"_seq"),
		},
		Body: coin.UxBody{
			SrcTransaction: NonNullSHA(t, label+"_src"),
			Address:        addr,
			Coins:          1 + Amount(maxCoins-1).Draw(t, label+"_coins"),
			Hours:          Amount(maxHours).Draw(t, label+"_hours"),
		},
	}
}

// SignedTxn builds and fully signs a transaction spending uxs (owners[i] owns uxs[i]).
func SignedTxn(uxs []coin.UxOut, owners []Key, outs []coin.TransactionOutput) coin.Transaction {
	var txn coin.Transaction
	for _, ux := range uxs {
		if err := txn.PushInput(ux.Hash()); err != nil {
			panic(err)
		}
	}
	for _, o := range outs {
		if err := txn.PushOutput(o.Address, o.Coins, o.Hours); err != nil {
			panic(err)
		}
	}
	keys := make([]cipher.SecKey, len(owners))
	for i, k := range owners {
		keys[i] = k.Sec
	}
	txn.SignInputs(keys)
	if err := txn.UpdateHeader(); err != nil {
		panic(err)
	}
	return txn
}

// UnsignedTxn builds a transaction with null signatures and a valid header.
func UnsignedTxn(uxs []coin.UxOut, outs []coin.TransactionOutput) coin.Transaction {
	var txn coin.Transaction
	for _, ux := range uxs {
		if err := txn.PushInput(ux.Hash()); err != nil {
			panic(err)
		}
	}
	for _, o := range outs {
		if err := txn.PushOutput(o.Address, o.Coins, o.Hours); err != nil {
			panic(err)
		}
	}
	txn.Sigs = make([]cipher.Sig, len(txn.In))
	if err := txn.UpdateHeader(); err != nil {
		panic(err)
	}
	return txn
}

// DetSign signs hash with sec using a nonce derived from (sec, hash), so that generated
// transactions and blocks are identical on every replay of the same rapid case.  The signature is
// produced by the reference curve (low-s, correct recovery id) and is accepted by the code under test.
func DetSign(sec cipher.SecKey, hash cipher.SHA256) cipher.Sig {
	d := new(big.Int).SetBytes(sec[:])
	m := new(big.Int).SetBytes(hash[:])
	seed := append(append([]byte("verif-nonce"), sec[:]...), hash[:]...)
	for ctr := byte(0); ; ctr++ {
		kh := sha256.Sum256(append(seed, ctr))
		k := new(big.Int).SetBytes(kh[:])
		if !curve.ValidScalar(k) {
			continue
		}
		r, s, recid, ok := curve.Sign(d, m, k)
		if !ok {
			continue
		}
		var sig cipher.Sig
		r.FillBytes(sig[0:32])
		s.FillBytes(sig[32:64])
		sig[64] = byte(recid)
		return sig
	}
}
