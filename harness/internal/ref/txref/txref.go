// Package txref re-implements, from the wire-format documentation, the
// serialisation and hashing of transactions, outputs and block headers.  It uses
// the coin structs only as data carriers (no method of the code under test is
// called) and crypto/sha256 for every hash.
package txref

import (
	"crypto/sha256"
	"encoding/binary"

	"github.com/skycoin/skycoin/src/cipher"
	"github.com/skycoin/skycoin/src/coin"
)

type buf struct{ b []byte }

func (w *buf) u8(v uint8)   { w.b = append(w.b, v) }
func (w *buf) u32(v uint32) { w.b = binary.LittleEndian.AppendUint32(w.b, v) }
func (w *buf) u64(v uint64) { w.b = binary.LittleEndian.AppendUint64(w.b, v) }
func (w *buf) raw(v []byte) { w.b = append(w.b, v...) }

func (w *buf) addr(a cipher.Address) {
	w.u8(a.Version)
	w.raw(a.Key[:])
}

func (w *buf) ins(in []cipher.SHA256) {
	w.u32(uint32(len(in)))
	for i := range in {
		w.raw(in[i][:])
	}
}

func (w *buf) outs(out []coin.TransactionOutput) {
	w.u32(uint32(len(out)))
	for _, o := range out {
		w.addr(o.Address)
		w.u64(o.Coins)
		w.u64(o.Hours)
	}
}

// SHA is sha256 as a cipher.SHA256.
func SHA(b []byte) cipher.SHA256 { return cipher.SHA256(sha256.Sum256(b)) }

// EncodeTxn serialises a transaction: Length u32 | Type u8 | InnerHash | Sigs | In | Out (each slice u32-length prefixed).
func EncodeTxn(t *coin.Transaction) []byte {
	w := &buf{}
	w.u32(t.Length)
	w.u8(t.Type)
	w.raw(t.InnerHash[:])
	w.u32(uint32(len(t.Sigs)))
	for i := range t.Sigs {
		w.raw(t.Sigs[i][:])
	}
	w.ins(t.In)
	w.outs(t.Out)
	return w.b
}

// TxnSize is the encoded size computed arithmetically.
func TxnSize(t *coin.Transaction) uint64 {
	return 4 + 1 + 32 + 4 + 65*uint64(len(t.Sigs)) + 4 + 32*uint64(len(t.In)) + 4 + 37*uint64(len(t.Out))
}

// InnerHash = sha256(enc(In) || enc(Out)).
func InnerHash(t *coin.Transaction) cipher.SHA256 {
	w := &buf{}
	w.ins(t.In)
	w.outs(t.Out)
	return SHA(w.b)
}

// TxnHash = sha256 of the full encoding.
func TxnHash(t *coin.Transaction) cipher.SHA256 { return SHA(EncodeTxn(t)) }

// UxID is the hash of an output body: SrcTransaction | Address | Coins | Hours.
func UxID(src cipher.SHA256, a cipher.Address, coins, hours uint64) cipher.SHA256 {
	w := &buf{}
	w.raw(src[:])
	w.addr(a)
	w.u64(coins)
	w.u64(hours)
	return SHA(w.b)
}

// UxBodyID hashes a UxBody value.
func UxBodyID(b coin.UxBody) cipher.SHA256 {
	return UxID(b.SrcTransaction, b.Address, b.Coins, b.Hours)
}

// SnapshotHash = sha256(body || Time u64 || BkSeq u64).
func SnapshotHash(ux coin.UxOut) cipher.SHA256 {
	w := &buf{}
	w.raw(ux.Body.SrcTransaction[:])
	w.addr(ux.Body.Address)
	w.u64(ux.Body.Coins)
	w.u64(ux.Body.Hours)
	w.u64(ux.Head.Time)
	w.u64(ux.Head.BkSeq)
	return SHA(w.b)
}

// HeaderBytes: Version u32 | Time u64 | BkSeq u64 | Fee u64 | PrevHash | BodyHash | UxHash.
func HeaderBytes(h coin.BlockHeader) []byte {
	w := &buf{}
	w.u32(h.Version)
	w.u64(h.Time)
	w.u64(h.BkSeq)
	w.u64(h.Fee)
	w.raw(h.PrevHash[:])
	w.raw(h.BodyHash[:])
	w.raw(h.UxHash[:])
	return w.b
}

// HeaderHash = sha256(HeaderBytes).
func HeaderHash(h coin.BlockHeader) cipher.SHA256 { return SHA(HeaderBytes(h)) }

// Merkle root with zero-hash padding to the next power of two.
func Merkle(hs []cipher.SHA256) cipher.SHA256 {
	n := 1
	for n < len(hs) {
		n *= 2
	}
	level := make([]cipher.SHA256, n)
	copy(level, hs)
	for len(level) > 1 {
		next := make([]cipher.SHA256, len(level)/2)
		for i := range next {
			next[i] = SHA(append(append([]byte{}, level[2*i][:]...), level[2*i+1][:]...))
		}
		level = next
	}
	return level[0]
}

// BodyHash is the merkle root of the transaction hashes.
func BodyHash(txns []coin.Transaction) cipher.SHA256 {
	hs := make([]cipher.SHA256, len(txns))
	for i := range txns {
		hs[i] = TxnHash(&txns[i])
	}
	return Merkle(hs)
}

// XorHashes xors snapshot hashes (the unspent-set checksum).
func XorHashes(uxs []coin.UxOut) cipher.SHA256 {
	var x cipher.SHA256
	for _, ux := range uxs {
		h := SnapshotHash(ux)
		for i := range x {
			x[i] ^= h[i]
		}
	}
	return x
}

// SigHash is the message signed for input i: sha256(InnerHash || In[i]).
func SigHash(inner cipher.SHA256, in cipher.SHA256) cipher.SHA256 {
	return SHA(append(append([]byte{}, inner[:]...), in[:]...))
}
