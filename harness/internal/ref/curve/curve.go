// Package curve is a textbook secp256k1 written directly from SEC1/SEC2 with
// math/big and affine coordinates.  It shares nothing with the implementation
// under test and is used only as an oracle.
package curve

import (
	"crypto/sha256"
	"math/big"
)

var (
	P, _  = new(big.Int).SetString("FFFFFFFFFFFFFFFFFFFFFFFFFFFFFFFFFFFFFFFFFFFFFFFFFFFFFFFEFFFFFC2F", 16)
	N, _  = new(big.Int).SetString("FFFFFFFFFFFFFFFFFFFFFFFFFFFFFFFEBAAEDCE6AF48A03BBFD25E8CD0364141", 16)
	Gx, _ = new(big.Int).SetString("79BE667EF9DCBBAC55A06295CE870B07029BFCDB2DCE28D959F2815B16F81798", 16)
	Gy, _ = new(big.Int).SetString("483ADA7726A3C4655DA4FBFC0E1108A8FD17B448A68554199C47D08FFB10D4B8", 16)
	// HalfN = floor(N/2)
	HalfN = new(big.Int).Rsh(N, 1)
	seven = big.NewInt(7)
	// (P+1)/4 for square roots (P = 3 mod 4)
	sqrtExp = new(big.Int).Rsh(new(big.Int).Add(P, big.NewInt(1)), 2)
)

// Point is an affine point or the point at infinity.
type Point struct {
	X, Y *big.Int
	Inf  bool
}

// G returns the generator.
func G() Point { return Point{X: new(big.Int).Set(Gx), Y: new(big.Int).Set(Gy)} }

// Infinity returns the neutral element.
func Infinity() Point { return Point{Inf: true} }

func mod(x *big.Int) *big.Int { return x.Mod(x, P) }

// OnCurve reports y^2 == x^3+7 (mod p) with 0 <= x,y < p.
func (a Point) OnCurve() bool {
	if a.Inf {
		return false
	}
	if a.X.Sign() < 0 || a.X.Cmp(P) >= 0 || a.Y.Sign() < 0 || a.Y.Cmp(P) >= 0 {
		return false
	}
	l := new(big.Int).Mul(a.Y, a.Y)
	mod(l)
	r := new(big.Int).Mul(a.X, a.X)
	r.Mul(r, a.X)
	r.Add(r, seven)
	mod(r)
	return l.Cmp(r) == 0
}

// Equal compares two points.
func (a Point) Equal(b Point) bool {
	if a.Inf || b.Inf {
		return a.Inf == b.Inf
	}
	return a.X.Cmp(b.X) == 0 && a.Y.Cmp(b.Y) == 0
}

// Neg returns -a.
func (a Point) Neg() Point {
	if a.Inf {
		return a
	}
	y := new(big.Int).Sub(P, a.Y)
	mod(y)
	return Point{X: new(big.Int).Set(a.X), Y: y}
}

// Add returns a+b (handles doubling, inverses and infinity).
func Add(a, b Point) Point {
	if a.Inf {
		return b
	}
	if b.Inf {
		return a
	}
	var lambda *big.Int
	if a.X.Cmp(b.X) == 0 {
		if a.Y.Cmp(b.Y) != 0 || a.Y.Sign() == 0 {
			return Infinity()
		}
		// tangent: 3x^2 / 2y
		num := new(big.Int).Mul(a.X, a.X)
		num.Mul(num, big.NewInt(3))
		den := new(big.Int).Lsh(a.Y, 1)
		mod(den)
		den.ModInverse(den, P)
		lambda = mod(num.Mul(num, den))
	} else {
		num := new(big.Int).Sub(b.Y, a.Y)
		den := new(big.Int).Sub(b.X, a.X)
		mod(den)
		den.ModInverse(den, P)
		lambda = mod(num.Mul(num, den))
	}
	x := new(big.Int).Mul(lambda, lambda)
	x.Sub(x, a.X)
	x.Sub(x, b.X)
	mod(x)
	y := new(big.Int).Sub(a.X, x)
	y.Mul(y, lambda)
	y.Sub(y, a.Y)
	mod(y)
	return Point{X: x, Y: y}
}

// Mul returns k*a by double-and-add (k taken as a non-negative integer, not reduced).
func Mul(k *big.Int, a Point) Point {
	r := Infinity()
	if k.Sign() == 0 || a.Inf {
		return r
	}
	for i := k.BitLen() - 1; i >= 0; i-- {
		r = Add(r, r)
		if k.Bit(i) == 1 {
			r = Add(r, a)
		}
	}
	return r
}

// LiftX returns the point with the given x and y parity, if x < p is on the curve.
func LiftX(x *big.Int, odd bool) (Point, bool) {
	if x.Sign() < 0 || x.Cmp(P) >= 0 {
		return Point{}, false
	}
	rhs := new(big.Int).Mul(x, x)
	rhs.Mul(rhs, x)
	rhs.Add(rhs, seven)
	mod(rhs)
	y := new(big.Int).Exp(rhs, sqrtExp, P)
	chk := new(big.Int).Mul(y, y)
	mod(chk)
	if chk.Cmp(rhs) != 0 {
		return Point{}, false
	}
	if (y.Bit(0) == 1) != odd {
		y.Sub(P, y)
		mod(y)
	}
	return Point{X: new(big.Int).Set(x), Y: y}, true
}

// ParseCompressed decodes a 33-byte SEC1 compressed point.
func ParseCompressed(b []byte) (Point, bool) {
	if len(b) != 33 || (b[0] != 2 && b[0] != 3) {
		return Point{}, false
	}
	x := new(big.Int).SetBytes(b[1:])
	return LiftX(x, b[0] == 3)
}

// Compress encodes a finite point.
func Compress(a Point) []byte {
	out := make([]byte, 33)
	out[0] = 2
	if a.Y.Bit(0) == 1 {
		out[0] = 3
	}
	a.X.FillBytes(out[1:])
	return out
}

// ValidScalar reports 1 <= d < n.
func ValidScalar(d *big.Int) bool { return d.Sign() > 0 && d.Cmp(N) < 0 }

// PubKey returns compress(d*G) for a valid secret scalar.
func PubKey(d *big.Int) []byte { return Compress(Mul(d, G())) }

// Sign computes the ECDSA signature for nonce k with low-s normalisation and the
// recovery id (bit0 = parity of R.y after normalisation, bit1 = R.x >= n).
// ok=false if r or s is zero.
func Sign(d, m, k *big.Int) (r, s *big.Int, recid int, ok bool) {
	R := Mul(k, G())
	if R.Inf {
		return nil, nil, 0, false
	}
	r = new(big.Int).Mod(R.X, N)
	if r.Sign() == 0 {
		return nil, nil, 0, false
	}
	if R.X.Cmp(N) >= 0 {
		recid |= 2
	}
	if R.Y.Bit(0) == 1 {
		recid |= 1
	}
	s = new(big.Int).Mul(r, d)
	s.Add(s, m)
	s.Mod(s, N)
	kinv := new(big.Int).ModInverse(k, N)
	s.Mul(s, kinv)
	s.Mod(s, N)
	if s.Sign() == 0 {
		return nil, nil, 0, false
	}
	if s.Cmp(HalfN) > 0 {
		s.Sub(N, s)
		recid ^= 1
	}
	return r, s, recid, true
}

// Verify is textbook ECDSA verification (no low-s rule).
func Verify(q Point, m, r, s *big.Int) bool {
	if q.Inf || !q.OnCurve() || !ValidScalar(r) || !ValidScalar(s) {
		return false
	}
	sinv := new(big.Int).ModInverse(s, N)
	u1 := new(big.Int).Mul(m, sinv)
	u1.Mod(u1, N)
	u2 := new(big.Int).Mul(r, sinv)
	u2.Mod(u2, N)
	X := Add(Mul(u1, G()), Mul(u2, q))
	if X.Inf {
		return false
	}
	v := new(big.Int).Mod(X.X, N)
	return v.Cmp(r) == 0
}

// Recover implements SEC1 4.1.6 for recid in 0..3.
func Recover(m, r, s *big.Int, recid int) (Point, bool) {
	if !ValidScalar(r) || !ValidScalar(s) || recid < 0 || recid > 3 {
		return Point{}, false
	}
	x := new(big.Int).Set(r)
	if recid&2 != 0 {
		x.Add(x, N)
	}
	R, ok := LiftX(x, recid&1 == 1)
	if !ok {
		return Point{}, false
	}
	rinv := new(big.Int).ModInverse(r, N)
	// Q = r^-1 (s R - m G)
	mm := new(big.Int).Mod(m, N)
	q := Add(Mul(s, R), Mul(mm, G()).Neg())
	q = Mul(rinv, q)
	if q.Inf {
		return Point{}, false
	}
	return q, true
}

// ECDHPoint returns compress(d*Q).
func ECDHPoint(q Point, d *big.Int) ([]byte, bool) {
	p := Mul(d, q)
	if p.Inf {
		return nil, false
	}
	return Compress(p), true
}

func sha(b []byte) []byte { h := sha256.Sum256(b); return h[:] }

// iterStep is the documented "hash until the digest is a valid secret key" step.
func iterStep(seed []byte) (pub []byte, sec []byte) {
	for {
		seed = sha(seed)
		d := new(big.Int).SetBytes(seed)
		if ValidScalar(d) {
			return PubKey(d), append([]byte(nil), seed...)
		}
	}
}

// Secp256k1Hash as documented: SHA256(SHA256(seed) || ECDH(step(SHA256(SHA256(seed))).pub, step(SHA256(seed)).sec)).
func Secp256k1Hash(seed []byte) []byte {
	hash := sha(seed)
	_, sec := iterStep(hash)
	pub, _ := iterStep(sha(hash))
	q, _ := ParseCompressed(pub)
	ecdh, _ := ECDHPoint(q, new(big.Int).SetBytes(sec))
	return sha(append(append([]byte(nil), hash...), ecdh...))
}

// DeterministicKeyPairIterator returns (next seed, pubkey, seckey) as documented.
func DeterministicKeyPairIterator(seedIn []byte) (next, pub, sec []byte) {
	seed1 := Secp256k1Hash(seedIn)
	seed2 := sha(append(append([]byte(nil), seedIn...), seed1...))
	pub, sec = iterStep(seed2)
	return seed1, pub, sec
}
