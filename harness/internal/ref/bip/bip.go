// Package bip is a reference implementation of BIP39 (English, ASCII only),
// BIP32 and BIP44 written from the specifications on top of the textbook curve.
package bip

import (
	"crypto/hmac"
	"crypto/sha256"
	"crypto/sha512"
	"encoding/binary"
	"errors"
	"math/big"
	"strings"

	"golang.org/x/crypto/ripemd160"

	"verif/harness/internal/ref/curve"
)

// PBKDF2 with HMAC-SHA512 (RFC 8018) from stdlib HMAC.
func PBKDF2SHA512(password, salt []byte, iter, keyLen int) []byte {
	prf := hmac.New(sha512.New, password)
	hLen := prf.Size()
	var out []byte
	for block := 1; len(out) < keyLen; block++ {
		prf.Reset()
		prf.Write(salt)
		var ctr [4]byte
		binary.BigEndian.PutUint32(ctr[:], uint32(block))
		prf.Write(ctr[:])
		u := prf.Sum(nil)
		t := append([]byte(nil), u...)
		for i := 1; i < iter; i++ {
			prf.Reset()
			prf.Write(u)
			u = prf.Sum(nil)
			for j := range t {
				t[j] ^= u[j]
			}
		}
		out = append(out, t[:hLen]...)
	}
	return out[:keyLen]
}

// ---------------------------------------------------------------------------
// BIP39

// Mnemonic returns the sentence for entropy of 16,20,24,28 or 32 bytes.
func Mnemonic(words []string, entropy []byte) (string, bool) {
	n := len(entropy) * 8
	if n%32 != 0 || n < 128 || n > 256 {
		return "", false
	}
	sum := sha256.Sum256(entropy)
	bits := make([]byte, 0, n+n/32)
	for _, b := range entropy {
		for i := 7; i >= 0; i-- {
			bits = append(bits, (b>>uint(i))&1)
		}
	}
	for i := 0; i < n/32; i++ {
		bits = append(bits, (sum[i/8]>>uint(7-i%8))&1)
	}
	var out []string
	for i := 0; i < len(bits); i += 11 {
		idx := 0
		for j := 0; j < 11; j++ {
			idx = idx<<1 | int(bits[i+j])
		}
		out = append(out, words[idx])
	}
	return strings.Join(out, " "), true
}

// Entropy validates a sentence (single ASCII spaces, 12..24 words in steps of 3, all
// words known, checksum correct) and returns its entropy.
func Entropy(words []string, sentence string) ([]byte, bool) {
	idx := map[string]int{}
	for i, w := range words {
		idx[w] = i
	}
	if sentence != strings.TrimSpace(sentence) {
		return nil, false
	}
	ws := strings.Split(sentence, " ")
	if len(ws)%3 != 0 || len(ws) < 12 || len(ws) > 24 {
		return nil, false
	}
	var bits []byte
	for _, w := range ws {
		i, ok := idx[w]
		if !ok {
			return nil, false
		}
		for j := 10; j >= 0; j-- {
			bits = append(bits, byte(i>>uint(j))&1)
		}
	}
	cs := len(bits) / 33
	ent := len(bits) - cs
	entropy := make([]byte, ent/8)
	for i := 0; i < ent; i++ {
		entropy[i/8] |= bits[i] << uint(7-i%8)
	}
	sum := sha256.Sum256(entropy)
	for i := 0; i < cs; i++ {
		if bits[ent+i] != (sum[i/8]>>uint(7-i%8))&1 {
			return nil, false
		}
	}
	return entropy, true
}

// Seed is PBKDF2(mnemonic, "mnemonic"+passphrase, 2048, 64) - NFKD is the identity on ASCII.
func Seed(mnemonic, passphrase string) []byte {
	return PBKDF2SHA512([]byte(mnemonic), []byte("mnemonic"+passphrase), 2048, 64)
}

// ---------------------------------------------------------------------------
// BIP32

const Hardened = uint32(0x80000000)

// XKey is an extended key (private if Priv != nil).
type XKey struct {
	Priv      *big.Int    // nil for public keys
	Pub       curve.Point // always set
	Chain     []byte
	Depth     byte
	ParentFP  []byte
	ChildNum  uint32
	IsPrivate bool
}

var ErrInvalidChild = errors.New("invalid child (IL >= n or zero key / infinity)")

func hmac512(key, data []byte) []byte {
	m := hmac.New(sha512.New, key)
	m.Write(data)
	return m.Sum(nil)
}

func hash160(b []byte) []byte {
	s := sha256.Sum256(b)
	r := ripemd160.New()
	r.Write(s[:])
	return r.Sum(nil)
}

func ser32(i uint32) []byte { var b [4]byte; binary.BigEndian.PutUint32(b[:], i); return b[:] }

func ser256(x *big.Int) []byte { b := make([]byte, 32); x.FillBytes(b); return b }

// Master derives the master key from a seed.
func Master(seed []byte) (*XKey, error) {
	I := hmac512([]byte("Bitcoin seed"), seed)
	k := new(big.Int).SetBytes(I[:32])
	if !curve.ValidScalar(k) {
		return nil, ErrInvalidChild
	}
	return &XKey{Priv: k, Pub: curve.Mul(k, curve.G()), Chain: I[32:], Depth: 0, ParentFP: []byte{0, 0, 0, 0}, ChildNum: 0, IsPrivate: true}, nil
}

// Fingerprint = first 4 bytes of HASH160(serP(K)).
func (k *XKey) Fingerprint() []byte { return hash160(curve.Compress(k.Pub))[:4] }

// Identifier = HASH160(serP(K)).
func (k *XKey) Identifier() []byte { return hash160(curve.Compress(k.Pub)) }

// CKDpriv derives a private child.
func (k *XKey) CKDpriv(i uint32) (*XKey, error) {
	if !k.IsPrivate {
		return nil, errors.New("not a private key")
	}
	var data []byte
	if i >= Hardened {
		data = append(append([]byte{0}, ser256(k.Priv)...), ser32(i)...)
	} else {
		data = append(curve.Compress(k.Pub), ser32(i)...)
	}
	I := hmac512(k.Chain, data)
	il := new(big.Int).SetBytes(I[:32])
	if il.Cmp(curve.N) >= 0 {
		return nil, ErrInvalidChild
	}
	ki := new(big.Int).Add(il, k.Priv)
	ki.Mod(ki, curve.N)
	if ki.Sign() == 0 {
		return nil, ErrInvalidChild
	}
	return &XKey{Priv: ki, Pub: curve.Mul(ki, curve.G()), Chain: I[32:], Depth: k.Depth + 1, ParentFP: k.Fingerprint(), ChildNum: i, IsPrivate: true}, nil
}

// Neuter returns the extended public key.
func (k *XKey) Neuter() *XKey {
	c := *k
	c.Priv = nil
	c.IsPrivate = false
	return &c
}

// CKDpub derives a public child from a public parent (non-hardened only).
func (k *XKey) CKDpub(i uint32) (*XKey, error) {
	if i >= Hardened {
		return nil, errors.New("hardened child of a public key")
	}
	I := hmac512(k.Chain, append(curve.Compress(k.Pub), ser32(i)...))
	il := new(big.Int).SetBytes(I[:32])
	if il.Cmp(curve.N) >= 0 {
		return nil, ErrInvalidChild
	}
	p := curve.Add(curve.Mul(il, curve.G()), k.Pub)
	if p.Inf {
		return nil, ErrInvalidChild
	}
	return &XKey{Pub: p, Chain: I[32:], Depth: k.Depth + 1, ParentFP: k.Fingerprint(), ChildNum: i}, nil
}

// Serialize gives the 82 bytes (78 + 4 checksum) that are then base58 encoded.
func (k *XKey) Serialize() []byte {
	var out []byte
	if k.IsPrivate {
		out = append(out, 0x04, 0x88, 0xAD, 0xE4)
	} else {
		out = append(out, 0x04, 0x88, 0xB2, 0x1E)
	}
	out = append(out, k.Depth)
	out = append(out, k.ParentFP...)
	out = append(out, ser32(k.ChildNum)...)
	out = append(out, k.Chain...)
	if k.IsPrivate {
		out = append(out, 0)
		out = append(out, ser256(k.Priv)...)
	} else {
		out = append(out, curve.Compress(k.Pub)...)
	}
	h1 := sha256.Sum256(out)
	h2 := sha256.Sum256(h1[:])
	return append(out, h2[:4]...)
}

// Derive walks a list of child numbers from k.
func (k *XKey) Derive(path []uint32) (*XKey, error) {
	cur := k
	for _, i := range path {
		n, err := cur.CKDpriv(i)
		if err != nil {
			return nil, err
		}
		cur = n
	}
	return cur, nil
}

// HardenedChildScalar computes only the private scalar of the hardened child i of k (no curve operation),
// for cheap searches over many indices.  ok=false when the index yields no valid key.
func (k *XKey) HardenedChildScalar(i uint32) (ki *big.Int, ok bool) {
	data := append(append([]byte{0}, ser256(k.Priv)...), ser32(i)...)
	I := hmac512(k.Chain, data)
	il := new(big.Int).SetBytes(I[:32])
	if il.Cmp(curve.N) >= 0 {
		return nil, false
	}
	ki = new(big.Int).Add(il, k.Priv)
	ki.Mod(ki, curve.N)
	return ki, ki.Sign() != 0
}
