// Package ledger is the in-memory reference model of one skycoin node: accepted
// chain, unspent set, spent map and unconfirmed pool.  It is written from the
// documented rules on top of harness/internal/ref/rules (math/big) and
// harness/internal/ref/txref (own serialisation and hashing); it never calls the
// code under test.
package ledger

import (
	"math/big"
	"sort"

	"github.com/skycoin/skycoin/src/cipher"
	"github.com/skycoin/skycoin/src/coin"

	"verif/harness/internal/ref/rules"
	"verif/harness/internal/ref/txref"
)

// Spent records where an output was spent.
type Spent struct {
	Ux       coin.UxOut
	BlockSeq uint64
	Txn      cipher.SHA256
}

// PoolEntry is one unconfirmed transaction.
type PoolEntry struct {
	Txn   coin.Transaction
	Valid bool // passes hard+soft rules at the time of the last (re)check
}

// Config of a modelled node.
type Config struct {
	Pubkey        []byte // 33-byte publisher key
	Locked        map[cipher.Address]bool
	Unconfirmed   rules.SoftParams // parameters for network-received transactions
	User          rules.SoftParams // parameters for user-submitted transactions
	CreateBlock   rules.SoftParams // parameters when assembling blocks
	MaxBlockSize  uint32
	GenesisVolume uint64
}

// Model is the reference state of one node.
type Model struct {
	Cfg    Config
	Blocks []coin.SignedBlock
	Utxo   map[cipher.SHA256]coin.UxOut
	Spent  map[cipher.SHA256]Spent
	Pool   map[cipher.SHA256]*PoolEntry
	// Created lists every output ever created (id -> creating block seq)
	Created map[cipher.SHA256]uint64
}

// New creates an empty model.
func New(cfg Config) *Model {
	return &Model{Cfg: cfg, Utxo: map[cipher.SHA256]coin.UxOut{}, Spent: map[cipher.SHA256]Spent{}, Pool: map[cipher.SHA256]*PoolEntry{}, Created: map[cipher.SHA256]uint64{}}
}

// Clone deep-copies the model (blocks are immutable values).
func (m *Model) Clone() *Model {
	c := New(m.Cfg)
	c.Blocks = append([]coin.SignedBlock(nil), m.Blocks...)
	for k, v := range m.Utxo {
		c.Utxo[k] = v
	}
	for k, v := range m.Spent {
		c.Spent[k] = v
	}
	for k, v := range m.Pool {
		e := *v
		c.Pool[k] = &e
	}
	for k, v := range m.Created {
		c.Created[k] = v
	}
	return c
}

// Head returns the last accepted block.
func (m *Model) Head() *coin.SignedBlock {
	if len(m.Blocks) == 0 {
		return nil
	}
	return &m.Blocks[len(m.Blocks)-1]
}

// UxHash is the xor checksum of the current unspent set.
func (m *Model) UxHash() cipher.SHA256 {
	uxs := make([]coin.UxOut, 0, len(m.Utxo))
	for _, ux := range m.Utxo {
		uxs = append(uxs, ux)
	}
	return txref.XorHashes(uxs)
}

// SortedUtxo returns the unspent outputs ordered by id.
func (m *Model) SortedUtxo() []coin.UxOut {
	ids := make([]cipher.SHA256, 0, len(m.Utxo))
	for id := range m.Utxo {
		ids = append(ids, id)
	}
	sort.Slice(ids, func(i, j int) bool { return string(ids[i][:]) < string(ids[j][:]) })
	out := make([]coin.UxOut, len(ids))
	for i, id := range ids {
		out[i] = m.Utxo[id]
	}
	return out
}

// AddGenesis installs the genesis block without checks (a node creates it itself).
func (m *Model) AddGenesis(sb coin.SignedBlock) {
	m.Blocks = append(m.Blocks, sb)
	for _, txn := range sb.Body.Transactions {
		for _, o := range txn.Out {
			ux := coin.UxOut{Head: coin.UxHead{Time: sb.Head.Time, BkSeq: 0}, Body: coin.UxBody{Address: o.Address, Coins: o.Coins, Hours: o.Hours}}
			id := txref.UxBodyID(ux.Body)
			m.Utxo[id] = ux
			m.Created[id] = 0
		}
	}
}

// Resolve looks the inputs of txn up in the unspent set.
func (m *Model) Resolve(txn *coin.Transaction) ([]coin.UxOut, bool) {
	out := make([]coin.UxOut, len(txn.In))
	for i, in := range txn.In {
		ux, ok := m.Utxo[in]
		if !ok {
			return nil, false
		}
		out[i] = ux
	}
	return out, true
}

func (m *Model) signedByPublisher(sb *coin.SignedBlock) bool {
	a, ok := rules.SigSigner(sb.Sig, txref.HeaderHash(sb.Head))
	if !ok {
		return false
	}
	return a == rules.AddrOfPub(m.Cfg.Pubkey)
}

// CheckBlock decides whether a non-arbitrating node must accept sb as the next block.
func (m *Model) CheckBlock(sb *coin.SignedBlock) (bool, string) {
	head := m.Head()
	if head == nil {
		return false, "no genesis"
	}
	if !m.signedByPublisher(sb) {
		return false, "signature"
	}
	if txref.HeaderHash(sb.Head) == txref.HeaderHash(m.Blocks[0].Head) {
		return false, "second genesis"
	}
	if sb.Head.BkSeq != head.Head.BkSeq+1 {
		return false, "sequence"
	}
	if sb.Head.Time <= head.Head.Time {
		return false, "time"
	}
	if sb.Head.PrevHash != txref.HeaderHash(head.Head) {
		return false, "parent"
	}
	if sb.Head.BodyHash != txref.BodyHash(sb.Body.Transactions) {
		return false, "body hash"
	}
	if len(sb.Body.Transactions) == 0 {
		return false, "no transactions"
	}
	spentHere := map[cipher.SHA256]bool{}
	createdHere := map[cipher.SHA256]bool{}
	for i := range sb.Body.Transactions {
		txn := &sb.Body.Transactions[i]
		uxIn, ok := m.Resolve(txn)
		if !ok {
			return false, "input not unspent"
		}
		if ok, why := rules.Hard(txn, head.Head.Time, uxIn, true, rules.InBlock); !ok {
			return false, "hard rule: " + why
		}
		h := txref.TxnHash(txn)
		for _, o := range txn.Out {
			id := txref.UxID(h, o.Address, o.Coins, o.Hours)
			if createdHere[id] {
				return false, "duplicate output across transactions"
			}
			if _, exists := m.Utxo[id]; exists {
				return false, "output id exists"
			}
			createdHere[id] = true
		}
	}
	for i := range sb.Body.Transactions {
		for _, in := range sb.Body.Transactions[i].In {
			if spentHere[in] {
				return false, "double spend inside the block"
			}
			spentHere[in] = true
		}
	}
	if sb.Head.UxHash != m.UxHash() {
		return false, "unspent checksum"
	}
	return true, ""
}

// Apply appends an accepted block (no checks).
func (m *Model) Apply(sb coin.SignedBlock) {
	for i := range sb.Body.Transactions {
		txn := &sb.Body.Transactions[i]
		h := txref.TxnHash(txn)
		for _, in := range txn.In {
			if ux, ok := m.Utxo[in]; ok {
				m.Spent[in] = Spent{Ux: ux, BlockSeq: sb.Head.BkSeq, Txn: h}
				delete(m.Utxo, in)
			}
		}
		for _, o := range txn.Out {
			ux := coin.UxOut{Head: coin.UxHead{Time: sb.Head.Time, BkSeq: sb.Head.BkSeq}, Body: coin.UxBody{SrcTransaction: h, Address: o.Address, Coins: o.Coins, Hours: o.Hours}}
			id := txref.UxBodyID(ux.Body)
			m.Utxo[id] = ux
			m.Created[id] = sb.Head.BkSeq
		}
		delete(m.Pool, h)
	}
	m.Blocks = append(m.Blocks, sb)
}

// HardSingle evaluates the pool-admission hard rules at the current head.
func (m *Model) HardSingle(txn *coin.Transaction) (bool, string) {
	uxIn, ok := m.Resolve(txn)
	if !ok {
		return false, "input not unspent"
	}
	return rules.Hard(txn, m.Head().Head.Time, uxIn, true, rules.Single)
}

// SoftAt evaluates the soft rules at the current head (inputs must resolve).
func (m *Model) SoftAt(txn *coin.Transaction, p rules.SoftParams) (bool, string) {
	uxIn, ok := m.Resolve(txn)
	if !ok {
		return false, "input not unspent"
	}
	return rules.Soft(txn, m.Head().Head.Time, uxIn, m.Cfg.Locked, p)
}

// InjectForeign models a transaction received from the network.
// admitted=false: rejected, pool unchanged.
func (m *Model) InjectForeign(txn coin.Transaction) (admitted, known, softOK bool, why string) {
	if ok, w := m.HardSingle(&txn); !ok {
		return false, false, false, w
	}
	softOK, why = m.SoftAt(&txn, m.Cfg.Unconfirmed)
	h := txref.TxnHash(&txn)
	if e, ok := m.Pool[h]; ok {
		e.Valid = softOK
		return true, true, softOK, why
	}
	m.Pool[h] = &PoolEntry{Txn: txn, Valid: softOK}
	return true, false, softOK, why
}

// InjectUser models a transaction submitted by the local user.
func (m *Model) InjectUser(txn coin.Transaction) (admitted, known bool, why string) {
	for _, o := range txn.Out {
		if o.Address == (cipher.Address{}) {
			return false, false, "null address output"
		}
	}
	if ok, w := m.HardSingle(&txn); !ok {
		return false, false, w
	}
	if ok, w := m.SoftAt(&txn, m.Cfg.User); !ok {
		return false, false, "soft: " + w
	}
	h := txref.TxnHash(&txn)
	if e, ok := m.Pool[h]; ok {
		e.Valid = true
		return true, true, ""
	}
	m.Pool[h] = &PoolEntry{Txn: txn, Valid: true}
	return true, false, ""
}

// Refresh recomputes the validity flags.
func (m *Model) Refresh() {
	for _, e := range m.Pool {
		ok, _ := m.HardSingle(&e.Txn)
		if ok {
			ok, _ = m.SoftAt(&e.Txn, m.Cfg.Unconfirmed)
		}
		e.Valid = ok
	}
}

// RemoveInvalid drops the entries that violate a hard rule.
func (m *Model) RemoveInvalid() []cipher.SHA256 {
	var removed []cipher.SHA256
	for h, e := range m.Pool {
		if ok, _ := m.HardSingle(&e.Txn); !ok {
			removed = append(removed, h)
		}
	}
	for _, h := range removed {
		delete(m.Pool, h)
	}
	return removed
}

// TotalCoins sums the unspent set.
func (m *Model) TotalCoins() *big.Int {
	s := new(big.Int)
	for _, ux := range m.Utxo {
		s.Add(s, new(big.Int).SetUint64(ux.Body.Coins))
	}
	return s
}

// FeeOf returns in-hours(at the head) minus out-hours for a transaction whose inputs resolve; ok=false otherwise.
func (m *Model) FeeOf(txn *coin.Transaction) (*big.Int, bool) {
	uxIn, ok := m.Resolve(txn)
	if !ok {
		return nil, false
	}
	in := new(big.Int)
	for _, ux := range uxIn {
		v, c := rules.Accrued(ux, m.Head().Head.Time)
		if c != rules.AccrueOK {
			return nil, false
		}
		in.Add(in, v)
	}
	out := new(big.Int)
	for _, o := range txn.Out {
		out.Add(out, new(big.Int).SetUint64(o.Hours))
	}
	if in.Cmp(out) < 0 || in.Cmp(rules.Two64) >= 0 {
		return nil, false
	}
	return in.Sub(in, out), true
}
