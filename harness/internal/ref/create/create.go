// Package create holds the oracle for a transaction built from a spend request (property C12), shared by the
// function-level check (harness/txn) and the node-level check (harness/api).  It is written from the property text and
// the documentation of transaction.Create, on top of the reference rules (rules, txref) and math/big.
package create

import (
	"bytes"
	"fmt"
	"math/big"
	"sort"

	"github.com/skycoin/skycoin/src/cipher"
	"github.com/skycoin/skycoin/src/coin"
	"github.com/skycoin/skycoin/src/transaction"

	"verif/harness/internal/ref/rules"
	"verif/harness/internal/ref/txref"
)

var one = big.NewInt(1)

func bu(v uint64) *big.Int { return new(big.Int).SetUint64(v) }

func ceilDiv(a, b *big.Int) *big.Int {
	q, r := new(big.Int).QuoRem(a, b, new(big.Int))
	if r.Sign() != 0 {
		q.Add(q, one)
	}
	return q
}

// Totals returns the coins and the hours (accrued at headTime) of a set of outputs and whether any output has hours.
func Totals(offered []coin.UxOut, headTime uint64) (coins, hours *big.Int, anyHours bool) {
	coins, hours = new(big.Int), new(big.Int)
	for _, ux := range offered {
		coins.Add(coins, bu(ux.Body.Coins))
		v, _ := rules.Accrued(ux, headTime)
		hours.Add(hours, v)
		if v.Sign() > 0 {
			anyHours = true
		}
	}
	return
}

// Spendable is what remains of h hours after the required burn.
func Spendable(h *big.Int, burnFactor uint32) *big.Int {
	return new(big.Int).Sub(h, ceilDiv(h, bu(uint64(burnFactor))))
}

// CheckSuccess judges an unsigned transaction that was returned for request p over the offered outputs.
func CheckSuccess(p transaction.Params, all []coin.UxOut, headTime uint64, txn *coin.Transaction, burnFactor uint32) (class string, err error) {
	burn := bu(uint64(burnFactor))
	offered := map[cipher.SHA256]coin.UxOut{}
	for _, ux := range all {
		offered[txref.UxBodyID(ux.Body)] = ux
	}
	reqCoins := new(big.Int)
	for _, to := range p.To {
		reqCoins.Add(reqCoins, bu(to.Coins))
	}
	// ---- success ----
	if ok, why := rules.WellFormed(txn, false); !ok {
		return "", fmt.Errorf("created transaction is not well formed: %s", why)
	}
	if e := txn.VerifyUnsigned(); e != nil {
		return "", fmt.Errorf("created transaction fails VerifyUnsigned: %v", e)
	}
	seen := map[cipher.SHA256]bool{}
	var uxIn []coin.UxOut
	inCoins, inHours := new(big.Int), new(big.Int)
	for i, h := range txn.In {
		ux, ok := offered[h]
		if !ok {
			return "", fmt.Errorf("input %d (%s) was not offered", i, h.Hex())
		}
		if seen[h] {
			return "", fmt.Errorf("input %s spent twice", h.Hex())
		}
		seen[h] = true
		uxIn = append(uxIn, ux)
		inCoins.Add(inCoins, bu(ux.Body.Coins))
		v, _ := rules.Accrued(ux, headTime)
		inHours.Add(inHours, v)
	}
	if ok, why := rules.Hard(txn, headTime, uxIn, false, rules.Single); !ok {
		return "", fmt.Errorf("created transaction violates the hard rules: %s", why)
	}
	if len(txn.Out) < len(p.To) {
		return "", fmt.Errorf("fewer outputs than receivers")
	}
	toHours := new(big.Int)
	for i, to := range p.To {
		o := txn.Out[i]
		if o.Address != to.Address || o.Coins != to.Coins {
			return "", fmt.Errorf("output %d = (%s,%d) but requested (%s,%d)", i, o.Address, o.Coins, to.Address, to.Coins)
		}
		if p.HoursSelection.Type == transaction.HoursSelectionTypeManual && o.Hours != to.Hours {
			return "", fmt.Errorf("output %d has %d hours, requested %d", i, o.Hours, to.Hours)
		}
		toHours.Add(toHours, bu(o.Hours))
	}
	changeCoins := new(big.Int).Sub(inCoins, reqCoins)
	if changeCoins.Sign() < 0 {
		return "", fmt.Errorf("inputs carry fewer coins than requested")
	}
	class = "ok_nochange"
	if changeCoins.Sign() == 0 {
		if len(txn.Out) != len(p.To) {
			return "", fmt.Errorf("no coins remain but there are %d extra outputs", len(txn.Out)-len(p.To))
		}
	} else {
		if len(txn.Out) != len(p.To)+1 {
			return "", fmt.Errorf("%s coins remain but there are %d outputs for %d receivers", changeCoins, len(txn.Out), len(p.To))
		}
		ch := txn.Out[len(p.To)]
		if bu(ch.Coins).Cmp(changeCoins) != 0 {
			return "", fmt.Errorf("change output carries %d coins, want %s", ch.Coins, changeCoins)
		}
		want := cipher.Address{}
		if p.ChangeAddress != nil {
			want = *p.ChangeAddress
		} else {
			var bs [][]byte
			for _, ux := range uxIn {
				bs = append(bs, ux.Body.Address.Bytes())
			}
			sort.Slice(bs, func(i, j int) bool { return bytes.Compare(bs[i], bs[j]) < 0 })
			want, _ = cipher.AddressFromBytes(bs[0])
		}
		if ch.Address != want {
			return "", fmt.Errorf("change sent to %s, want %s", ch.Address, want)
		}
		class = "ok_change"
	}
	// fee
	outHours := new(big.Int)
	for _, o := range txn.Out {
		outHours.Add(outHours, bu(o.Hours))
	}
	burned := new(big.Int).Sub(inHours, outHours)
	if burned.Cmp(ceilDiv(inHours, burn)) < 0 {
		return "", fmt.Errorf("burns %s hours of %s, required %s", burned, inHours, ceilDiv(inHours, burn))
	}
	// automatic hours: sum == floor(share * remaining) for the inputs (or the inputs without the
	// trailing extra input that is added to create change), or == remaining after the share=1 fallback
	if p.HoursSelection.Type == transaction.HoursSelectionTypeAuto {
		share, _ := new(big.Rat).SetString(p.HoursSelection.ShareFactor.String())
		rem := func(h *big.Int) *big.Int { return new(big.Int).Sub(h, ceilDiv(h, burn)) }
		alloc := func(h *big.Int) *big.Int {
			x := new(big.Rat).Mul(share, new(big.Rat).SetInt(rem(h)))
			return new(big.Int).Quo(x.Num(), x.Denom())
		}
		var allowed []*big.Int
		if changeCoins.Sign() == 0 {
			// no change output exists that could carry the rest: everything that is not burnt goes to the receivers
			// (the documented fallback to share factor 1)
			allowed = []*big.Int{rem(inHours)}
		} else {
			allowed = []*big.Int{alloc(inHours)}
			if len(uxIn) >= 2 {
				last, _ := rules.Accrued(uxIn[len(uxIn)-1], headTime)
				allowed = append(allowed, alloc(new(big.Int).Sub(inHours, last)))
			}
		}
		ok := false
		for _, a := range allowed {
			if a.Cmp(toHours) == 0 {
				ok = true
			}
		}
		if !ok {
			return "", fmt.Errorf("auto hours: receivers get %s hours in total, allowed totals %v (share %s, input hours %s)", toHours, allowed, p.HoursSelection.ShareFactor, inHours)
		}
		// proportionality: each receiver gets floor(c_i*A/total) .. +2
		for i, to := range p.To {
			lo := new(big.Int).Mul(bu(to.Coins), toHours)
			lo.Quo(lo, reqCoins)
			hi := new(big.Int).Add(lo, big.NewInt(2))
			h := bu(txn.Out[i].Hours)
			if h.Cmp(lo) < 0 || h.Cmp(hi) > 0 {
				return "", fmt.Errorf("auto hours: receiver %d got %s hours, proportional share is %s", i, h, lo)
			}
		}
	}
	return class, nil
}
