// Package enc is a small independent encoder for the skycoin wire rules, written
// from the package documentation of src/cipher/encoder: little-endian fixed
// integers, bool as one byte, arrays without length, slices and strings with a
// uint32 length prefix, struct fields in order, `enc:"-"` skipped, unexported
// fields skipped, `,omitempty` on the last field writes nothing when empty.
// It is the third voice next to the reflection encoder and the generated code.
package enc

import (
	"encoding/binary"
	"fmt"
	"reflect"
	"strconv"
	"strings"
)

// Encode serialises v (a struct, or pointer to one).
func Encode(v interface{}) []byte {
	rv := reflect.Indirect(reflect.ValueOf(v))
	var out []byte
	encode(&out, rv)
	return out
}

func encode(out *[]byte, v reflect.Value) {
	switch v.Kind() {
	case reflect.Bool:
		if v.Bool() {
			*out = append(*out, 1)
		} else {
			*out = append(*out, 0)
		}
	case reflect.Uint8:
		*out = append(*out, byte(v.Uint()))
	case reflect.Uint16:
		*out = binary.LittleEndian.AppendUint16(*out, uint16(v.Uint()))
	case reflect.Uint32:
		*out = binary.LittleEndian.AppendUint32(*out, uint32(v.Uint()))
	case reflect.Uint64:
		*out = binary.LittleEndian.AppendUint64(*out, v.Uint())
	case reflect.Int8:
		*out = append(*out, byte(v.Int()))
	case reflect.Int16:
		*out = binary.LittleEndian.AppendUint16(*out, uint16(v.Int()))
	case reflect.Int32:
		*out = binary.LittleEndian.AppendUint32(*out, uint32(v.Int()))
	case reflect.Int64:
		*out = binary.LittleEndian.AppendUint64(*out, uint64(v.Int()))
	case reflect.Array:
		for i := 0; i < v.Len(); i++ {
			encode(out, v.Index(i))
		}
	case reflect.Slice:
		*out = binary.LittleEndian.AppendUint32(*out, uint32(v.Len()))
		for i := 0; i < v.Len(); i++ {
			encode(out, v.Index(i))
		}
	case reflect.String:
		s := v.String()
		*out = binary.LittleEndian.AppendUint32(*out, uint32(len(s)))
		*out = append(*out, s...)
	case reflect.Struct:
		t := v.Type()
		n := t.NumField()
		for i := 0; i < n; i++ {
			f := t.Field(i)
			if f.PkgPath != "" || f.Name == "_" {
				continue
			}
			tag := f.Tag.Get("enc")
			if strings.HasPrefix(tag, "-") {
				continue
			}
			fv := v.Field(i)
			if strings.Contains(tag, ",omitempty") && i == n-1 {
				if (fv.Kind() == reflect.Slice || fv.Kind() == reflect.String || fv.Kind() == reflect.Map) && fv.Len() == 0 {
					continue
				}
			}
			encode(out, fv)
		}
	default:
		panic(fmt.Sprintf("ref/enc: kind %s not supported", v.Kind()))
	}
}

// MaxLen extracts the maxlen of a struct tag (0 = none).
func MaxLen(tag string) int {
	i := strings.Index(tag, ",maxlen=")
	if i < 0 {
		return 0
	}
	rest := tag[i+len(",maxlen="):]
	if j := strings.Index(rest, ","); j >= 0 {
		rest = rest[:j]
	}
	n, err := strconv.Atoi(rest)
	if err != nil {
		return 0
	}
	return n
}

// ExceedsMaxLen reports whether some slice/string field (at any struct depth reachable through
// struct fields, slices and arrays) is longer than its maxlen tag.
func ExceedsMaxLen(v interface{}) bool {
	return exceeds(reflect.Indirect(reflect.ValueOf(v)))
}

func exceeds(v reflect.Value) bool {
	switch v.Kind() {
	case reflect.Struct:
		t := v.Type()
		for i := 0; i < t.NumField(); i++ {
			f := t.Field(i)
			if f.PkgPath != "" {
				continue
			}
			tag := f.Tag.Get("enc")
			if strings.HasPrefix(tag, "-") {
				continue
			}
			fv := v.Field(i)
			if ml := MaxLen(tag); ml > 0 && (fv.Kind() == reflect.Slice || fv.Kind() == reflect.String) && fv.Len() > ml {
				return true
			}
			if exceeds(fv) {
				return true
			}
		}
	case reflect.Slice, reflect.Array:
		if v.Type().Elem().Kind() == reflect.Uint8 {
			return false
		}
		for i := 0; i < v.Len(); i++ {
			if exceeds(v.Index(i)) {
				return true
			}
		}
	}
	return false
}

// LenAt is the position of one slice / string length prefix inside an encoding, with the maxlen of its field (0 = none).
type LenAt struct {
	Off    int
	MaxLen int
}

// EncodeLenOffsets serialises v like Encode and reports where every length prefix was written.
func EncodeLenOffsets(v interface{}) ([]byte, []LenAt) {
	rv := reflect.Indirect(reflect.ValueOf(v))
	var out []byte
	var lens []LenAt
	encodeTrack(&out, &lens, rv, 0)
	return out, lens
}

func encodeTrack(out *[]byte, lens *[]LenAt, v reflect.Value, maxlen int) {
	switch v.Kind() {
	case reflect.Array:
		for i := 0; i < v.Len(); i++ {
			encodeTrack(out, lens, v.Index(i), 0)
		}
	case reflect.Slice:
		*lens = append(*lens, LenAt{Off: len(*out), MaxLen: maxlen})
		*out = binary.LittleEndian.AppendUint32(*out, uint32(v.Len()))
		for i := 0; i < v.Len(); i++ {
			encodeTrack(out, lens, v.Index(i), 0)
		}
	case reflect.String:
		*lens = append(*lens, LenAt{Off: len(*out), MaxLen: maxlen})
		encode(out, v)
	case reflect.Struct:
		t := v.Type()
		n := t.NumField()
		for i := 0; i < n; i++ {
			f := t.Field(i)
			if f.PkgPath != "" || f.Name == "_" {
				continue
			}
			tag := f.Tag.Get("enc")
			if strings.HasPrefix(tag, "-") {
				continue
			}
			fv := v.Field(i)
			if strings.Contains(tag, ",omitempty") && i == n-1 {
				if (fv.Kind() == reflect.Slice || fv.Kind() == reflect.String || fv.Kind() == reflect.Map) && fv.Len() == 0 {
					continue
				}
			}
			encodeTrack(out, lens, fv, MaxLen(tag))
		}
	default:
		encode(out, v)
	}
}
