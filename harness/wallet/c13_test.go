package wallet

import (
	"bytes"
	"fmt"
	"os"
	"path/filepath"
	"testing"

	"pgregory.net/rapid"

	"github.com/skycoin/skycoin/src/cipher"
	"github.com/skycoin/skycoin/src/cipher/crypto"
	"github.com/skycoin/skycoin/src/coin"
	"github.com/skycoin/skycoin/src/wallet"

	"verif/harness/internal/ev"
	"verif/harness/internal/gen"
	"verif/harness/internal/hx"
	"verif/harness/internal/ref/rules"
	"verif/harness/internal/ref/txref"
)

const ruleC13 = "wallets of every type (deterministic, bip44 with external and change addresses, collection; xpub and encrypted wallets as negative cases) with 1-4 entries, optionally saved, loaded again from the file and grown, optionally locked, grown and unlocked before signing; transactions with 1-6 inputs whose owners are drawn from the wallet's addresses and from foreign keys (repeated owners allowed), some inputs pre-signed by their real owners; index selections: none (= all unsigned), a subset, all unsigned, out of range, negative, duplicates, an already-signed index, more indexes than inputs; corrupted inner hash / empty signature array / wrong number of outputs passed; oracle: predicted success <=> wallet can sign, transaction is in the documented shape and the wallet holds the key of every addressed input; on success exactly the addressed inputs changed from null to a signature that verifies against the spent output's address (code verifier and textbook curve), everything else bit-identical; on failure an error, never a panic; the input transaction object is never modified; non-trivial = partial selection or mixed ownership; distinct by (wallet type, owners, pre-signed set, selection)"

func TestC13_SignTransaction(t *testing.T) {
	r := ev.Get("C13")
	r.Rule(ruleC13)
	hx.Check(t, "C13", 700, 40000, func(t *rapid.T) {
		kind := rapid.SampledFrom([]wkind{kDet, kBip, kColl, kDet, kBip, kXpub}).Draw(t, "kind")
		nEntries := rapid.IntRange(1, 4).Draw(t, "entries")
		grewLocked := false
		w := newWallet(t, kind, rapid.IntRange(0, 30).Draw(t, "seed"), nEntries, crypto.CryptoTypeSha256Xor)
		if kind == kBip && rapid.Bool().Draw(t, "change") {
			if _, err := w.GenerateAddresses(wallet.OptionGenerateN(2), wallet.OptionChange()); err != nil {
				t.Fatal(err)
			}
		}
		// wallet history before signing: the wallet was saved, loaded again from its file and grew afterwards
		reloaded := false
		if kind != kXpub && rapid.IntRange(0, 2).Draw(t, "reload") == 0 {
			dir := hx.TempDir("c13reload")
			if err := wallet.Save(w, dir); err != nil {
				t.Fatalf("save: %v", err)
			}
			lw, err := wallet.Load(filepath.Join(dir, w.Filename()))
			os.RemoveAll(dir)
			if err != nil {
				t.Fatalf("a saved wallet does not load: %v", err)
			}
			w = lw
			reloaded = true
			if kind == kDet || kind == kBip {
				opts := []wallet.Option{wallet.OptionGenerateN(uint64(rapid.IntRange(1, 3).Draw(t, "reload_grow_n")))}
				if kind == kBip && rapid.Bool().Draw(t, "reload_grow_change") {
					opts = append(opts, wallet.OptionChange())
				}
				if _, err := w.GenerateAddresses(opts...); err != nil {
					t.Fatalf("generate after reload: %v", err)
				}
			}
		}
		// wallet history before signing: the wallet was locked, grew while locked (keys of the new entries are derived at
		// the next unlock), and was unlocked again
		if kind == kBip && rapid.IntRange(0, 2).Draw(t, "grew_locked") == 0 { // only bip44 wallets can derive addresses while locked
			pw := []byte("grow")
			if err := w.Lock(pw); err != nil {
				t.Fatalf("lock: %v", err)
			}
			opts := []wallet.Option{wallet.OptionGenerateN(uint64(rapid.IntRange(1, 3).Draw(t, "grow_n")))}
			if kind == kBip && rapid.Bool().Draw(t, "grow_change") {
				opts = append(opts, wallet.OptionChange())
			}
			if _, err := w.GenerateAddresses(opts...); err != nil {
				t.Fatalf("generate while locked: %v", err)
			}
			u, err := w.Unlock(pw)
			if err != nil {
				t.Fatalf("unlock: %v", err)
			}
			w = u
			grewLocked = true
		}
		entries, _ := w.GetEntries()
		var pool []owner
		for _, e := range entries {
			pool = append(pool, owner{addr: e.SkycoinAddress(), sec: e.Secret, inWlt: true, hasKey: !e.Secret.Null()})
		}
		if kind == kXpub {
			// the matching seed wallet owns the same addresses; its keys pre-sign inputs in this test
			for i := range pool {
				pool[i].hasKey = false
			}
		}
		for i := 0; i < 2; i++ {
			k := gen.KeyN(60 + i)
			pool = append(pool, owner{addr: k.Addr, sec: k.Sec, inWlt: false, hasKey: true})
		}
		encrypted := kind != kXpub && rapid.IntRange(0, 7).Draw(t, "encrypted") == 0
		nIn := rapid.IntRange(1, 6).Draw(t, "nin")
		var owners []owner
		var uxs []coin.UxOut
		var txn coin.Transaction
		foreignBias := rapid.IntRange(0, 2).Draw(t, "foreignbias")
		for i := 0; i < nIn; i++ {
			var o owner
			if foreignBias == 0 || len(entries) == 0 {
				o = pool[rapid.IntRange(0, len(pool)-1).Draw(t, "owner")]
			} else {
				o = pool[rapid.IntRange(0, len(entries)-1).Draw(t, "owner")]
			}
			ux := coin.UxOut{Head: coin.UxHead{Time: 100, BkSeq: uint64(i + 1)}, Body: coin.UxBody{SrcTransaction: gen.NonNullSHA(t, "src"), Address: o.addr, Coins: uint64(1000 * (i + 1)), Hours: 50}}
			owners = append(owners, o)
			uxs = append(uxs, ux)
			txn.In = append(txn.In, txref.UxBodyID(ux.Body))
		}
		for i := 0; i < rapid.IntRange(1, 3).Draw(t, "nout"); i++ {
			txn.Out = append(txn.Out, coin.TransactionOutput{Address: gen.KeyN(70 + i).Addr, Coins: uint64(1000 + i), Hours: uint64(i)})
		}
		txn.InnerHash = txref.InnerHash(&txn)
		txn.Sigs = make([]cipher.Sig, nIn)
		presigned := map[int]bool{}
		for i := 0; i < nIn; i++ {
			if owners[i].hasKey || owners[i].inWlt {
				if rapid.IntRange(0, 3).Draw(t, "presign") == 0 && !owners[i].sec.Null() {
					txn.Sigs[i] = gen.DetSign(owners[i].sec, txref.SigHash(txn.InnerHash, txn.In[i]))
					presigned[i] = true
				}
			}
		}
		txn.Length = uint32(txref.TxnSize(&txn))
		// malformed variants
		shape := rapid.SampledFrom([]string{"ok", "ok", "ok", "ok", "ok", "ok", "bad_inner_hash", "no_sigs", "ux_count"}).Draw(t, "shape")
		uxArg := uxs
		switch shape {
		case "bad_inner_hash":
			txn.InnerHash[0] ^= 1
		case "no_sigs":
			txn.Sigs = nil
			presigned = map[int]bool{}
		case "ux_count":
			uxArg = uxs[:len(uxs)-1]
		}
		// index selection
		var idx []int
		sel := rapid.SampledFrom([]string{"none", "none", "subset", "subset", "all_unsigned", "out_of_range", "negative", "duplicate", "already_signed", "too_many"}).Draw(t, "selection")
		var unsigned []int
		for i := 0; i < nIn; i++ {
			if !presigned[i] {
				unsigned = append(unsigned, i)
			}
		}
		switch sel {
		case "subset":
			for _, i := range unsigned {
				if rapid.Bool().Draw(t, "pick") {
					idx = append(idx, i)
				}
			}
		case "all_unsigned":
			idx = append(idx, unsigned...)
		case "out_of_range":
			idx = []int{nIn + rapid.IntRange(0, 3).Draw(t, "oob")}
		case "negative":
			idx = []int{-1 - rapid.IntRange(0, 3).Draw(t, "neg")}
		case "duplicate":
			if len(unsigned) > 0 {
				idx = []int{unsigned[0], unsigned[0]}
			}
		case "already_signed":
			for i := range presigned {
				idx = []int{i}
				break
			}
		case "too_many":
			for i := 0; i <= nIn; i++ {
				idx = append(idx, i%nIn)
			}
		}
		if len(idx) == 0 && rapid.Bool().Draw(t, "empty_not_nil") {
			idx = []int{} // "no indexes named" arrives as an empty list as often as it arrives as nothing (JSON [] vs absent)
		}
		if encrypted {
			if err := w.Lock([]byte("pw")); err != nil {
				t.Fatalf("Lock: %v", err)
			}
		}
		// --- prediction
		fullySigned := len(txn.Sigs) > 0 && len(unsigned) == 0
		idxValid := len(idx) <= len(uxArg)
		seen := map[int]bool{}
		for _, i := range idx {
			if i < 0 || i >= len(uxArg) || seen[i] {
				idxValid = false
			}
			seen[i] = true
		}
		want := kind != kXpub && !encrypted && shape == "ok" && !fullySigned && idxValid
		var target []int
		if want {
			if len(idx) > 0 {
				target = idx
				for _, i := range idx {
					if presigned[i] {
						want = false
					}
				}
			} else {
				target = unsigned
			}
			for _, i := range target {
				if !(owners[i].inWlt && owners[i].hasKey) {
					want = false
				}
			}
		}
		before := txref.EncodeTxn(&txn)
		in := txn // SignTransaction receives a pointer to this copy
		in.Sigs = append([]cipher.Sig(nil), txn.Sigs...)
		in.In = append([]cipher.SHA256(nil), txn.In...)
		in.Out = append([]coin.TransactionOutput(nil), txn.Out...)
		var out *coin.Transaction
		var err error
		if p := call(func() { out, err = wallet.SignTransaction(w, &in, idx, uxArg) }); p != nil {
			t.Fatalf("SignTransaction panicked: %v\n type=%s shape=%s selection=%s idx=%v presigned=%v encrypted=%v", p, kind, shape, sel, idx, presigned, encrypted)
		}
		if !bytes.Equal(txref.EncodeTxn(&in), before) {
			t.Fatalf("SignTransaction modified its input transaction (type=%s selection=%s idx=%v err=%v)", kind, sel, idx, err)
		}
		if want != (err == nil) {
			t.Fatalf("SignTransaction err=%v, predicted success=%v\n type=%s shape=%s selection=%s idx=%v unsigned=%v presigned=%v encrypted=%v owners(inWallet)=%v", err, want, kind, shape, sel, idx, unsigned, presigned, encrypted, ownersIn(owners))
		}
		if err == nil {
			if out == nil {
				t.Fatalf("nil transaction without an error")
			}
			if txref.InnerHash(out) != txn.InnerHash || out.InnerHash != txn.InnerHash || fmt.Sprint(out.In) != fmt.Sprint(txn.In) || fmt.Sprint(out.Out) != fmt.Sprint(txn.Out) || out.Type != txn.Type {
				t.Fatalf("signing changed inputs, outputs, type or inner hash")
			}
			if len(out.Sigs) != nIn {
				t.Fatalf("signed transaction has %d signatures for %d inputs", len(out.Sigs), nIn)
			}
			tset := map[int]bool{}
			for _, i := range target {
				tset[i] = true
			}
			for i := 0; i < nIn; i++ {
				if tset[i] {
					if out.Sigs[i].Null() {
						t.Fatalf("input %d was to be signed but is still unsigned", i)
					}
					h := txref.SigHash(out.InnerHash, out.In[i])
					if e := cipher.VerifyAddressSignedHash(uxs[i].Body.Address, out.Sigs[i], h); e != nil {
						t.Fatalf("signature %d does not verify against the spent output's address: %v", i, e)
					}
					if a, ok := rules.SigSigner(out.Sigs[i], h); !ok || a != uxs[i].Body.Address {
						t.Fatalf("signature %d: the textbook curve recovers another signer", i)
					}
				} else if out.Sigs[i] != txn.Sigs[i] {
					t.Fatalf("input %d was not addressed but its signature changed (was null=%v)", i, txn.Sigs[i].Null())
				}
			}
			if uint64(out.Length) != txref.TxnSize(out) {
				t.Fatalf("signed transaction has a wrong Length field")
			}
		}
		mixed := false
		for _, o := range owners {
			if !o.inWlt {
				mixed = true
			}
		}
		nt := sel == "subset" || mixed || len(presigned) > 0
		if reloaded {
			r.Count("wallet_reloaded_from_file_and_grown")
		}
		if grewLocked {
			r.Count("wallet_grew_while_locked")
		}
		r.Count("type_" + string(kind))
		r.Count("selection_" + sel)
		if err == nil {
			r.Count("signed_ok")
		}
		r.CaseS(nt, fmt.Sprintf("%s/%s/%s/%v/%v/%v/%v", kind, shape, sel, idx, presigned, encrypted, ownersIn(owners)))
		if r.WantSample(nt) {
			r.Sample(nt, map[string]interface{}{"wallet": string(kind), "inputs": nIn, "owners_in_wallet": ownersIn(owners), "presigned": fmt.Sprint(presigned), "selection": sel, "indexes": idx, "encrypted": encrypted, "shape": shape, "result": fmt.Sprint(err)})
		}
	})
}

type owner struct {
	addr   cipher.Address
	sec    cipher.SecKey
	inWlt  bool
	hasKey bool
}

func ownersIn(os []owner) []bool {
	out := make([]bool, len(os))
	for i, o := range os {
		out[i] = o.inWlt && o.hasKey
	}
	return out
}
