package wallet

import (
	"fmt"
	"math/big"
	"os"
	"path/filepath"
	"strings"
	"testing"

	"pgregory.net/rapid"

	"github.com/skycoin/skycoin/src/cipher"
	"github.com/skycoin/skycoin/src/cipher/bip39"
	"github.com/skycoin/skycoin/src/cipher/crypto"
	"github.com/skycoin/skycoin/src/wallet"

	"verif/harness/internal/ev"
	"verif/harness/internal/hx"
	"verif/harness/internal/ref/bip"
	"verif/harness/internal/ref/curve"
	"verif/harness/internal/ref/rules"
)

const ruleC17 = "rapid state machine per wallet type (deterministic, bip44 with external and change chains, xpub watch-only, collection): generate n addresses (per chain), scan ahead n with a generated activity pattern, serialise -> file -> load, clone, lock/unlock (sha256-xor); oracle: after every step the wallet's entries equal the first e (and c) addresses of a fresh wallet of the same seed generating everything in one call, every entry has address == address(public key) and public key == public key(secret) where a secret is held, the xpub wallet derives the external addresses of the bip44 wallet of the same mnemonic, and at the end the first addresses are re-derived independently (documented deterministic iterator / reference BIP39+BIP32+BIP44 on the textbook curve); non-trivial = at least three generation batches and a reload in the history; distinct by (type, seed, history)"

type fakeFinder struct {
	active map[string]bool
}

func (f fakeFinder) AddressesActivity(addrs []cipher.Addresser) ([]bool, error) {
	out := make([]bool, len(addrs))
	for i, a := range addrs {
		out[i] = f.active[a.String()]
	}
	return out, nil
}

const refLen = 36

func addrStrings(as []cipher.Addresser) []string {
	out := make([]string, len(as))
	for i, a := range as {
		out[i] = a.String()
	}
	return out
}

func entryAddrs(es wallet.Entries) []string {
	out := make([]string, len(es))
	for i, e := range es {
		out[i] = e.Address.String()
	}
	return out
}

func checkEntryConsistency(es wallet.Entries, wantSecrets bool) error {
	for _, e := range es {
		want := cipher.AddressFromPubKey(e.Public).String()
		if bipBitcoin {
			want = cipher.BitcoinAddressFromPubKey(e.Public).String() // the address encoding of the wallet's coin type
		}
		if e.Address.String() != want {
			return fmt.Errorf("entry %s: address is not the address of its public key %s", e.Address, e.Public.Hex())
		}
		if !e.Secret.Null() {
			p, err := cipher.PubKeyFromSecKey(e.Secret)
			if err != nil || p != e.Public {
				return fmt.Errorf("entry %s: public key is not the public key of its secret key", e.Address)
			}
		} else if wantSecrets {
			return fmt.Errorf("entry %s has no secret key", e.Address)
		}
	}
	return nil
}

func TestC17_Derivation(t *testing.T) {
	r := ev.Get("C17")
	r.Rule(ruleC17)
	r.Assume("collection wallets have no seed: for them only entry consistency and invariance under reload/clone/lock are checked")
	hx.Check(t, "C17", 120, 8000, func(t *rapid.T) {
		kind := rapid.SampledFrom([]wkind{kDet, kBip, kBip, kXpub, kColl}).Draw(t, "kind")
		seedIdx := rapid.IntRange(0, 200).Draw(t, "seed")
		// bip44 wallets of the other supported coin type (its addresses are encoded differently, and the type must
		// survive the wallet file)
		bipBitcoin = kind == kBip && rapid.IntRange(0, 2).Draw(t, "coin_type") == 1
		defer func() { bipBitcoin = false }()
		if bipBitcoin {
			r.Count("bip44_bitcoin_coin_type")
		}
		dir := hx.TempDir("c17")
		defer os.RemoveAll(dir)
		// reference lists from a fresh wallet generating everything in one call
		var refExt, refChg []string
		if kind != kColl {
			fresh := newWallet(t, kind, seedIdx, refLen, crypto.CryptoTypeSha256Xor)
			if kind == kBip {
				es, _ := fresh.GetEntries(wallet.OptionExternal())
				refExt = entryAddrs(es)
				if _, err := fresh.GenerateAddresses(wallet.OptionGenerateN(refLen), wallet.OptionChange()); err != nil {
					t.Fatal(err)
				}
				ces, _ := fresh.GetEntries(wallet.OptionChange())
				refChg = entryAddrs(ces)[:refLen]
			} else {
				es, _ := fresh.GetEntries()
				refExt = entryAddrs(es)
			}
			if len(refExt) != refLen {
				t.Fatalf("fresh wallet generated %d addresses, want %d", len(refExt), refLen)
			}
		}
		// activity pattern
		active := map[string]bool{}
		for _, i := range rapid.SliceOfNDistinct(rapid.IntRange(0, refLen-1), 0, 6, func(i int) int { return i }).Draw(t, "active_ext") {
			if len(refExt) > i {
				active[refExt[i]] = true
			}
		}
		for _, i := range rapid.SliceOfNDistinct(rapid.IntRange(0, refLen-1), 0, 4, func(i int) int { return i }).Draw(t, "active_chg") {
			if len(refChg) > i {
				active[refChg[i]] = true
			}
		}
		tf := fakeFinder{active}
		first := 0
		if kind == kDet {
			first = 1
		}
		w := newWallet(t, kind, seedIdx, first, crypto.CryptoTypeSha256Xor)
		e, c := first, 0
		var collAddrs []string
		if kind == kColl {
			first = rapid.IntRange(0, 3).Draw(t, "collfirst")
			w = newWallet(t, kind, seedIdx, first, crypto.CryptoTypeSha256Xor)
			es, _ := w.GetEntries()
			collAddrs = entryAddrs(es)
		}
		var hist []string
		batches, reloads := 0, 0
		check := func(after string) {
			hist = append(hist, after)
			var ext, chg wallet.Entries
			var err error
			if kind == kBip {
				ext, err = w.GetEntries(wallet.OptionExternal())
				if err == nil {
					chg, err = w.GetEntries(wallet.OptionChange())
				}
			} else {
				ext, err = w.GetEntries()
			}
			if err != nil {
				t.Fatalf("GetEntries after %s: %v", after, err)
			}
			if kind == kColl {
				if fmt.Sprint(entryAddrs(ext)) != fmt.Sprint(collAddrs) {
					t.Fatalf("collection entries changed after %s: %v want %v", after, entryAddrs(ext), collAddrs)
				}
			} else {
				if e > refLen || c > refLen {
					return
				}
				if fmt.Sprint(entryAddrs(ext)) != fmt.Sprint(refExt[:e]) {
					t.Fatalf("%s wallet after %v: external addresses %v, a fresh wallet generating %d at once has %v", kind, hist, entryAddrs(ext), e, refExt[:e])
				}
				if kind == kBip && fmt.Sprint(entryAddrs(chg)) != fmt.Sprint(refChg[:c]) {
					t.Fatalf("bip44 wallet after %v: change addresses %v, fresh %v", hist, entryAddrs(chg), refChg[:c])
				}
			}
			if !w.IsEncrypted() {
				if err := checkEntryConsistency(append(ext, chg...), kind != kXpub); err != nil {
					t.Fatalf("after %s: %v", after, err)
				}
			}
		}
		keep := func(ref []string, have, n int) int {
			k := 0
			for i := 0; i < n && have+i < len(ref); i++ {
				if active[ref[have+i]] {
					k = i + 1
				}
			}
			return k
		}
		acts := map[string]func(*rapid.T){
			"reload": func(t *rapid.T) {
				b, err := w.Serialize()
				if err != nil {
					t.Fatalf("Serialize: %v", err)
				}
				fn := filepath.Join(dir, "w.wlt")
				if err := os.WriteFile(fn, b, 0600); err != nil {
					t.Fatal(err)
				}
				lw, err := wallet.Load(fn)
				if err != nil || lw == nil {
					t.Fatalf("Load after %v: %v", hist, err)
				}
				w = lw
				reloads++
				check("reload")
			},
			"clone": func(t *rapid.T) {
				w = w.Clone()
				check("clone")
			},
		}
		if kind != kXpub {
			acts["lock_unlock"] = func(t *rapid.T) {
				if w.IsEncrypted() {
					u, err := w.Unlock([]byte("pw"))
					if err != nil {
						t.Fatalf("Unlock: %v", err)
					}
					w = u
					check("unlock")
					return
				}
				if err := w.Lock([]byte("pw")); err != nil {
					t.Fatalf("Lock: %v", err)
				}
				check("lock")
			}
		}
		if kind != kColl {
			acts["generate"] = func(t *rapid.T) {
				if w.IsEncrypted() && kind == kDet {
					t.Skip("locked deterministic wallet cannot generate")
				}
				n := rapid.IntRange(1, 4).Draw(t, "n")
				change := kind == kBip && rapid.Bool().Draw(t, "change")
				if (change && c+n > refLen) || (!change && e+n > refLen) {
					t.Skip("reference list exhausted")
				}
				opts := []wallet.Option{wallet.OptionGenerateN(uint64(n))}
				if change {
					opts = append(opts, wallet.OptionChange())
				}
				got, err := w.GenerateAddresses(opts...)
				if err != nil {
					if w.IsEncrypted() {
						return // documented: locked wallets refuse
					}
					t.Fatalf("GenerateAddresses(%d, change=%v) after %v: %v", n, change, hist, err)
				}
				ref, have := refExt, e
				if change {
					ref, have = refChg, c
				}
				if fmt.Sprint(addrStrings(got)) != fmt.Sprint(ref[have:have+n]) {
					t.Fatalf("GenerateAddresses(%d, change=%v) after %v returned %v, want %v", n, change, hist, addrStrings(got), ref[have:have+n])
				}
				if change {
					c += n
				} else {
					e += n
				}
				batches++
				check(fmt.Sprintf("generate(%d,change=%v)", n, change))
			}
			acts["scan"] = func(t *rapid.T) {
				if w.IsEncrypted() {
					t.Skip("locked")
				}
				n := rapid.IntRange(1, 6).Draw(t, "n")
				if e+n > refLen || c+n > refLen {
					t.Skip("reference list exhausted")
				}
				got, err := w.ScanAddresses(uint64(n), tf)
				if err != nil {
					t.Fatalf("ScanAddresses(%d) after %v: %v", n, hist, err)
				}
				ke := keep(refExt, e, n)
				if fmt.Sprint(addrStrings(got)) != fmt.Sprint(refExt[e:e+ke]) {
					t.Fatalf("ScanAddresses(%d) after %v returned %v, want %v", n, hist, addrStrings(got), refExt[e:e+ke])
				}
				e += ke
				if kind == kBip {
					c += keep(refChg, c, n)
				}
				batches++
				check(fmt.Sprintf("scan(%d)", n))
			}
		} else {
			acts["add_entry"] = func(t *rapid.T) {
				if w.IsEncrypted() {
					t.Skip("locked")
				}
				_, sec, _ := cipher.GenerateDeterministicKeyPair([]byte(fmt.Sprintf("coll-add-%d-%d", seedIdx, len(collAddrs))))
				pub := cipher.MustPubKeyFromSecKey(sec)
				type adder interface{ AddEntry(wallet.Entry) error }
				a, ok := w.(adder)
				if !ok {
					t.Skip("no AddEntry")
				}
				if err := a.AddEntry(wallet.Entry{Address: cipher.AddressFromPubKey(pub), Public: pub, Secret: sec}); err != nil {
					t.Fatalf("AddEntry: %v", err)
				}
				collAddrs = append(collAddrs, cipher.AddressFromPubKey(pub).String())
				batches++
				check("add_entry")
			}
		}
		if kind != kColl {
			// constructors may generate a first address on their own: start the model from the actual counts
			if kind == kBip {
				es, _ := w.GetEntries(wallet.OptionExternal())
				cs, _ := w.GetEntries(wallet.OptionChange())
				e, c = len(es), len(cs)
			} else {
				es, _ := w.GetEntries()
				e = len(es)
			}
		}
		check("create")
		t.Repeat(acts)
		// independent re-derivation of the first addresses
		if w.IsEncrypted() {
			u, err := w.Unlock([]byte("pw"))
			if err != nil {
				t.Fatalf("final Unlock: %v", err)
			}
			w = u
		}
		switch kind {
		case kDet:
			seed := []byte(w.Seed())
			for i := 0; i < e && i < 4; i++ {
				next, pub, _ := curve.DeterministicKeyPairIterator(seed)
				if a := rules.AddrOfPub(pub).String(); a != refExt[i] {
					t.Fatalf("deterministic address %d is %s, the documented iterator gives %s", i, refExt[i], a)
				}
				seed = next
			}
		case kBip, kXpub:
			mn := mnemonicN(seedIdx)
			pass := ""
			if kind == kBip {
				pass = fmt.Sprintf("pass%d", seedIdx%3)
			}
			words, werr := wordList()
			if werr != nil {
				t.Fatal(werr)
			}
			if _, ok := bip.Entropy(words, mn); !ok {
				t.Fatalf("harness mnemonic invalid")
			}
			m, _ := bip.Master(bip.Seed(mn, pass))
			for chain, ref := range [][]string{refExt, refChg} {
				n := e
				if chain == 1 {
					n = c
				}
				for i := 0; i < n && i < 3 && i < len(ref); i++ {
					coinIdx := uint32(8000)
					if bipBitcoin {
						coinIdx = 0
					}
					k, err := m.Derive([]uint32{bip.Hardened + 44, bip.Hardened + coinIdx, bip.Hardened, uint32(chain), uint32(i)})
					if err != nil {
						t.Fatal(err)
					}
					a := rules.AddrOfPub(curve.Compress(k.Pub)).String()
					if bipBitcoin {
						a = cipher.BitcoinAddressFromPubKey(cipher.MustNewPubKey(curve.Compress(k.Pub))).String()
					}
					if a != ref[i] {
						t.Fatalf("%s address m/44'/%d'/0'/%d/%d is %s, the reference derivation gives %s", kind, coinIdx, chain, i, ref[i], a)
					}
				}
			}
		}
		nt := batches >= 3 && reloads >= 1
		r.Count("type_" + string(kind))
		r.CaseS(nt, fmt.Sprintf("%s/%d/%s", kind, seedIdx, strings.Join(hist, ",")))
		if r.WantSample(nt) {
			r.Sample(nt, map[string]interface{}{"type": string(kind), "seed_index": seedIdx, "history": hist, "external": e, "change": c})
		}
	})
}

var (
	wlCache []string
	wlErr   error
)

// wordList recovers the BIP39 English list through the API (see the crypto package for the pinned hash check).
func wordList() ([]string, error) {
	if wlCache != nil || wlErr != nil {
		return wlCache, wlErr
	}
	for i := 0; i < 2048; i++ {
		ent := make([]byte, 16)
		ent[0] = byte(i >> 3)
		ent[1] = byte(i&7) << 5
		m, err := bip39.NewMnemonic(ent)
		if err != nil {
			wlErr = err
			return nil, err
		}
		wlCache = append(wlCache, strings.Split(m, " ")[0])
	}
	return wlCache, nil
}

var _ = big.NewInt
