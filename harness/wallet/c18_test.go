package wallet

import (
	"bytes"
	"crypto/sha256"
	"encoding/base64"
	"encoding/binary"
	"encoding/hex"
	"encoding/json"
	"fmt"
	"os"
	"path/filepath"
	"strings"
	"testing"

	"pgregory.net/rapid"

	"github.com/skycoin/skycoin/src/cipher/encrypt"
	"github.com/skycoin/skycoin/src/wallet"

	"verif/harness/internal/ev"
	"verif/harness/internal/hx"
)

const ruleC18 = "(a) ciphertexts for both ciphers: valid encryptions (scrypt work factor 2^4 for speed) that are bit-flipped, truncated at generated lengths, extended, spliced with another ciphertext, re-checksummed (sha256-xor) or given a patched metadata length prefix {0,1,2,len-1,65533,65534,65535} / metadata JSON with nonce or salt of wrong length, key length 0/16/33, N not a power of two, r/p 0 (scrypt parameters capped at N<=2^14, r<=8, p<=2), plus raw random bytes and the empty input, with the right and a wrong password; (b) wallets of every lockable type (deterministic, bip44, collection) x {sha256-xor, scrypt insecure} with 0-4 entries: lock, serialise, unlock with the same and another password; oracle: Decrypt returns the plaintext or an error and never panics, a decryption that succeeds on a modified ciphertext must return the original plaintext only if the modification was outside the authenticated data; the locked serialisation contains no seed, passphrase or secret key (JSON fields and substring search), unlock(same) restores identical secrets and entries, unlock(other) fails; non-trivial = a mutated ciphertext / a wallet with >=1 entry; distinct by ciphertext or wallet serialisation"

var weakScrypt = encrypt.ScryptChacha20poly1305{N: 1 << 4, R: 8, P: 1, KeyLen: 32}

type cryptor interface {
	Encrypt(data, password []byte) ([]byte, error)
	Decrypt(data, password []byte) ([]byte, error)
}

func genCiphertext(t *rapid.T) (c cryptor, name string, data []byte, pw []byte, plain []byte, class string) {
	if rapid.Bool().Draw(t, "scrypt") {
		c, name = weakScrypt, "scrypt-chacha20poly1305"
	} else {
		c, name = encrypt.DefaultSha256Xor, "sha256-xor"
	}
	pw = []byte(rapid.StringOfN(rapid.RuneFrom(nil, &asciiRange), 1, 12, -1).Draw(t, "pw"))
	plain = rapid.SliceOfN(rapid.Byte(), 0, 100).Draw(t, "plain")
	enc, err := c.Encrypt(plain, pw)
	if err != nil {
		t.Fatalf("%s Encrypt: %v", name, err)
	}
	raw, _ := base64.StdEncoding.DecodeString(string(enc))
	class = rapid.SampledFrom([]string{"valid", "bitflip", "truncate_b64", "truncate_raw", "extend", "splice", "patch", "patch", "random_b64", "random_bytes", "empty", "short"}).Draw(t, "class")
	reb64 := func(b []byte) []byte { return []byte(base64.StdEncoding.EncodeToString(b)) }
	switch class {
	case "valid":
		data = enc
	case "bitflip":
		r2 := append([]byte(nil), raw...)
		r2[rapid.IntRange(0, len(r2)-1).Draw(t, "pos")] ^= byte(1 << uint(rapid.IntRange(0, 7).Draw(t, "bit")))
		if name == "sha256-xor" && rapid.Bool().Draw(t, "rechecksum") && len(r2) > 32 {
			s := sha256.Sum256(r2[32:])
			copy(r2[:32], s[:])
		}
		data = reb64(r2)
	case "truncate_b64":
		data = enc[:rapid.IntRange(0, len(enc)-1).Draw(t, "cut")]
	case "truncate_raw":
		r2 := raw[:rapid.IntRange(0, len(raw)-1).Draw(t, "cut")]
		if name == "sha256-xor" && len(r2) > 32 && rapid.Bool().Draw(t, "rechecksum") {
			r2 = append([]byte(nil), r2...)
			s := sha256.Sum256(r2[32:])
			copy(r2[:32], s[:])
		}
		data = reb64(r2)
	case "extend":
		data = reb64(append(append([]byte(nil), raw...), rapid.SliceOfN(rapid.Byte(), 1, 40).Draw(t, "extra")...))
	case "splice":
		other, _ := c.Encrypt(rapid.SliceOfN(rapid.Byte(), 0, 60).Draw(t, "plain2"), []byte("otherpw"))
		oraw, _ := base64.StdEncoding.DecodeString(string(other))
		cut := rapid.IntRange(0, len(raw)).Draw(t, "cut1")
		cut2 := rapid.IntRange(0, len(oraw)).Draw(t, "cut2")
		data = reb64(append(append([]byte(nil), raw[:cut]...), oraw[cut2:]...))
	case "patch":
		if name == "scrypt-chacha20poly1305" {
			mlen := int(binary.LittleEndian.Uint16(raw[:2]))
			var meta map[string]interface{}
			_ = json.Unmarshal(raw[2:2+mlen], &meta)
			body := raw[2+mlen:]
			how := rapid.SampledFrom([]string{"lenprefix", "nonce", "salt", "keylen", "N", "r", "p", "drop_field", "not_json"}).Draw(t, "how")
			var newLen = -1
			switch how {
			case "lenprefix":
				newLen = rapid.SampledFrom([]int{0, 1, 2, mlen - 1, mlen + 1, len(raw) - 2, len(raw) - 1, len(raw), 65533, 65534, 65535}).Draw(t, "newlen")
			case "nonce":
				meta["nonce"] = base64.StdEncoding.EncodeToString(rapid.SliceOfN(rapid.Byte(), 0, 24).Draw(t, "nonce"))
			case "salt":
				meta["salt"] = base64.StdEncoding.EncodeToString(rapid.SliceOfN(rapid.Byte(), 0, 40).Draw(t, "salt"))
			case "keylen":
				meta["keyLen"] = rapid.SampledFrom([]int{0, 1, 16, 31, 33, 64, -1}).Draw(t, "keylen")
			case "N":
				meta["n"] = rapid.SampledFrom([]int{0, 1, 2, 3, 15, 17, 1 << 10, 1 << 14, -16}).Draw(t, "n")
			case "r":
				meta["r"] = rapid.SampledFrom([]int{0, 1, 2, 8, -1}).Draw(t, "r")
			case "p":
				meta["p"] = rapid.SampledFrom([]int{0, 1, 2, -1}).Draw(t, "p")
			case "drop_field":
				delete(meta, rapid.SampledFrom([]string{"n", "r", "p", "keyLen", "salt", "nonce"}).Draw(t, "field"))
			case "not_json":
				meta = nil
			}
			ms, _ := json.Marshal(meta)
			if how == "not_json" {
				ms = []byte(rapid.SampledFrom([]string{"", "{", "null", "[]", "\"x\"", "{\"n\":\"a\"}"}).Draw(t, "junk"))
			}
			l := len(ms)
			if newLen >= 0 {
				ms = raw[2 : 2+mlen]
				l = newLen
			}
			hdr := make([]byte, 2)
			binary.LittleEndian.PutUint16(hdr, uint16(l))
			data = reb64(append(append(hdr, ms...), body...))
			class = "patch_" + how
		} else {
			// sha256-xor: patch the (encrypted) length word is not possible without the key; patch sizes instead
			r2 := append([]byte(nil), raw...)
			n := rapid.SampledFrom([]int{0, 1, 31, 32, 33, 63, 64, 65, 95, 96, 97}).Draw(t, "keep")
			if n < len(r2) {
				r2 = r2[:n]
			}
			if len(r2) > 32 {
				s := sha256.Sum256(r2[32:])
				copy(r2[:32], s[:])
			}
			data = reb64(r2)
			class = "patch_size"
		}
	case "random_b64":
		data = reb64(rapid.SliceOfN(rapid.Byte(), 0, 200).Draw(t, "rawdata"))
	case "random_bytes":
		data = rapid.SliceOfN(rapid.Byte(), 0, 200).Draw(t, "bytes")
	case "empty":
		data = nil
	case "short":
		data = []byte(rapid.SampledFrom([]string{"", "/", "//", "//8", "//8A", "/v8A", "/v8AAAAA", "AA==", "AAA=", "AAAA", "AAAAAAA=", "=", "====", "A"}).Draw(t, "s"))
	}
	return
}

func TestC18_Decrypt(t *testing.T) {
	r := ev.Get("C18")
	r.Rule(ruleC18)
	r.Assume("scrypt parameters in generated metadata are capped (N<=2^14, r<=8, p<=2): unbounded values are a resource question, not a crash question; fast work factors stand in for the production ones")
	hx.Check(t, "C18", 6000, 400000, func(t *rapid.T) {
		c, name, data, pw, plain, class := genCiphertext(t)
		for _, pass := range [][]byte{pw, []byte("wrong password")} {
			var out []byte
			var err error
			if p := call(func() { out, err = c.Decrypt(data, pass) }); p != nil {
				t.Fatalf("%s.Decrypt panicked [%s]: %v\n data=%q password=%q", name, class, p, data, pass)
			}
			if class == "valid" {
				if bytes.Equal(pass, pw) {
					if err != nil || !bytes.Equal(out, plain) {
						t.Fatalf("%s: decrypt(encrypt(x)) = %x, %v; want %x", name, out, err, plain)
					}
				} else if err == nil {
					t.Fatalf("%s: a wrong password decrypted the data", name)
				}
			}
			if err == nil && class != "valid" && !bytes.Equal(pass, pw) {
				t.Fatalf("%s: a wrong password and a modified ciphertext [%s] decrypted to %x", name, class, out)
			}
			if err == nil && class == "bitflip" && !bytes.Equal(out, plain) {
				t.Fatalf("%s: a bit-flipped ciphertext decrypted to different data %x (want %x or an error)", name, out, plain)
			}
		}
		r.Count("cipher_" + name)
		r.Count("ct_" + class)
		nt := class != "valid"
		r.Case(nt, append([]byte(name+"/"), data...))
		if r.WantSample(nt) && len(data) < 300 {
			r.Sample(nt, map[string]interface{}{"kind": "decrypt", "cipher": name, "class": class, "data": string(data)})
		}
	})
}

func FuzzC18_DecryptScrypt(f *testing.F) {
	enc, _ := weakScrypt.Encrypt([]byte("hello"), []byte("pw"))
	f.Add(enc)
	f.Add([]byte(""))
	f.Add([]byte("//8A"))
	f.Add([]byte("/v8AAAAA"))
	f.Fuzz(func(t *testing.T, data []byte) {
		raw, err := base64.StdEncoding.DecodeString(string(data))
		if err == nil && len(raw) > 2 {
			// keep the harness itself safe: skip metadata that asks for a huge scrypt work factor
			l := int(binary.LittleEndian.Uint16(raw[:2]))
			if 2+l <= len(raw) {
				var m struct{ N, R, P int }
				if json.Unmarshal(raw[2:2+l], &m) == nil && (m.N > 1<<14 || m.R > 8 || m.P > 2) {
					t.Skip()
				}
			}
		}
		if p := call(func() { _, _ = weakScrypt.Decrypt(data, []byte("pw")) }); p != nil {
			t.Fatalf("panic: %v", p)
		}
	})
}

func FuzzC18_DecryptSha256Xor(f *testing.F) {
	enc, _ := encrypt.DefaultSha256Xor.Encrypt([]byte("hello"), []byte("pw"))
	f.Add(enc)
	f.Add([]byte(""))
	f.Fuzz(func(t *testing.T, data []byte) {
		if p := call(func() { _, _ = encrypt.DefaultSha256Xor.Decrypt(data, []byte("pw")) }); p != nil {
			t.Fatalf("panic: %v", p)
		}
	})
}

// --- wallets ---------------------------------------------------------------------------

func secretsOf(w wallet.Wallet) (out []string) {
	if s := w.Seed(); len(s) >= 6 {
		out = append(out, s)
	}
	if s := w.LastSeed(); len(s) >= 6 {
		out = append(out, s)
	}
	if s := w.SeedPassphrase(); len(s) >= 4 {
		out = append(out, s)
	}
	es, _ := w.GetEntries()
	for _, e := range es {
		out = append(out, e.Secret.Hex())
	}
	return
}

func TestC18_WalletLock(t *testing.T) {
	r := ev.Get("C18")
	r.Rule(ruleC18)
	hx.Check(t, "C18", 120, 8000, func(t *rapid.T) {
		kind := rapid.SampledFrom([]wkind{kDet, kBip, kColl}).Draw(t, "kind")
		ct := rapid.SampledFrom(fastCrypto).Draw(t, "crypto")
		n := rapid.IntRange(0, 4).Draw(t, "n")
		if kind == kDet && n == 0 {
			n = 1
		}
		w := newWallet(t, kind, rapid.IntRange(0, 50).Draw(t, "seed"), n, ct)
		if kind == kBip && rapid.Bool().Draw(t, "change") {
			if _, err := w.GenerateAddresses(wallet.OptionGenerateN(2), wallet.OptionChange()); err != nil {
				t.Fatalf("bip44 change addresses: %v", err)
			}
		}
		secrets := secretsOf(w)
		before, err := w.Serialize()
		if err != nil {
			t.Fatalf("Serialize: %v", err)
		}
		entriesBefore, _ := w.GetEntries()
		pw := []byte(rapid.StringOfN(rapid.RuneFrom(nil, &asciiRange), 1, 10, -1).Draw(t, "pw"))
		if err := w.Lock(pw); err != nil {
			t.Fatalf("%s Lock: %v", kind, err)
		}
		if !w.IsEncrypted() {
			t.Fatalf("wallet not marked encrypted after Lock")
		}
		locked, err := w.Serialize()
		if err != nil {
			t.Fatalf("Serialize locked: %v", err)
		}
		for _, s := range secrets {
			if strings.Contains(string(locked), s) {
				t.Fatalf("%s wallet locked with %s still contains the secret %q in its serialised form", kind, ct, s)
			}
		}
		if w.Seed() != "" || w.LastSeed() != "" || w.SeedPassphrase() != "" {
			t.Fatalf("locked wallet still exposes seed/lastSeed/passphrase")
		}
		les, _ := w.GetEntries()
		for _, e := range les {
			if !e.Secret.Null() {
				t.Fatalf("locked wallet entry %s still holds a secret key", e.Address)
			}
		}
		// structural: the JSON must not carry secret fields
		var js map[string]interface{}
		if json.Unmarshal(locked, &js) == nil {
			if meta, ok := js["meta"].(map[string]interface{}); ok {
				for _, k := range []string{"seed", "lastSeed", "seedPassphrase"} {
					if v, _ := meta[k].(string); v != "" {
						t.Fatalf("locked wallet JSON has meta.%s = %q", k, v)
					}
				}
			}
		}
		// another password is rejected
		if _, err := w.Unlock([]byte(string(pw) + "x")); err == nil {
			t.Fatalf("Unlock accepted a wrong password")
		}
		if _, err := w.Unlock(nil); err == nil {
			t.Fatalf("Unlock accepted an empty password")
		}
		u, err := w.Unlock(pw)
		if err != nil {
			t.Fatalf("Unlock with the right password: %v", err)
		}
		after, err := u.Serialize()
		if err != nil {
			t.Fatalf("Serialize unlocked: %v", err)
		}
		// unlocking returns a copy: the wallet that was locked stays locked and free of secrets
		if still, err := w.Serialize(); err != nil || !bytes.Equal(still, locked) {
			for _, sct := range secrets {
				if strings.Contains(string(still), sct) {
					t.Fatalf("%s wallet: after a successful Unlock the serialised form of the still locked wallet contains the secret %q", kind, sct)
				}
			}
			t.Fatalf("%s wallet: Unlock changed the locked wallet it was called on (err=%v):\n before %s\n after  %s", kind, err, locked, still)
		}
		if !bytes.Equal(normalizeWalletJSON(before), normalizeWalletJSON(after)) {
			t.Fatalf("%s: lock+unlock changed the wallet:\n before %s\n after  %s", kind, before, after)
		}
		entriesAfter, _ := u.GetEntries()
		if fmt.Sprint(entriesBefore) != fmt.Sprint(entriesAfter) {
			t.Fatalf("entries changed by lock+unlock")
		}
		// reload the locked file content and unlock again
		dir := hx.TempDir("c18")
		defer os.RemoveAll(dir)
		fn := filepath.Join(dir, "locked.wlt")
		if err := os.WriteFile(fn, locked, 0600); err != nil {
			t.Fatal(err)
		}
		lw, err := wallet.Load(fn)
		if err != nil || lw == nil {
			t.Fatalf("the locked wallet file does not load: %v", err)
		}
		{
			u2, err := lw.Unlock(pw)
			if err != nil {
				t.Fatalf("Unlock after reload: %v", err)
			}
			a2, _ := u2.Serialize()
			if !bytes.Equal(normalizeWalletJSON(before), normalizeWalletJSON(a2)) {
				t.Fatalf("reload+unlock differs from the original wallet")
			}
		}
		// a bip44 wallet can derive addresses while it is locked; their secret keys are filled in at the next unlock and must
		// be the keys of exactly those addresses - the unlocked wallet equals one that generated the same addresses unlocked
		if kind == kBip && rapid.Bool().Draw(t, "grow_locked") {
			nExt, nChg := rapid.IntRange(0, 2).Draw(t, "grow_ext"), rapid.IntRange(0, 2).Draw(t, "grow_chg")
			twin, err := w.Unlock(pw) // the same wallet, unlocked, grows the same way
			if err != nil {
				t.Fatalf("Unlock: %v", err)
			}
			for _, x := range []struct {
				w wallet.Wallet
			}{{w}, {twin}} {
				if nExt > 0 {
					if _, err := x.w.GenerateAddresses(wallet.OptionGenerateN(uint64(nExt))); err != nil {
						t.Fatalf("generate external: %v", err)
					}
				}
				if nChg > 0 {
					if _, err := x.w.GenerateAddresses(wallet.OptionGenerateN(uint64(nChg)), wallet.OptionChange()); err != nil {
						t.Fatalf("generate change: %v", err)
					}
				}
			}
			grown, err := w.Unlock(pw)
			if err != nil {
				t.Fatalf("Unlock after growing while locked: %v", err)
			}
			ge, _ := grown.GetEntries()
			te, _ := twin.GetEntries()
			if fmt.Sprint(ge) != fmt.Sprint(te) {
				t.Fatalf("bip44 wallet that grew while locked (+%d external, +%d change) unlocks to different entries than the same wallet grown unlocked:\n locked-grown  %v\n unlocked-grown %v", nExt, nChg, ge, te)
			}
			for _, e := range ge {
				if err := e.Verify(); err != nil {
					t.Fatalf("entry %s of the unlocked wallet is inconsistent: %v", e.Address, err)
				}
			}
			// that unlock re-encrypted the secrets of the locked wallet (the new keys were added): the same password must
			// keep working, on the wallet itself and on its serialised form after a reload, and give the same entries
			again, err := w.Unlock(pw)
			if err != nil {
				t.Fatalf("bip44 wallet (%s) that grew while locked: the second Unlock with the same password fails: %v", ct, err)
			}
			ae, _ := again.GetEntries()
			if fmt.Sprint(ae) != fmt.Sprint(te) {
				t.Fatalf("second unlock of the grown wallet gives other entries")
			}
			if lb, err := w.Serialize(); err != nil {
				t.Fatalf("Serialize: %v", err)
			} else {
				for _, sct := range secretsOf(again) {
					if strings.Contains(string(lb), sct) {
						t.Fatalf("the grown, still locked bip44 wallet serialises the secret %q", sct)
					}
				}
				gdir := hx.TempDir("c18grown")
				gfn := filepath.Join(gdir, "grown.wlt")
				if err := os.WriteFile(gfn, lb, 0600); err != nil {
					t.Fatal(err)
				}
				rl, err := wallet.Load(gfn)
				os.RemoveAll(gdir)
				if err != nil {
					t.Fatalf("the grown locked wallet does not load from its serialised form (%s): %v", ct, err)
				}
				ru, err := rl.Unlock(pw)
				if err != nil {
					t.Fatalf("bip44 wallet (%s) that grew while locked: Unlock after a reload fails with the same password: %v", ct, err)
				}
				re, _ := ru.GetEntries()
				if fmt.Sprint(re) != fmt.Sprint(te) {
					t.Fatalf("unlock after reload of the grown wallet gives other entries")
				}
			}
			r.Count("bip44_grew_while_locked")
		}
		r.Count("wallet_" + string(kind) + "_" + string(ct))
		nt := len(entriesBefore) > 0
		r.Case(nt, locked)
		if r.WantSample(nt) {
			r.Sample(nt, map[string]interface{}{"kind": "wallet_lock", "type": string(kind), "crypto": string(ct), "entries": len(entriesBefore), "locked_sha256": hex.EncodeToString(sha256Sum(locked))})
		}
	})
}

func sha256Sum(b []byte) []byte { s := sha256.Sum256(b); return s[:] }

// normalizeWalletJSON removes fields that legitimately differ between an original and an unlocked wallet
// (the crypto bookkeeping fields) by decoding and re-encoding with sorted keys.
func normalizeWalletJSON(b []byte) []byte {
	var js map[string]interface{}
	if err := json.Unmarshal(b, &js); err != nil {
		return b
	}
	if meta, ok := js["meta"].(map[string]interface{}); ok {
		delete(meta, "secrets")
		delete(meta, "encrypted")
		delete(meta, "cryptoType")
		delete(meta, "filename")
	}
	out, _ := json.Marshal(js)
	return out
}

// TestC18_LegacyMetaWallets: wallet files written by old versions carry no cryptoType in their metadata.  Such a wallet
// is locked with the default cipher (scrypt at its real work factor, ~1 GiB and seconds per operation, hence the very
// small case count); everything the property says about lock / unlock must hold for it as well.
func TestC18_LegacyMetaWallets(t *testing.T) {
	r := ev.Get("C18")
	hx.Check(t, "C18", 1, 2, func(t *rapid.T) {
		seed := rapid.IntRange(0, 50).Draw(t, "seed")
		n := rapid.IntRange(1, 3).Draw(t, "n")
		pw := []byte(rapid.StringOfN(rapid.RuneFrom(nil, &asciiRange), 1, 10, -1).Draw(t, "pw"))
		for _, kind := range []wkind{kDet, kBip, kColl} {
			w0 := newWallet(t, kind, seed, n, fastCrypto[0])
			raw, err := w0.Serialize()
			if err != nil {
				t.Fatal(err)
			}
			var js map[string]interface{}
			if err := json.Unmarshal(raw, &js); err != nil {
				t.Fatal(err)
			}
			meta, _ := js["meta"].(map[string]interface{})
			if _, ok := meta["cryptoType"]; !ok {
				t.Fatalf("harness: wallet JSON has no meta.cryptoType to remove")
			}
			delete(meta, "cryptoType")
			legacy, _ := json.Marshal(js)
			dir := hx.TempDir("c18legacy")
			fn := filepath.Join(dir, w0.Filename())
			if err := os.WriteFile(fn, legacy, 0600); err != nil {
				t.Fatal(err)
			}
			w, err := wallet.Load(fn)
			if err != nil {
				// a loader may insist on the field; then there is no such wallet to lock
				r.Count("legacy_meta_refused_by_loader_" + string(kind))
				os.RemoveAll(dir)
				continue
			}
			secrets := secretsOf(w)
			entriesBefore, _ := w.GetEntries()
			before, _ := w.Serialize()
			if err := w.Lock(pw); err != nil {
				t.Fatalf("%s wallet without meta.cryptoType: Lock: %v", kind, err)
			}
			locked, err := w.Serialize()
			if err != nil {
				t.Fatal(err)
			}
			for _, s := range secrets {
				if strings.Contains(string(locked), s) {
					t.Fatalf("%s wallet without meta.cryptoType, locked: serialised form still contains the secret %q", kind, s)
				}
			}
			if _, err := w.Unlock([]byte(string(pw) + "x")); err == nil {
				t.Fatalf("Unlock accepted a wrong password")
			}
			// the locked file goes through a save and a load, as the wallet service does
			if err := os.WriteFile(fn, locked, 0600); err != nil {
				t.Fatal(err)
			}
			lw, err := wallet.Load(fn)
			if err != nil {
				t.Fatalf("%s wallet without meta.cryptoType: the file written after Lock does not load: %v", kind, err)
			}
			u, err := lw.Unlock(pw)
			if err != nil {
				t.Fatalf("%s wallet without meta.cryptoType: Unlock with the password it was locked with: %v", kind, err)
			}
			after, _ := u.Serialize()
			if !bytes.Equal(normalizeWalletJSON(before), normalizeWalletJSON(after)) {
				t.Fatalf("%s: lock+unlock changed the legacy wallet:\n before %s\n after  %s", kind, before, after)
			}
			entriesAfter, _ := u.GetEntries()
			if fmt.Sprint(entriesBefore) != fmt.Sprint(entriesAfter) || fmt.Sprint(secrets) != fmt.Sprint(secretsOf(u)) {
				t.Fatalf("%s: secrets or entries changed by lock+unlock of a legacy wallet", kind)
			}
			os.RemoveAll(dir)
			r.Count("legacy_meta_wallet_locked_" + string(kind))
			r.Case(true, append([]byte("legacy/"), locked...))
		}
	})
}
