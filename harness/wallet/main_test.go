package wallet

import (
	"fmt"
	"testing"
	"unicode"

	"pgregory.net/rapid"

	"github.com/skycoin/skycoin/src/cipher"
	"github.com/skycoin/skycoin/src/cipher/bip39"
	"github.com/skycoin/skycoin/src/cipher/bip44"
	"github.com/skycoin/skycoin/src/cipher/crypto"
	"github.com/skycoin/skycoin/src/wallet"
	"github.com/skycoin/skycoin/src/wallet/bip44wallet"
	"github.com/skycoin/skycoin/src/wallet/collection"
	"github.com/skycoin/skycoin/src/wallet/deterministic"
	"github.com/skycoin/skycoin/src/wallet/xpubwallet"

	"verif/harness/internal/hx"
)

func TestMain(m *testing.M) { hx.Main(m) }

func call(f func()) (p interface{}) {
	defer func() { p = recover() }()
	f()
	return nil
}

func errf(format string, a ...interface{}) error { return fmt.Errorf(format, a...) }

// fast crypto types for wallets (the default scrypt work factor takes seconds per operation)
var fastCrypto = []crypto.CryptoType{crypto.CryptoTypeSha256Xor, crypto.CryptoTypeSha256Xor, crypto.CryptoTypeSha256Xor, crypto.CryptoTypeSha256Xor, crypto.CryptoTypeSha256Xor, crypto.CryptoTypeSha256Xor, crypto.CryptoTypeSha256Xor, crypto.CryptoTypeScryptChacha20poly1305Insecure}

// mnemonics derived from fixed entropies (bip44 wallets need a valid mnemonic)
func mnemonicN(i int) string {
	ent := make([]byte, 16)
	ent[0], ent[1], ent[15] = byte(i), byte(i>>8), 0x5a
	m, err := bip39.NewMnemonic(ent)
	if err != nil {
		panic(err)
	}
	return m
}

type wkind string

const (
	kDet  wkind = "deterministic"
	kBip  wkind = "bip44"
	kColl wkind = "collection"
	kXpub wkind = "xpub"
)

// newWallet builds a wallet of the given kind with n addresses (collection: n generated keys).
// bipBitcoin: bip44 wallets made by newWallet use the bitcoin coin type (set per case by the tests that vary it)
var bipBitcoin bool

func newWallet(t *rapid.T, kind wkind, seedIdx, n int, ct crypto.CryptoType) wallet.Wallet {
	var w wallet.Wallet
	var err error
	switch kind {
	case kDet:
		w, err = deterministic.NewWallet("det.wlt", "label", fmt.Sprintf("seed-%d", seedIdx), wallet.OptionCryptoType(ct), wallet.OptionGenerateN(uint64(n)))
	case kBip:
		opts := []wallet.Option{wallet.OptionCryptoType(ct), wallet.OptionGenerateN(uint64(n))}
		if bipBitcoin {
			opts = append([]wallet.Option{wallet.OptionCoinType(wallet.CoinTypeBitcoin)}, opts...)
		}
		w, err = bip44wallet.NewWallet("bip.wlt", "label", mnemonicN(seedIdx), fmt.Sprintf("pass%d", seedIdx%3), opts...)
	case kColl:
		var cw *collection.Wallet
		cw, err = collection.NewWallet("coll.wlt", "label", wallet.OptionCryptoType(ct))
		if err == nil {
			for i := 0; i < n; i++ {
				_, sec, e := cipher.GenerateDeterministicKeyPair([]byte(fmt.Sprintf("coll-%d-%d", seedIdx, i)))
				if e != nil {
					panic(e)
				}
				pub := cipher.MustPubKeyFromSecKey(sec)
				if e := cw.AddEntry(wallet.Entry{Address: cipher.AddressFromPubKey(pub), Public: pub, Secret: sec}); e != nil {
					t.Fatalf("collection AddEntry: %v", e)
				}
			}
			w = cw
		}
	case kXpub:
		bw, e := bip44wallet.NewWallet("bip.wlt", "label", mnemonicN(seedIdx), "", wallet.OptionGenerateN(1))
		if e != nil {
			t.Fatalf("bip44 for xpub: %v", e)
		}
		xpub, e := accountXPub(bw)
		if e != nil {
			t.Fatalf("xpub: %v", e)
		}
		w, err = xpubwallet.NewWallet("xpub.wlt", "label", xpub, wallet.OptionGenerateN(uint64(n)))
	}
	if err != nil {
		t.Fatalf("new %s wallet: %v", kind, err)
	}
	return w
}

// accountXPub returns the extended public key of the external chain of account 0 of a bip44 wallet
// (the key a watch-only wallet is created from).
func accountXPub(bw *bip44wallet.Wallet) (string, error) {
	seed, err := bip39.NewSeed(bw.Seed(), bw.SeedPassphrase())
	if err != nil {
		return "", err
	}
	c, err := bip44.NewCoin(seed, bip44.CoinTypeSkycoin)
	if err != nil {
		return "", err
	}
	a, err := c.Account(0)
	if err != nil {
		return "", err
	}
	ext, err := a.External()
	if err != nil {
		return "", err
	}
	return ext.PublicKey().String(), nil
}

var asciiRange = unicode.RangeTable{R16: []unicode.Range16{{Lo: 0x21, Hi: 0x7e, Stride: 1}}, LatinOffset: 1}
