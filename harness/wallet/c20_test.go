package wallet

import (
	"encoding/json"
	"fmt"
	"os"
	"os/exec"
	"path/filepath"
	"regexp"
	"sort"
	"strconv"
	"strings"
	"testing"

	"pgregory.net/rapid"

	"github.com/skycoin/skycoin/src/cipher/crypto"
	"github.com/skycoin/skycoin/src/kvstorage"
	"github.com/skycoin/skycoin/src/wallet"

	"verif/harness/internal/ev"
	"verif/harness/internal/hx"
)

const ruleC20 = "generated save scenarios: a wallet service directory holding one deterministic wallet with 1-4 addresses (optionally a second wallet) and an operation {label change, new addresses, encrypt, create another wallet}, or a key-value storage with 0-4 keys and {add, overwrite, remove}; the operation runs in a helper process under strace, first untraced-to-completion to list its file-system syscalls (openat, write, close, rename*, unlink*, fsync, ftruncate, ...) after a marker, then once per listed syscall with `inject=<syscall>:signal=KILL:when=<k>` so that the process dies immediately before that syscall executes (ordered-write crash model: every prefix of the save's file-system operations); additionally, when the last completed syscall was a data write, torn variants truncate the written file to 1, half and all-but-one bytes; oracle: a fresh wallet service / storage manager starts on the crashed directory and every wallet / the storage holds either the content from before the operation or the content after it; non-trivial = the crash point lies after the first modification of the target file (truncate, write or rename); distinct by (scenario, crash point)"

var fsSyscalls = []string{"openat", "write", "close", "rename", "renameat", "renameat2", "unlink", "unlinkat", "fsync", "fdatasync", "ftruncate", "truncate", "fchmod", "chmod", "mkdir", "mkdirat", "pwrite64", "writev", "link", "linkat"}

var straceLine = regexp.MustCompile(`^(\d+)\s+([a-z0-9_]+)\((.*)$`)

type scEntry struct {
	tid  string
	name string
	rest string
	ord  int // ordinal of this syscall name within its thread (for when=)
}

func helperPath(t *testing.T) string {
	p := filepath.Join(os.Getenv("VERIF_BUILD"), "savehelper"+os.Getenv("VERIF_HELPER_SUFFIX"))
	if _, err := os.Stat(p); err != nil {
		fmt.Fprintf(os.Stderr, "HARNESS-SETUP-FAILED save helper not built (%v)\n", err)
		t.Skipf("save helper not built (%v)", err)
	}
	return p
}

func straceAvailable() error {
	out, err := exec.Command("strace", "-f", "-o", "/dev/null", "-e", "trace=openat", "-e", "inject=openat:signal=KILL:when=60000", "true").CombinedOutput()
	if err != nil {
		return fmt.Errorf("strace not usable: %v %s", err, out)
	}
	return nil
}

func copyDir(t *rapid.T, src, dst string) {
	if err := os.MkdirAll(dst, 0700); err != nil {
		t.Fatal(err)
	}
	ents, err := os.ReadDir(src)
	if err != nil {
		t.Fatal(err)
	}
	for _, e := range ents {
		b, err := os.ReadFile(filepath.Join(src, e.Name()))
		if err != nil {
			t.Fatal(err)
		}
		if err := os.WriteFile(filepath.Join(dst, e.Name()), b, 0600); err != nil {
			t.Fatal(err)
		}
	}
}

// runTraced runs the helper under strace; inject may be "" (dry run).  Returns the parsed entries and whether it was killed.
func runTraced(t *rapid.T, helper string, args []string, inject string) ([]scEntry, bool) {
	logf := filepath.Join(hx.Scratch(), fmt.Sprintf("strace-%d.log", os.Getpid()))
	defer os.Remove(logf)
	a := []string{"-f", "-y", "-s", "0", "-o", logf, "-e", "trace=" + strings.Join(fsSyscalls, ",")}
	if inject != "" {
		a = append(a, "-e", "inject="+inject)
	}
	a = append(a, helper)
	a = append(a, args...)
	cmd := exec.Command("strace", a...)
	out, err := cmd.CombinedOutput()
	killed := false
	if err != nil {
		if ee, ok := err.(*exec.ExitError); ok && (ee.ExitCode() == 137 || ee.ExitCode() == -1) {
			killed = true
		} else {
			t.Fatalf("helper failed: %v\n%s", err, out)
		}
	}
	b, _ := os.ReadFile(logf)
	var ents []scEntry
	ord := map[string]int{}
	for _, line := range strings.Split(string(b), "\n") {
		m := straceLine.FindStringSubmatch(line)
		if m == nil {
			continue
		}
		k := m[1] + "/" + m[2]
		ord[k]++
		ents = append(ents, scEntry{tid: m[1], name: m[2], rest: m[3], ord: ord[k]})
	}
	return ents, killed
}

type c20Scenario struct {
	kind   string // wallet | kv
	op     string
	args   []string
	base   string            // prepared directory
	oldW   map[string]string // wallet id -> serialisation before
	newW   map[string]string
	oldKV  map[string]string
	newKV  map[string]string
	target string // file name that the operation rewrites
}

func walletsOf(dir string) (map[string]string, error) {
	cfg := wallet.NewConfig()
	cfg.WalletDir = dir
	cfg.EnableWalletAPI = true
	cfg.CryptoType = crypto.CryptoTypeSha256Xor
	s, err := wallet.NewService(cfg)
	if err != nil {
		return nil, err
	}
	ws, err := s.GetWallets()
	if err != nil {
		return nil, err
	}
	out := map[string]string{}
	for id, w := range ws {
		b, err := w.Serialize()
		if err != nil {
			return nil, err
		}
		// the creation time stamp (wall clock seconds) differs between two runs of the same
		// creating operation; it is not content the property speaks about
		out[id] = tmRe.ReplaceAllString(string(b), `"tm": "T"`)
	}
	return out, nil
}

var tmRe = regexp.MustCompile(`"tm":\s*"\d+"`)

func kvOf(dir string) (map[string]string, error) {
	c := kvstorage.NewConfig()
	c.StorageDir = dir
	c.EnableStorageAPI = true
	c.EnabledStorages = []kvstorage.Type{kvstorage.TypeGeneral}
	m, err := kvstorage.NewManager(c)
	if err != nil {
		return nil, err
	}
	return m.GetAllStorageValues(kvstorage.TypeGeneral)
}

func mapsEqual(a, b map[string]string) bool {
	if len(a) != len(b) {
		return false
	}
	for k, v := range a {
		if w, ok := b[k]; !ok || w != v {
			return false
		}
	}
	return true
}

// argText draws a text that can travel as a command-line argument of the helper (no NUL byte)
func argText(t *rapid.T, min, max, maxBytes int, label string) string {
	return strings.ReplaceAll(rapid.StringN(min, max, maxBytes).Draw(t, label), "\x00", "?")
}

func genScenario(t *rapid.T) c20Scenario {
	var sc c20Scenario
	sc.base = hx.TempDir("c20base")
	if rapid.IntRange(0, 2).Draw(t, "kv") == 0 {
		sc.kind = "kv"
		if rapid.IntRange(0, 4).Draw(t, "first_start") == 2 {
			// the very first start: the storage directory is empty and the manager writes the initial file
			sc.op, sc.target = "kv-init", "client.json"
			return sc
		}
		c := kvstorage.NewConfig()
		c.StorageDir = sc.base
		c.EnableStorageAPI = true
		c.EnabledStorages = []kvstorage.Type{kvstorage.TypeGeneral}
		m, err := kvstorage.NewManager(c)
		if err != nil {
			t.Fatal(err)
		}
		n := rapid.IntRange(0, 4).Draw(t, "keys")
		for i := 0; i < n; i++ {
			if err := m.AddStorageValue(kvstorage.TypeGeneral, fmt.Sprintf("key%d", i), argText(t, 0, 40, 80, "val")); err != nil {
				t.Fatal(err)
			}
		}
		sc.target = "client.json"
		switch {
		case n > 0 && rapid.Bool().Draw(t, "remove"):
			sc.op, sc.args = "kv-remove", []string{"key0"}
		case n > 0 && rapid.Bool().Draw(t, "overwrite"):
			sc.op, sc.args = "kv-add", []string{"key0", "overwritten value"}
		default:
			sc.op, sc.args = "kv-add", []string{"newkey", argText(t, 1, 30, 60, "newval")}
		}
		return sc
	}
	sc.kind = "wallet"
	cfg := wallet.NewConfig()
	cfg.WalletDir = sc.base
	cfg.EnableWalletAPI = true
	cfg.CryptoType = crypto.CryptoTypeSha256Xor
	s, err := wallet.NewService(cfg)
	if err != nil {
		t.Fatal(err)
	}
	if _, err := s.CreateWallet("w.wlt", wallet.Options{Type: wallet.WalletTypeDeterministic, Seed: "c20 seed " + strconv.Itoa(rapid.IntRange(0, 9).Draw(t, "seed")), Label: "first", CryptoType: crypto.CryptoTypeSha256Xor, GenerateN: uint64(rapid.IntRange(1, 4).Draw(t, "n"))}); err != nil {
		t.Fatal(err)
	}
	if rapid.Bool().Draw(t, "second") {
		if _, err := s.CreateWallet("other.wlt", wallet.Options{Type: wallet.WalletTypeDeterministic, Seed: "another seed", Label: "second", CryptoType: crypto.CryptoTypeSha256Xor, GenerateN: 1}); err != nil {
			t.Fatal(err)
		}
	}
	sc.target = "w.wlt"
	switch rapid.IntRange(0, 3).Draw(t, "wop") {
	case 0:
		sc.op, sc.args = "wallet-label", []string{"w.wlt", "renamed " + argText(t, 0, 10, 20, "label")}
	case 1:
		sc.op, sc.args = "wallet-newaddr", []string{"w.wlt", strconv.Itoa(rapid.IntRange(1, 3).Draw(t, "more"))}
	case 2:
		sc.op, sc.args = "wallet-encrypt", []string{"w.wlt", "pw"}
	default:
		sc.op, sc.args = "wallet-create", []string{"fresh seed"}
		sc.target = "created.wlt"
	}
	return sc
}

func TestC20_CrashDuringSave(t *testing.T) {
	r := ev.Get("C20")
	r.Level("fault_enumeration")
	r.Rule(ruleC20)
	r.Assume("crash model: the process stops between two file-system syscalls and everything issued before has reached the disk in order (no reordering by the kernel/disk); torn writes are modelled as a prefix of the last written buffer")
	helper := helperPath(t)
	if err := straceAvailable(); err != nil {
		fmt.Fprintf(os.Stderr, "HARNESS-SETUP-FAILED %v\n", err)
		t.Skipf("%v", err)
	}
	r.Set("injector", "strace -e inject=<syscall>:signal=KILL:when=<k>")
	hx.Check(t, "C20", 24, 600, func(t *rapid.T) {
		sc := genScenario(t)
		defer os.RemoveAll(sc.base)
		var err error
		if sc.kind == "wallet" {
			sc.oldW, err = walletsOf(sc.base)
		} else if sc.op == "kv-init" {
			sc.oldKV = map[string]string{} // nothing stored yet (looking would create the file)
		} else {
			sc.oldKV, err = kvOf(sc.base)
		}
		if err != nil {
			t.Fatalf("prepared directory does not load: %v", err)
		}
		// dry run
		dry := hx.TempDir("c20dry")
		defer os.RemoveAll(dry)
		copyDir(t, sc.base, dry)
		ents, killed := runTraced(t, helper, append([]string{sc.op, dry}, sc.args...), "")
		if killed {
			t.Fatalf("dry run was killed")
		}
		if sc.kind == "wallet" {
			sc.newW, err = walletsOf(dry)
		} else {
			sc.newKV, err = kvOf(dry)
		}
		if err != nil {
			t.Fatalf("directory after the completed operation does not load: %v", err)
		}
		start := -1
		for i, e := range ents {
			if strings.Contains(e.rest, "VERIF_MARKER") {
				start = i + 1
			}
		}
		if start < 0 {
			t.Fatalf("marker not found in the strace log (%d entries)", len(ents))
		}
		ops := ents[start:]
		var plan []scEntry
		for _, e := range ops {
			if e.tid == ents[start-1].tid || true {
				plan = append(plan, e)
			}
		}
		if len(plan) == 0 {
			t.Fatalf("the operation performs no file-system syscall")
		}
		checked := 0
		check := func(dir, what string, touched bool) {
			if sc.kind == "wallet" {
				got, err := walletsOf(dir)
				if err != nil {
					t.Fatalf("after a crash %s of %s the wallet service does not start: %v\n syscalls of the save: %s", what, sc.op, err, describePlan(plan))
				}
				for id, want := range sc.oldW {
					g, ok := got[id]
					if !ok {
						t.Fatalf("after a crash %s of %s wallet %s is gone\n syscalls: %s", what, sc.op, id, describePlan(plan))
					}
					if g != want && g != sc.newW[id] {
						t.Fatalf("after a crash %s of %s wallet %s holds neither the old nor the new content:\n %s\n syscalls: %s", what, sc.op, id, g, describePlan(plan))
					}
				}
				for id, g := range got {
					if _, old := sc.oldW[id]; !old && g != sc.newW[id] {
						t.Fatalf("after a crash %s of %s the new wallet %s holds partial content", what, sc.op, id)
					}
				}
			} else {
				got, err := kvOf(dir)
				if err != nil {
					t.Fatalf("after a crash %s of %s the storage manager does not start: %v", what, sc.op, err)
				}
				if !mapsEqual(got, sc.oldKV) && !mapsEqual(got, sc.newKV) {
					t.Fatalf("after a crash %s of %s the storage holds %v, neither the old %v nor the new %v\n syscalls: %s", what, sc.op, got, sc.oldKV, sc.newKV, describePlan(plan))
				}
			}
			// the interrupted operation is done again on the recovered directory (what a user does after the restart):
			// whatever the crash left beside the file must not stand in its way
			checked++
			if (sc.op != "wallet-create" || sc.kind == "kv") && (touched || checked%3 == 1) {
				retry := hx.TempDir("c20retry")
				copyDir(t, dir, retry)
				out, rerr := exec.Command(helper, append([]string{sc.op, retry}, sc.args...)...).CombinedOutput()
				already := strings.Contains(string(out), "already") || strings.Contains(string(out), "encrypted") || strings.Contains(string(out), "exist")
				if rerr != nil && !(already && sc.kind == "wallet") {
					t.Fatalf("after a crash %s of %s, doing the operation again on the recovered directory fails: %v %s\n files: %v\n syscalls: %s", what, sc.op, rerr, out, listDir(retry), describePlan(plan))
				}
				if rerr == nil {
					if sc.kind == "wallet" {
						// (compared only for the label change: encryption draws a fresh nonce and new addresses may add up)
						if got, err := walletsOf(retry); err != nil || (sc.op == "wallet-label" && got[sc.target] != sc.newW[sc.target]) {
							t.Fatalf("after a crash %s of %s and a repeated operation the wallet is not in the new state (err=%v)", what, sc.op, err)
						}
					} else if got, err := kvOf(retry); err != nil || !mapsEqual(got, sc.newKV) {
						t.Fatalf("after a crash %s of %s and a repeated operation the storage holds %v, want %v (err=%v)", what, sc.op, got, sc.newKV, err)
					}
					r.Count("operation_repeated_after_crash")
				}
				// and a later, different save that makes the file SHORTER (a short label / a removed key): whatever the
				// crash left behind must not leak into it
				if rerr == nil || already {
					// (on a fresh copy of the crash state: the repeated operation above has cleaned up after itself)
					os.RemoveAll(retry)
					retry = hx.TempDir("c20short")
					copyDir(t, dir, retry)
					var fout []byte
					var ferr error
					did := false
					if sc.kind == "wallet" {
						fout, ferr = exec.Command(helper, "wallet-label", retry, "w.wlt", "s").CombinedOutput()
						did = true
					} else if len(sc.oldKV) > 0 || len(sc.newKV) > 0 {
						for k := range sc.newKV {
							if _, both := sc.oldKV[k]; both {
								fout, ferr = exec.Command(helper, "kv-remove", retry, k).CombinedOutput()
								did = true
								break
							}
						}
					}
					if did {
						if ferr != nil {
							t.Fatalf("after a crash %s of %s, a later save that shortens the file fails: %v %s\n files: %v", what, sc.op, ferr, fout, listDir(retry))
						}
						if sc.kind == "wallet" {
							if _, err := walletsOf(retry); err != nil {
								t.Fatalf("after a crash %s of %s and a later save that shortens the wallet file, the wallet service no longer starts: %v\n files: %v\n syscalls: %s", what, sc.op, err, listDir(retry), describePlan(plan))
							}
						} else if _, err := kvOf(retry); err != nil {
							t.Fatalf("after a crash %s of %s and a later save that shortens the storage file, the storage manager no longer starts: %v", what, sc.op, err)
						}
						r.Count("shortening_save_after_crash")
					}
				}
				os.RemoveAll(retry)
			}
			r.Count("crash_states")
			r.CaseS(touched, fmt.Sprintf("%s/%v/%s/%s", sc.op, sc.args, what, describePlan(plan)))
		}
		touched := false
		for i, e := range plan {
			run := hx.TempDir("c20run")
			copyDir(t, sc.base, run)
			args := append([]string{sc.op, run}, sc.args...)
			var killed bool
			for attempt := 0; attempt < 3; attempt++ {
				var ents2 []scEntry
				ents2, killed = runTraced(t, helper, args, fmt.Sprintf("%s:signal=KILL:when=%d", e.name, e.ord))
				// the run must have performed exactly the first i syscalls of the plan (plus the killed one)
				if killed && alignedWithPlan(ents2, plan, i) {
					break
				}
				if attempt == 2 {
					// still a genuine crash state of the real save (the oracle is sound for any), but not the planned one
					if killed {
						r.Count("injection_elsewhere")
					} else {
						r.Count("injection_not_reached")
					}
					break
				}
				os.RemoveAll(run)
				run = hx.TempDir("c20run")
				copyDir(t, sc.base, run)
				args = append([]string{sc.op, run}, sc.args...)
			}
			what := fmt.Sprintf("before syscall %d/%d (%s %s)", i+1, len(plan), e.name, trimRest(e.rest))
			check(run, what, touched)
			// torn variants of the previous data write
			if i > 0 && plan[i-1].name == "write" {
				if fn := fdPath(plan[i-1].rest); fn != "" {
					name := filepath.Base(fn)
					full, err := os.ReadFile(filepath.Join(run, name))
					if err == nil && len(full) > 1 {
						for _, k := range []int{1, len(full) / 2, len(full) - 1} {
							torn := hx.TempDir("c20torn")
							copyDir(t, run, torn)
							_ = os.WriteFile(filepath.Join(torn, name), full[:k], 0600)
							check(torn, fmt.Sprintf("with the write to %s torn at %d of %d bytes", name, k, len(full)), true)
							os.RemoveAll(torn)
							r.Count("torn_states")
						}
					}
				}
			}
			if strings.Contains(e.rest, "/"+sc.target+"\"") || strings.Contains(e.rest, "/"+sc.target+">") {
				touched = true // from here on the target file has been opened for writing / renamed over
			}
			os.RemoveAll(run)
		}
		r.CountN("syscalls_enumerated", int64(len(plan)))
		r.Count("op_" + sc.op)
		if r.WantSample(true) {
			r.Sample(true, map[string]interface{}{"operation": sc.op, "args": sc.args, "syscalls_of_the_save": strings.Split(describePlan(plan), "; ")})
		}
	})
}

// alignedWithPlan: after the marker the injected run shows the first i planned syscalls, then the killed one
func alignedWithPlan(ents []scEntry, plan []scEntry, i int) bool {
	start := -1
	for k, e := range ents {
		if strings.Contains(e.rest, "VERIF_MARKER") {
			start = k + 1
		}
	}
	if start < 0 {
		return false
	}
	got := ents[start:]
	if len(got) != i+1 {
		return false
	}
	for k := range got {
		if got[k].name != plan[k].name {
			return false
		}
	}
	return true
}

var fdPathRe = regexp.MustCompile(`^\d+<([^>]+)>`)

func fdPath(rest string) string {
	m := fdPathRe.FindStringSubmatch(rest)
	if m == nil {
		return ""
	}
	return m[1]
}

func trimRest(s string) string {
	if len(s) > 90 {
		s = s[:90]
	}
	return s
}

func describePlan(p []scEntry) string {
	var out []string
	for _, e := range p {
		s := e.name
		if f := fdPath(e.rest); f != "" {
			s += " " + filepath.Base(f)
		} else if i := strings.Index(e.rest, "\""); i >= 0 {
			if j := strings.Index(e.rest[i+1:], "\""); j >= 0 {
				s += " " + filepath.Base(e.rest[i+1:i+1+j])
			}
		}
		out = append(out, s)
	}
	return strings.Join(out, "; ")
}

var _ = json.Marshal
var _ = sort.Strings

func listDir(dir string) []string {
	var out []string
	fs, _ := os.ReadDir(dir)
	for _, f := range fs {
		out = append(out, f.Name())
	}
	return out
}
