package wallet

import (
	"fmt"
	"os"
	"path/filepath"
	"testing"

	"pgregory.net/rapid"

	"github.com/skycoin/skycoin/src/cipher"
	"github.com/skycoin/skycoin/src/cipher/crypto"
	"github.com/skycoin/skycoin/src/wallet"
	"github.com/skycoin/skycoin/src/wallet/bip44wallet"

	"verif/harness/internal/ev"
	"verif/harness/internal/hx"
	"verif/harness/internal/ref/bip"
	"verif/harness/internal/ref/curve"
	"verif/harness/internal/ref/rules"
)

// TestC17_Accounts: "the addresses a wallet derives depend only on its seed (and passphrase, account and chain) and on how
// many have been derived" - for bip44 wallets with several accounts.  Addresses are generated per account and chain in
// drawn batches, with save + load, lock + unlock and clone steps in between; every entry must be the reference derivation
// m/44'/8000'/account'/chain/index of the seed and hold the secret key of its public key.
func TestC17_Accounts(t *testing.T) {
	r := ev.Get("C17")
	r.Rule("bip44 accounts: a wallet gets 1-2 further accounts; 3-10 steps draw from {generate 1-3 addresses on a drawn account and chain, save + load, lock + unlock (sha256-xor), clone}; oracle: after every step each account's external and change entries are exactly the reference derivation m/44'/8000'/a'/c/i (independent BIP32/BIP39 implementation) for i below the number generated so far, and every entry that holds a secret key holds the one of its public key; non-trivial = addresses were generated on at least two accounts and a lock/unlock or save/load happened; distinct by history")
	words, werr := wordList()
	if werr != nil {
		t.Fatal(werr)
	}
	hx.Check(t, "C17", 40, 2500, func(t *rapid.T) {
		seedIdx := rapid.IntRange(0, 100).Draw(t, "seed")
		mn := mnemonicN(seedIdx)
		pass := rapid.SampledFrom([]string{"", "pp"}).Draw(t, "passphrase")
		w0, err := bip44wallet.NewWallet("acc.wlt", "label", mn, pass, wallet.OptionCryptoType(crypto.CryptoTypeSha256Xor), wallet.OptionGenerateN(1))
		if err != nil {
			t.Fatal(err)
		}
		var w wallet.Wallet = w0
		if _, ok := bip.Entropy(words, mn); !ok {
			t.Fatalf("harness mnemonic invalid")
		}
		m, _ := bip.Master(bip.Seed(mn, pass))
		nAcc := 1 + rapid.IntRange(1, 2).Draw(t, "more_accounts")
		for a := 1; a < nAcc; a++ {
			idx, err := w.(*bip44wallet.Wallet).NewAccount(fmt.Sprintf("account %d", a))
			if err != nil || int(idx) != a {
				t.Fatalf("NewAccount: index %d err %v, want %d", idx, err, a)
			}
		}
		count := map[[2]int]int{{0, 0}: 1} // (account, chain) -> addresses generated so far (the wallet starts with one external address)
		var hist []string
		used := map[int]bool{}
		mixed := false
		check := func(after string) {
			hist = append(hist, after)
			bw, ok := w.(*bip44wallet.Wallet)
			if !ok {
				t.Fatalf("wallet is a %T after %v", w, hist)
			}
			if len(bw.Accounts()) != nAcc {
				t.Fatalf("wallet has %d accounts after %v, want %d", len(bw.Accounts()), hist, nAcc)
			}
			for a := 0; a < nAcc; a++ {
				for c := 0; c < 2; c++ {
					opts := []wallet.Option{wallet.OptionAccount(uint32(a)), wallet.OptionExternal()}
					if c == 1 {
						opts = []wallet.Option{wallet.OptionAccount(uint32(a)), wallet.OptionChange()}
					}
					es, err := w.GetEntries(opts...)
					if err != nil {
						t.Fatalf("GetEntries(account %d chain %d) after %v: %v", a, c, hist, err)
					}
					if len(es) != count[[2]int{a, c}] {
						t.Fatalf("account %d chain %d holds %d entries after %v, %d were generated", a, c, len(es), hist, count[[2]int{a, c}])
					}
					for i, e := range es {
						k, err := m.Derive([]uint32{bip.Hardened + 44, bip.Hardened + 8000, bip.Hardened + uint32(a), uint32(c), uint32(i)})
						if err != nil {
							t.Fatal(err)
						}
						if want := rules.AddrOfPub(curve.Compress(k.Pub)).String(); e.Address.String() != want {
							t.Fatalf("after %v: entry m/44'/8000'/%d'/%d/%d is %s, the reference derivation gives %s", hist, a, c, i, e.Address, want)
						}
						if !e.Secret.Null() {
							p, err := cipher.PubKeyFromSecKey(e.Secret)
							if err != nil || p != e.Public {
								t.Fatalf("after %v: entry m/44'/8000'/%d'/%d/%d (%s) holds a secret key that is not the key of its public key", hist, a, c, i, e.Address)
							}
							if want := ref32(k); e.Secret.Hex() != want {
								t.Fatalf("after %v: entry m/44'/8000'/%d'/%d/%d holds the secret key %s, the reference derivation gives %s", hist, a, c, i, e.Secret.Hex(), want)
							}
						} else if !w.IsEncrypted() {
							t.Fatalf("after %v: entry m/44'/8000'/%d'/%d/%d of an unlocked wallet has no secret key", hist, a, c, i)
						}
					}
				}
			}
		}
		// what a new wallet / a new account starts with is taken from the wallet (a bip44 wallet opens its change chain with
		// one address); from then on the count is kept by the harness
		for a := 0; a < nAcc; a++ {
			for c := 0; c < 2; c++ {
				opts := []wallet.Option{wallet.OptionAccount(uint32(a)), wallet.OptionExternal()}
				if c == 1 {
					opts = []wallet.Option{wallet.OptionAccount(uint32(a)), wallet.OptionChange()}
				}
				es, err := w.GetEntries(opts...)
				if err != nil {
					t.Fatal(err)
				}
				count[[2]int{a, c}] = len(es)
			}
		}
		check("create")
		steps := rapid.IntRange(3, 10).Draw(t, "steps")
		for s := 0; s < steps; s++ {
			switch rapid.SampledFrom([]string{"generate", "generate", "generate", "reload", "lock_unlock", "clone"}).Draw(t, "step") {
			case "generate":
				a, c, n := rapid.IntRange(0, nAcc-1).Draw(t, "account"), rapid.IntRange(0, 1).Draw(t, "chain"), rapid.IntRange(1, 3).Draw(t, "n")
				opts := []wallet.Option{wallet.OptionAccount(uint32(a)), wallet.OptionGenerateN(uint64(n))}
				if c == 1 {
					opts = append(opts, wallet.OptionChange())
				}
				if _, err := w.GenerateAddresses(opts...); err != nil {
					t.Fatalf("GenerateAddresses(account %d chain %d n %d) after %v: %v", a, c, n, hist, err)
				}
				count[[2]int{a, c}] += n
				used[a] = true
				check(fmt.Sprintf("generate(a%d,c%d,%d)", a, c, n))
			case "reload":
				dir := hx.TempDir("c17acc")
				if err := wallet.Save(w, dir); err != nil {
					t.Fatalf("save: %v", err)
				}
				lw, err := wallet.Load(filepath.Join(dir, w.Filename()))
				os.RemoveAll(dir)
				if err != nil {
					t.Fatalf("load after %v: %v", hist, err)
				}
				w = lw
				mixed = true
				check("reload")
			case "lock_unlock":
				if err := w.Lock([]byte("pw")); err != nil {
					t.Fatalf("lock: %v", err)
				}
				if rapid.Bool().Draw(t, "grow_locked") {
					a, c := rapid.IntRange(0, nAcc-1).Draw(t, "laccount"), rapid.IntRange(0, 1).Draw(t, "lchain")
					opts := []wallet.Option{wallet.OptionAccount(uint32(a)), wallet.OptionGenerateN(1)}
					if c == 1 {
						opts = append(opts, wallet.OptionChange())
					}
					if _, err := w.GenerateAddresses(opts...); err != nil {
						t.Fatalf("generate while locked: %v", err)
					}
					count[[2]int{a, c}]++
					used[a] = true
				}
				u, err := w.Unlock([]byte("pw"))
				if err != nil {
					t.Fatalf("unlock after %v: %v", hist, err)
				}
				w = u
				mixed = true
				check("lock_unlock")
			default:
				w = w.Clone()
				check("clone")
			}
		}
		nt := len(used) >= 2 && mixed
		r.CaseS(nt, fmt.Sprintf("accounts/%d/%q/%v", seedIdx, pass, hist))
		r.Count("bip44_multi_account_histories")
	})
}

func ref32(k *bip.XKey) string {
	b := make([]byte, 32)
	k.Priv.FillBytes(b)
	return fmt.Sprintf("%x", b)
}
