package wallet

import (
	"bytes"
	"errors"
	"fmt"
	"os"
	"path/filepath"
	"sort"
	"strings"
	"testing"
	"time"

	"pgregory.net/rapid"

	"github.com/skycoin/skycoin/src/cipher"
	"github.com/skycoin/skycoin/src/cipher/bip44"
	"github.com/skycoin/skycoin/src/cipher/crypto"
	"github.com/skycoin/skycoin/src/wallet"
	"github.com/skycoin/skycoin/src/wallet/bip44wallet"

	"verif/harness/internal/ev"
	"verif/harness/internal/hx"
)

const ruleC19 = "rapid state machine over wallet.Service on a scratch directory (sha256-xor or weak scrypt): create (deterministic / bip44 / collection / xpub, temporary or not, encrypted or not, seeds from a pool of 4 so that duplicates occur, half of the bip44 wallets encrypted and half on another coin path than the service's, 'twin' creations that reuse the seed and passphrase of a loaded - preferably recovered - bip44 wallet, bad parameters: empty seed, invalid mnemonic, passphrase on a deterministic wallet, bad xpub, name collision), new addresses, scan, label change, encrypt, decrypt, recover (aimed at an encrypted bip44 wallet half of the time), unload, secret update (incl. a callback that fails), each with right / wrong / missing passwords and unknown wallet ids, and 1 step in 6 with a disk fault in place that makes the save inside the operation fail (wallet directory moved away, or the wallet file name occupied by a directory so that the final rename fails); after every step: every loaded non-temporary wallet's serialisation equals the bytes of its file and the serialisation of the same wallet in a freshly started service on the directory, temporary wallets have no file, no two loaded wallets share a fingerprint, and a step that returned an error left the directory (names and bytes) and every in-memory wallet unchanged; non-trivial = the history has at least one failing operation and one encrypt or decrypt; distinct by operation log"

func dirSnapshot(dir string) map[string]string {
	out := map[string]string{}
	ents, _ := os.ReadDir(dir)
	for _, e := range ents {
		if e.IsDir() {
			continue
		}
		b, _ := os.ReadFile(filepath.Join(dir, e.Name()))
		out[e.Name()] = string(b)
	}
	return out
}

func memSnapshot(t *rapid.T, s *wallet.Service) map[string]string {
	ws, err := s.GetWallets()
	if err != nil {
		t.Fatalf("GetWallets: %v", err)
	}
	out := map[string]string{}
	for id, w := range ws {
		b, err := w.Serialize()
		if err != nil {
			t.Fatalf("Serialize(%s): %v", id, err)
		}
		out[id] = string(b)
	}
	return out
}

func diffMaps(a, b map[string]string) string {
	var d []string
	for k, v := range a {
		if w, ok := b[k]; !ok {
			d = append(d, "removed "+k)
		} else if w != v {
			d = append(d, "changed "+k)
		}
	}
	for k := range b {
		if _, ok := a[k]; !ok {
			d = append(d, "added "+k)
		}
	}
	sort.Strings(d)
	return strings.Join(d, ", ")
}

func TestC19_Service(t *testing.T) {
	r := ev.Get("C19")
	r.Rule(ruleC19)
	r.Assume("crashes are not injected here (see C20), failing saves are (missing directory, failing rename); a wallet that was unloaded keeps its file by documented design and is excluded from the memory/disk comparison; re-creating an unloaded seed legitimately leaves two files with one fingerprint, which a fresh service refuses by design - that situation is reported as dup_after_unload and compared file by file")
	hx.Check(t, "C19", 120, 6000, func(t *rapid.T) {
		dir := hx.TempDir("c19")
		defer os.RemoveAll(dir)
		cfg := wallet.NewConfig()
		cfg.WalletDir = dir
		cfg.EnableWalletAPI = true
		cfg.EnableSeedAPI = true
		cfg.CryptoType = rapid.SampledFrom(fastCrypto).Draw(t, "crypto")
		s, err := wallet.NewService(cfg)
		if err != nil {
			t.Fatalf("NewService: %v", err)
		}
		type minfo struct {
			temp      bool
			pw        string // "" = not encrypted
			kind      wkind
			seed      string
			pass      string
			unloaded  bool
			seedIdx   int
			recovered bool
			otherCoin bool
		}
		model := map[string]*minfo{} // loaded wallets by id
		unloaded := map[string]bool{}
		var hist []string
		nameN, keyN := 0, 0
		failures, crypt, faulted := 0, 0, 0
		dupAfterUnload := false
		seeds := []string{"seed-A", "seed-B", "seed-C", "seed-D"}
		pickID := func(t *rapid.T) string {
			var ids []string
			for id := range model {
				ids = append(ids, id)
			}
			sort.Strings(ids)
			if len(ids) == 0 || rapid.IntRange(0, 9).Draw(t, "unknownid") == 0 {
				return "nosuch.wlt"
			}
			return rapid.SampledFrom(ids).Draw(t, "id")
		}
		pickPW := func(t *rapid.T, right string) []byte {
			switch rapid.IntRange(0, 4).Draw(t, "pwmode") {
			case 0:
				return nil
			case 1:
				return []byte("wrong-" + right)
			}
			if right == "" {
				return nil
			}
			return []byte(right)
		}
		invariant := func(op string, opErr error, beforeDir, beforeMem map[string]string) {
			hist = append(hist, fmt.Sprintf("%s -> %v", op, opErr))
			if strings.HasSuffix(op, "]") {
				faulted++
				r.Count("steps_with_disk_fault")
				if opErr != nil {
					r.Count("steps_with_disk_fault_that_failed")
				}
			}
			nowDir, nowMem := dirSnapshot(dir), memSnapshot(t, s)
			if opErr != nil {
				failures++
				if d := diffMaps(beforeDir, nowDir); d != "" {
					t.Fatalf("failed operation changed the wallet directory (%s)\n history:\n  %s", d, strings.Join(hist, "\n  "))
				}
				if d := diffMaps(beforeMem, nowMem); d != "" {
					t.Fatalf("failed operation changed wallets in memory (%s)\n history:\n  %s", d, strings.Join(hist, "\n  "))
				}
			}
			// memory == file for every loaded non-temporary wallet
			fps := map[string]string{}
			ws, _ := s.GetWallets()
			for id, w := range ws {
				mi := model[id]
				if mi == nil {
					t.Fatalf("service holds %s which the model does not know\n history:\n  %s", id, strings.Join(hist, "\n  "))
				}
				if w.IsTemp() != mi.temp {
					t.Fatalf("%s temp flag %v, model %v", id, w.IsTemp(), mi.temp)
				}
				if fp := w.Fingerprint(); fp != "" {
					if other, dup := fps[fp]; dup {
						t.Fatalf("wallets %s and %s share the fingerprint %s\n history:\n  %s", id, other, fp, strings.Join(hist, "\n  "))
					}
					fps[fp] = id
				}
				fb, onDisk := nowDir[id]
				if mi.temp {
					if onDisk {
						t.Fatalf("temporary wallet %s has a file\n history:\n  %s", id, strings.Join(hist, "\n  "))
					}
					continue
				}
				if !onDisk {
					t.Fatalf("wallet %s is loaded but has no file\n history:\n  %s", id, strings.Join(hist, "\n  "))
				}
				if fb != nowMem[id] {
					t.Fatalf("wallet %s: memory and file differ after %s\n memory %s\n file   %s\n history:\n  %s", id, op, nowMem[id], fb, strings.Join(hist, "\n  "))
				}
				if (mi.pw != "") != w.IsEncrypted() {
					t.Fatalf("wallet %s encrypted=%v, model password %q", id, w.IsEncrypted(), mi.pw)
				}
			}
			for id, mi := range model {
				if _, ok := ws[id]; !ok {
					t.Fatalf("model wallet %s (%+v) is not loaded\n history:\n  %s", id, *mi, strings.Join(hist, "\n  "))
				}
			}
			for name := range nowDir {
				if model[name] == nil && !unloaded[name] {
					t.Fatalf("unexpected file %s in the wallet directory\n history:\n  %s", name, strings.Join(hist, "\n  "))
				}
			}
			// a freshly started service sees the same wallets
			fresh, ferr := wallet.NewService(cfg)
			if ferr != nil {
				if dupAfterUnload {
					return // documented refusal; files were compared above
				}
				t.Fatalf("a fresh service cannot start on the directory: %v\n history:\n  %s", ferr, strings.Join(hist, "\n  "))
			}
			fmem := memSnapshot(t, fresh)
			for id, mi := range model {
				if mi.temp {
					continue
				}
				if fmem[id] != nowMem[id] {
					t.Fatalf("wallet %s differs between the running service and a fresh one\n running %s\n fresh   %s\n history:\n  %s", id, nowMem[id], fmem[id], strings.Join(hist, "\n  "))
				}
			}
			for id := range fmem {
				if model[id] == nil && !unloaded[id] {
					t.Fatalf("fresh service loads %s which the running one does not hold", id)
				}
			}
		}
		snap := func() (map[string]string, map[string]string) { return dirSnapshot(dir), memSnapshot(t, s) }
		// arm: 1 step in 6 runs with a disk fault in place so that the save inside the operation fails - either the
		// wallet directory is moved away (the temporary file cannot be created) or the wallet's own file name is
		// occupied by a non-empty directory (the final rename fails).  The returned function undoes the fault; files
		// the failed save left beside the wallets (*.tmp.*) are removed and counted, they are not wallets.
		arm := func(t *rapid.T, id string) (string, func()) {
			switch rapid.IntRange(0, 11).Draw(t, "diskfault") {
			case 0:
				away := dir + ".away"
				if err := os.Rename(dir, away); err != nil {
					t.Fatalf("harness: %v", err)
				}
				return " [wallet directory missing]", func() {
					os.RemoveAll(dir)
					if err := os.Rename(away, dir); err != nil {
						t.Fatalf("harness: %v", err)
					}
				}
			case 1:
				target := filepath.Join(dir, id)
				if st, err := os.Stat(target); err != nil || st.IsDir() {
					return "", func() {}
				}
				keep := filepath.Join(filepath.Dir(dir), filepath.Base(dir)+".keep")
				if err := os.Rename(target, keep); err != nil {
					t.Fatalf("harness: %v", err)
				}
				os.MkdirAll(filepath.Join(target, "occupied"), 0700)
				return " [wallet file name occupied by a directory]", func() {
					os.RemoveAll(target)
					if err := os.Rename(keep, target); err != nil {
						t.Fatalf("harness: %v", err)
					}
					fs, _ := os.ReadDir(dir)
					for _, f := range fs {
						if strings.Contains(f.Name(), ".tmp.") {
							os.Remove(filepath.Join(dir, f.Name()))
							r.Count("temporary_file_left_by_failed_save")
						}
					}
				}
			}
			return "", func() {}
		}

		t.Repeat(map[string]func(*rapid.T){
			"create": func(t *rapid.T) {
				bd, bm := snap()
				kind := rapid.SampledFrom([]wkind{kDet, kDet, kBip, kBip, kColl, kXpub}).Draw(t, "kind")
				nameN++
				name := fmt.Sprintf("w%d.wlt", nameN)
				if rapid.IntRange(0, 9).Draw(t, "samename") == 0 && len(model) > 0 {
					name = pickID(t) // a name that is in use (file names of unloaded wallets are never reused: the service generates fresh names)
					if name == "nosuch.wlt" {
						name = fmt.Sprintf("w%d.wlt", nameN)
					}
				}
				seedIdx := rapid.IntRange(0, 3).Draw(t, "seed")
				twinPass, twin, twinOther := "", false, false
				{
					// a second wallet of the seed and passphrase of a loaded bip44 wallet (preferably one that went through a recovery),
					// on either coin path: whatever the service answers, no two loaded wallets may share a fingerprint afterwards
					var ids, rec []string
					for id, mi := range model {
						if mi.kind == kBip {
							ids = append(ids, id)
							if mi.recovered {
								rec = append(rec, id)
							}
						}
					}
					sort.Strings(ids)
					sort.Strings(rec)
					switch {
					case len(rec) > 0 && rapid.IntRange(0, 1).Draw(t, "twin_of_recovered") == 1:
						kind, ids = kBip, rec
					case kind == kBip && len(ids) > 0 && rapid.IntRange(0, 3).Draw(t, "twin") == 2:
					default:
						ids = nil
					}
					if len(ids) > 0 {
						o := model[rapid.SampledFrom(ids).Draw(t, "twin_of")]
						seedIdx, twinPass, twin = o.seedIdx, o.pass, true
						r.Count("create_twin_of_loaded_bip44_wallet")
						if o.recovered {
							r.Count("create_twin_of_recovered_wallet")
						}
						twinOther = o.recovered && o.otherCoin
					}
				}
				opts := wallet.Options{CryptoType: cfg.CryptoType, Label: "label " + name, GenerateN: uint64(rapid.IntRange(0, 3).Draw(t, "n")), Temp: rapid.IntRange(0, 5).Draw(t, "temp") == 0}
				mi := &minfo{temp: opts.Temp, kind: kind, seedIdx: seedIdx}
				switch kind {
				case kDet:
					opts.Type = wallet.WalletTypeDeterministic
					opts.Seed = seeds[seedIdx]
				case kBip:
					opts.Type = wallet.WalletTypeBip44
					opts.Seed = mnemonicN(seedIdx)
					opts.SeedPassphrase = []string{"", "pp"}[rapid.IntRange(0, 1).Draw(t, "pp")]
					if twin {
						opts.SeedPassphrase = twinPass
					}
					if rapid.IntRange(0, 1).Draw(t, "other_coin_path") == 1 {
						ct := bip44.CoinTypeBitcoin // a wallet on another bip44 coin path than the service's default
						opts.Bip44Coin = &ct
						mi.otherCoin = true
					} else if twinOther {
						r.Count("create_twin_on_default_path_of_recovered_wallet_on_other_path")
					}
				case kColl:
					opts.Type = wallet.WalletTypeCollection
				case kXpub:
					opts.Type = wallet.WalletTypeXPub
					bw := newWallet(t, kBip, seedIdx, 1, crypto.CryptoTypeSha256Xor)
					x, _ := accountXPub(bw.(*bip44wallet.Wallet))
					opts.XPub = x
				}
				mi.seed, mi.pass = opts.Seed, opts.SeedPassphrase
				bad := rapid.IntRange(0, 11).Draw(t, "bad")
				if twin {
					bad = 11 // the point of a twin is the duplicate check: leave its parameters alone
				}
				switch bad {
				case 0:
					opts.Seed, opts.XPub = "", ""
				case 1:
					if kind == kBip {
						opts.Seed = "not a valid mnemonic at all"
					}
				case 2:
					if kind == kDet {
						opts.SeedPassphrase = "x"
					}
				case 3:
					opts.Type = "bogus"
				case 4:
					opts.Label = ""
				}
				encOdds := 3
				if kind == kBip {
					encOdds = 1 // recovery applies to encrypted wallets only
				}
				if kind != kXpub && !opts.Temp && rapid.IntRange(0, encOdds).Draw(t, "enc") == 0 {
					opts.Encrypt = true
					opts.Password = []byte("pw" + name)
					mi.pw = string(opts.Password)
				}
				fd, disarm := arm(t, name)
				w, err := s.CreateWallet(name, opts)
				disarm()
				if err == nil {
					if w == nil {
						t.Fatalf("CreateWallet returned nil without error")
					}
					if unloadedFP(unloaded, dir, w) {
						dupAfterUnload = true
					}
					model[name] = mi
					delete(unloaded, name)
					if kind == kBip && mi.pw != "" {
						r.Count("created_encrypted_bip44_wallet")
						if mi.otherCoin {
							r.Count("created_encrypted_bip44_wallet_on_other_coin_path")
						}
					}
				}
				invariant(fmt.Sprintf("create(%s,%s,seed%d,temp=%v,enc=%v)%s", name, kind, seedIdx, opts.Temp, opts.Encrypt, fd), err, bd, bm)
			},
			"new_addresses": func(t *rapid.T) {
				bd, bm := snap()
				id := pickID(t)
				right := ""
				if mi := model[id]; mi != nil {
					right = mi.pw
				}
				pw := pickPW(t, right)
				n := rapid.IntRange(0, 3).Draw(t, "n")
				opts := []wallet.Option{wallet.OptionGenerateN(uint64(n))}
				mi := model[id]
				var newKeys []string
				if mi != nil && mi.kind == kColl {
					// a collection wallet grows by the private keys it is given
					var keys []cipher.SecKey
					for i := 0; i < n; i++ {
						keyN++
						_, sec, e := cipher.GenerateDeterministicKeyPair([]byte(fmt.Sprintf("c19-collection-key-%d", keyN)))
						if e != nil {
							t.Fatal(e)
						}
						keys = append(keys, sec)
						newKeys = append(newKeys, sec.Hex())
					}
					opts = []wallet.Option{wallet.OptionCollectionPrivateKeys(keys)}
				}
				fd, disarm := arm(t, id)
				_, err := s.NewAddresses(id, pw, opts...)
				disarm()
				if err == nil && mi != nil && mi.pw != "" && mi.kind != kBip && string(pw) != mi.pw {
					t.Fatalf("NewAddresses on the encrypted %s wallet %s succeeded with the password %q (the wallet's password is %q)\n history:\n  %s", mi.kind, id, pw, mi.pw, strings.Join(hist, "\n  "))
				}
				if err == nil && mi != nil && mi.pw != "" {
					// secrets added to an encrypted wallet are encrypted with it: they never reach the file in the clear
					if fb, rerr := os.ReadFile(filepath.Join(dir, id)); rerr == nil {
						for _, k := range newKeys {
							if strings.Contains(string(fb), k) {
								t.Fatalf("the file of the encrypted wallet %s contains the secret key %s that was just added\n history:\n  %s", id, k, strings.Join(hist, "\n  "))
							}
						}
					}
				}
				invariant(fmt.Sprintf("new_addresses(%s,%d,pw=%q)%s", id, n, pw, fd), err, bd, bm)
			},
			"scan": func(t *rapid.T) {
				bd, bm := snap()
				id := pickID(t)
				right := ""
				if mi := model[id]; mi != nil {
					right = mi.pw
				}
				pw := pickPW(t, right)
				scanN := uint64(rapid.IntRange(0, 4).Draw(t, "n"))
				fd, disarm := arm(t, id)
				_, err := s.ScanAddresses(id, pw, scanN, fakeFinder{map[string]bool{}})
				disarm()
				invariant(fmt.Sprintf("scan(%s,pw=%q)%s", id, pw, fd), err, bd, bm)
			},
			"label": func(t *rapid.T) {
				bd, bm := snap()
				id := pickID(t)
				label := rapid.SampledFrom([]string{"new label", "x", "", "label \"quoted\" \\ é"}).Draw(t, "label")
				fd, disarm := arm(t, id)
				err := s.UpdateWalletLabel(id, label)
				disarm()
				invariant(fmt.Sprintf("label(%s,%q)%s", id, label, fd), err, bd, bm)
			},
			"encrypt": func(t *rapid.T) {
				bd, bm := snap()
				id := pickID(t)
				pw := rapid.SampledFrom([]string{"secret", "p", ""}).Draw(t, "pw")
				fd, disarm := arm(t, id)
				_, err := s.EncryptWallet(id, []byte(pw))
				disarm()
				if err == nil {
					model[id].pw = pw
					crypt++
				}
				invariant(fmt.Sprintf("encrypt(%s,%q)%s", id, pw, fd), err, bd, bm)
			},
			"decrypt": func(t *rapid.T) {
				bd, bm := snap()
				id := pickID(t)
				right := ""
				if mi := model[id]; mi != nil {
					right = mi.pw
				}
				pw := pickPW(t, right)
				fd, disarm := arm(t, id)
				_, err := s.DecryptWallet(id, pw)
				disarm()
				if err == nil {
					model[id].pw = ""
					crypt++
				}
				invariant(fmt.Sprintf("decrypt(%s,%q)%s", id, pw, fd), err, bd, bm)
			},
			"recover": func(t *rapid.T) {
				bd, bm := snap()
				id := pickID(t)
				seed, pass := "seed-A", ""
				var encIDs []string
				for wid, mi := range model {
					if mi.pw != "" && mi.kind == kBip {
						encIDs = append(encIDs, wid)
					}
				}
				sort.Strings(encIDs)
				aimed := false
				if len(encIDs) > 0 && rapid.IntRange(0, 1).Draw(t, "aim_at_encrypted_bip44") == 1 {
					id, aimed = rapid.SampledFrom(encIDs).Draw(t, "enc_id"), true // recovery only applies to encrypted wallets: aim at one half of the time
				}
				if mi := model[id]; mi != nil && (aimed || rapid.IntRange(0, 2).Draw(t, "rightseed") != 0) {
					seed, pass = mi.seed, mi.pass
				}
				newpw := rapid.SampledFrom([]string{"", "newpw"}).Draw(t, "newpw")
				if rapid.IntRange(0, 7).Draw(t, "clock_moves") == 3 {
					// wallets carry a creation time in whole seconds: let the clock pass a second boundary now and then,
					// so that "the same time stamp" is not true by accident
					time.Sleep(1100 * time.Millisecond)
					r.Count("recover_after_a_second")
				}
				fd, disarm := arm(t, id)
				_, err := s.RecoverWallet(id, seed, pass, []byte(newpw))
				disarm()
				if err == nil {
					model[id].pw = newpw
					model[id].recovered = true
					r.Count("recover_succeeded")
					if model[id].otherCoin {
						r.Count("recover_succeeded_other_coin_path")
					}
				}
				invariant(fmt.Sprintf("recover(%s,newpw=%q)%s", id, newpw, fd), err, bd, bm)
			},
			"unload": func(t *rapid.T) {
				bd, bm := snap()
				id := pickID(t)
				err := s.UnloadWallet(id)
				if err == nil {
					if mi := model[id]; mi != nil {
						if !mi.temp {
							unloaded[id] = true
						}
						delete(model, id)
					}
				}
				invariant(fmt.Sprintf("unload(%s)", id), err, bd, bm)
			},
			"update_secrets": func(t *rapid.T) {
				bd, bm := snap()
				id := pickID(t)
				right := ""
				if mi := model[id]; mi != nil {
					right = mi.pw
				}
				pw := pickPW(t, right)
				fail := rapid.Bool().Draw(t, "cbfail")
				fd, disarm := arm(t, id)
				err := s.UpdateSecrets(id, pw, func(w wallet.Wallet) error {
					w.SetLabel("updated by callback")
					if fail {
						return errors.New("callback failed")
					}
					return nil
				})
				disarm()
				invariant(fmt.Sprintf("update_secrets(%s,pw=%q,fail=%v)%s", id, pw, fail, fd), err, bd, bm)
			},
		})
		nt := failures >= 1 && crypt >= 1
		if dupAfterUnload {
			r.Count("dup_after_unload")
		}
		r.CaseS(nt, strings.Join(hist, ";"))
		if r.WantSample(nt) && len(hist) < 40 {
			r.Sample(nt, map[string]interface{}{"crypto": string(cfg.CryptoType), "operations": hist})
		}
	})
}

// unloadedFP: does an unloaded wallet file on disk carry the same fingerprint as w?
func unloadedFP(unloaded map[string]bool, dir string, w wallet.Wallet) bool {
	fp := w.Fingerprint()
	if fp == "" {
		return false
	}
	for name := range unloaded {
		if name == w.Filename() {
			continue
		}
		lw, err := wallet.Load(filepath.Join(dir, name))
		if err == nil && lw != nil && lw.Fingerprint() == fp {
			return true
		}
	}
	return false
}

var _ = bytes.Equal
var _ = cipher.SHA256{}
