package wallet

import (
	"fmt"
	"os"
	"path/filepath"
	"strings"
	"testing"

	"pgregory.net/rapid"

	"github.com/skycoin/skycoin/src/cipher"
	"github.com/skycoin/skycoin/src/cipher/crypto"
	"github.com/skycoin/skycoin/src/wallet"

	"verif/harness/internal/ev"
	"verif/harness/internal/hx"
)

// TestC18_ServiceKeepsSecretsEncrypted: secrets that are added to a wallet while it is encrypted - addresses generated
// with the password, private keys handed to a collection wallet - go through the wallet service.  The file of the
// encrypted wallet must never show them, a wrong password must not get them in, and decrypting with the right password
// afterwards must give all of them back.
func TestC18_ServiceKeepsSecretsEncrypted(t *testing.T) {
	r := ev.Get("C18")
	r.Rule("service level: a deterministic, bip44 or collection wallet is created encrypted (sha256-xor) in a wallet service; 1-4 times secrets are added through Service.NewAddresses (generated addresses with the password; for collection wallets 1-2 given private keys) with the right, a wrong or no password; oracle: a wrong or missing password is refused for deterministic and collection wallets (bip44 wallets derive public data without it), after every step the wallet file contains neither the seed nor any secret key the wallet holds or was given, and DecryptWallet with the right password returns a wallet that holds the secret key of every entry, including every given key; non-trivial = at least one addition succeeded; distinct by history")
	hx.Check(t, "C18", 40, 2500, func(t *rapid.T) {
		dir := hx.TempDir("c18svc")
		defer os.RemoveAll(dir)
		cfg := wallet.NewConfig()
		cfg.WalletDir = dir
		cfg.EnableWalletAPI = true
		cfg.CryptoType = crypto.CryptoTypeSha256Xor
		s, err := wallet.NewService(cfg)
		if err != nil {
			t.Fatal(err)
		}
		kind := rapid.SampledFrom([]wkind{kDet, kBip, kColl, kColl}).Draw(t, "kind")
		seedIdx := rapid.IntRange(0, 30).Draw(t, "seed")
		pw := []byte("right-pw")
		opts := wallet.Options{Label: "l", CryptoType: crypto.CryptoTypeSha256Xor, Encrypt: true, Password: pw, GenerateN: 1}
		var givenKeys []string
		var secretTexts []string
		switch kind {
		case kDet:
			opts.Type, opts.Seed = wallet.WalletTypeDeterministic, fmt.Sprintf("c18 service seed %d", seedIdx)
			secretTexts = append(secretTexts, opts.Seed)
		case kBip:
			opts.Type, opts.Seed = wallet.WalletTypeBip44, mnemonicN(seedIdx)
			secretTexts = append(secretTexts, opts.Seed)
		default:
			opts.Type = wallet.WalletTypeCollection
			_, sec, _ := cipher.GenerateDeterministicKeyPair([]byte(fmt.Sprintf("c18-coll-%d", seedIdx)))
			opts.CollectionPrivateKeys = []cipher.SecKey{sec}
			givenKeys = append(givenKeys, sec.Hex())
		}
		if _, err := s.CreateWallet("w.wlt", opts); err != nil {
			t.Fatalf("create encrypted %s wallet: %v", kind, err)
		}
		var hist []string
		added := 0
		checkFile := func() {
			fb, err := os.ReadFile(filepath.Join(dir, "w.wlt"))
			if err != nil {
				t.Fatalf("wallet file: %v", err)
			}
			for _, sct := range append(append([]string{}, secretTexts...), givenKeys...) {
				if strings.Contains(string(fb), sct) {
					t.Fatalf("the file of the encrypted %s wallet contains the secret %q after %v", kind, sct, hist)
				}
			}
		}
		checkFile()
		keyN := 0
		for i, k := 0, rapid.IntRange(1, 4).Draw(t, "steps"); i < k; i++ {
			pwKind := rapid.SampledFrom([]string{"right", "right", "wrong", "none"}).Draw(t, "pw")
			var p []byte
			switch pwKind {
			case "right":
				p = pw
			case "wrong":
				p = []byte("wrong-pw")
			}
			var o []wallet.Option
			var newKeys []string
			if kind == kColl {
				var keys []cipher.SecKey
				for j, m := 0, rapid.IntRange(1, 2).Draw(t, "nkeys"); j < m; j++ {
					keyN++
					_, sec, _ := cipher.GenerateDeterministicKeyPair([]byte(fmt.Sprintf("c18-coll-%d-more-%d", seedIdx, keyN)))
					keys = append(keys, sec)
					newKeys = append(newKeys, sec.Hex())
				}
				o = []wallet.Option{wallet.OptionCollectionPrivateKeys(keys)}
			} else {
				o = []wallet.Option{wallet.OptionGenerateN(uint64(rapid.IntRange(1, 2).Draw(t, "n")))}
			}
			_, err := s.NewAddresses("w.wlt", p, o...)
			hist = append(hist, fmt.Sprintf("NewAddresses(pw=%s)->%v", pwKind, err))
			if pwKind != "right" && kind != kBip && err == nil {
				t.Fatalf("NewAddresses on the encrypted %s wallet succeeded with a %s password: %v", kind, pwKind, hist)
			}
			if pwKind == "right" && err != nil {
				t.Fatalf("NewAddresses on the encrypted %s wallet with the right password: %v", kind, err)
			}
			if err == nil {
				givenKeys = append(givenKeys, newKeys...)
				added++
			} else {
				// keys that were refused must not have got in either
				fb, _ := os.ReadFile(filepath.Join(dir, "w.wlt"))
				for _, nk := range newKeys {
					if strings.Contains(string(fb), nk) {
						t.Fatalf("a refused NewAddresses left the key %s in the wallet file (%v)", nk, hist)
					}
				}
			}
			checkFile()
		}
		dw, err := s.DecryptWallet("w.wlt", pw)
		if err != nil {
			t.Fatalf("DecryptWallet with the right password after %v: %v", hist, err)
		}
		es, _ := dw.GetEntries()
		have := map[string]bool{}
		for _, e := range es {
			if e.Secret.Null() {
				t.Fatalf("decrypted %s wallet: entry %s has no secret key (%v)", kind, e.Address, hist)
			}
			if p, err := cipher.PubKeyFromSecKey(e.Secret); err != nil || p != e.Public {
				t.Fatalf("decrypted %s wallet: entry %s holds a secret key that is not the key of its public key (%v)", kind, e.Address, hist)
			}
			have[e.Secret.Hex()] = true
		}
		for _, gk := range givenKeys {
			if !have[gk] {
				t.Fatalf("decrypted collection wallet lacks the given key %s (%v)", gk, hist)
			}
		}
		nt := added >= 1
		r.CaseS(nt, fmt.Sprintf("svc/%s/%d/%v", kind, seedIdx, hist))
		r.Count("service_encrypted_" + string(kind))
	})
}
