package wallet

import (
	"fmt"
	"os"
	"testing"

	"pgregory.net/rapid"

	"github.com/skycoin/skycoin/src/cipher/crypto"
	"github.com/skycoin/skycoin/src/wallet"

	"verif/harness/internal/ev"
	"verif/harness/internal/hx"
)

// TestC17_ServiceBatches: the property names Service.NewAddresses as an observation point.  Addresses are requested
// from the wallet service in generated batches - for file-backed, encrypted and temporary wallets, with service restarts
// in between for the file-backed ones - and every batch, as well as the wallet the service holds afterwards, must be the
// next slice of what a fresh wallet of the same seed derives in one go.
func TestC17_ServiceBatches(t *testing.T) {
	r := ev.Get("C17")
	r.Rule("service batches: a deterministic or bip44 wallet (temporary, file-backed or encrypted) is created in a wallet service with 1-3 addresses and asked for 1-5 further batches of 0-3 addresses (bip44: external or change chain per batch), with a restart of the service between batches for file-backed wallets 1 time in 3; oracle: every batch returned by Service.NewAddresses is the next slice of the address sequence a fresh wallet of the same seed derives in one go, and the wallet held by the service afterwards lists exactly that sequence; non-trivial = at least two non-empty batches; distinct by (type, seed, temporary, encrypted, batches)")
	hx.Check(t, "C17", 60, 3000, func(t *rapid.T) {
		dir := hx.TempDir("c17svc")
		defer os.RemoveAll(dir)
		cfg := wallet.NewConfig()
		cfg.WalletDir = dir
		cfg.EnableWalletAPI = true
		cfg.CryptoType = crypto.CryptoTypeSha256Xor
		s, err := wallet.NewService(cfg)
		if err != nil {
			t.Fatal(err)
		}
		bip := rapid.Bool().Draw(t, "bip44")
		seedIdx := rapid.IntRange(0, 30).Draw(t, "seed")
		n0 := rapid.IntRange(1, 3).Draw(t, "n0")
		mode := rapid.SampledFrom([]string{"file", "temp", "encrypted", "temp", "file"}).Draw(t, "mode")
		opts := wallet.Options{Type: wallet.WalletTypeDeterministic, Seed: fmt.Sprintf("service-seed-%d", seedIdx), Label: "l", CryptoType: crypto.CryptoTypeSha256Xor, GenerateN: uint64(n0)}
		if bip {
			opts.Type = wallet.WalletTypeBip44
			opts.Seed = mnemonicN(seedIdx)
			opts.SeedPassphrase = rapid.SampledFrom([]string{"", "pp"}).Draw(t, "passphrase")
		}
		var pw []byte
		switch mode {
		case "temp":
			opts.Temp = true
		case "encrypted":
			opts.Encrypt, opts.Password = true, []byte("pw")
			pw = []byte("pw")
		}
		if _, err := s.CreateWallet("w.wlt", opts); err != nil {
			t.Fatalf("create (%s): %v", mode, err)
		}
		listed := func() (ext, chg []string) {
			cur, err := s.GetWallet("w.wlt")
			if err != nil {
				t.Fatal(err)
			}
			var eo, co []wallet.Option
			if bip {
				eo, co = []wallet.Option{wallet.OptionExternal()}, []wallet.Option{wallet.OptionChange()}
			}
			ea, _ := cur.GetAddresses(eo...)
			for _, a := range ea {
				ext = append(ext, a.String())
			}
			if bip {
				ca, _ := cur.GetAddresses(co...)
				for _, a := range ca {
					chg = append(chg, a.String())
				}
			}
			return
		}
		ext0, chg0 := listed()
		nExt, nChg := len(ext0), len(chg0)
		type batch struct {
			change bool
			n      int
			got    []string
			at     int
		}
		var batches []batch
		var desc []string
		nonEmpty := 0
		for i, k := 0, rapid.IntRange(1, 5).Draw(t, "batches"); i < k; i++ {
			if mode == "file" && rapid.IntRange(0, 2).Draw(t, "restart") == 1 {
				if s, err = wallet.NewService(cfg); err != nil {
					t.Fatalf("restart: %v", err)
				}
				desc = append(desc, "restart")
			}
			b := batch{n: rapid.IntRange(0, 3).Draw(t, "n"), change: bip && rapid.Bool().Draw(t, "change")}
			o := []wallet.Option{wallet.OptionGenerateN(uint64(b.n))}
			if b.change {
				o = append(o, wallet.OptionChange())
				b.at = nChg
			} else {
				b.at = nExt
			}
			addrs, err := s.NewAddresses("w.wlt", pw, o...)
			if err != nil {
				t.Fatalf("NewAddresses(%d, change=%v) on a %s wallet after %v: %v", b.n, b.change, mode, desc, err)
			}
			for _, a := range addrs {
				b.got = append(b.got, a.String())
			}
			if len(b.got) != b.n {
				t.Fatalf("NewAddresses(%d) returned %d addresses", b.n, len(b.got))
			}
			if b.change {
				nChg += b.n
			} else {
				nExt += b.n
			}
			if b.n > 0 {
				nonEmpty++
			}
			desc = append(desc, fmt.Sprintf("%d(change=%v)", b.n, b.change))
			batches = append(batches, b)
		}
		// the reference: a fresh wallet of the same seed, all addresses in one go
		ref := newWalletFromOptions(t, wallet.Options{Type: opts.Type, Seed: opts.Seed, SeedPassphrase: opts.SeedPassphrase, Label: "l", CryptoType: crypto.CryptoTypeSha256Xor}, nExt, nChg)
		if len(ref[0]) != nExt || (bip && len(ref[1]) != nChg) {
			t.Fatalf("harness: reference wallet lists %d/%d addresses, want %d/%d", len(ref[0]), len(ref[1]), nExt, nChg)
		}
		for i, b := range batches {
			seq := ref[0]
			if b.change {
				seq = ref[1]
			}
			if fmt.Sprint(b.got) != fmt.Sprint(seq[b.at:b.at+b.n]) {
				t.Fatalf("batch %d (%d addresses, change=%v) of a %s %s wallet returned %v; a fresh wallet derives %v at positions %d.. (batches: %v)", i, b.n, b.change, mode, opts.Type, b.got, seq[b.at:b.at+b.n], b.at, desc)
			}
		}
		ext, chg := listed()
		if fmt.Sprint(ext) != fmt.Sprint(ref[0]) || (bip && fmt.Sprint(chg) != fmt.Sprint(ref[1])) {
			t.Fatalf("after the batches %v the %s %s wallet held by the service lists %v / %v; a fresh wallet derives %v / %v", desc, mode, opts.Type, ext, chg, ref[0], ref[1])
		}
		nt := nonEmpty >= 2
		r.CaseS(nt, fmt.Sprintf("svc/%s/%d/%s/%v", opts.Type, seedIdx, mode, desc))
		r.Count("service_batches_" + mode)
	})
}
