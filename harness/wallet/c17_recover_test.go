package wallet

import (
	"fmt"
	"os"
	"testing"

	"pgregory.net/rapid"

	"github.com/skycoin/skycoin/src/cipher/bip44"
	"github.com/skycoin/skycoin/src/cipher/crypto"
	"github.com/skycoin/skycoin/src/wallet"

	"verif/harness/internal/ev"
	"verif/harness/internal/hx"
)

// TestC17_RecoverKeepsAddresses: recovering an encrypted wallet from its seed (and seed passphrase) through the wallet
// service re-derives the wallet; the derived addresses depend only on seed, passphrase, chain and count, so the address
// lists before and after must be identical - and equal to a fresh wallet of the same seed generating the same counts.
func TestC17_RecoverKeepsAddresses(t *testing.T) {
	r := ev.Get("C17")
	r.Rule("service recovery: deterministic / bip44 wallets (bip44 with and without a seed passphrase) with 1-5 external and 0-3 change addresses are encrypted, optionally grown while locked, then recovered with the right seed and passphrase and a new or empty password; the external and change address lists must be unchanged and equal to a freshly created wallet's; non-trivial = bip44 with a non-empty passphrase or change addresses")
	hx.Check(t, "C17", 40, 2000, func(t *rapid.T) {
		dir := hx.TempDir("c17rec")
		defer os.RemoveAll(dir)
		cfg := wallet.NewConfig()
		cfg.WalletDir = dir
		cfg.EnableWalletAPI = true
		cfg.CryptoType = crypto.CryptoTypeSha256Xor
		s, err := wallet.NewService(cfg)
		if err != nil {
			t.Fatal(err)
		}
		bip := rapid.Bool().Draw(t, "bip44")
		seedIdx := rapid.IntRange(0, 30).Draw(t, "seed")
		opts := wallet.Options{Type: wallet.WalletTypeDeterministic, Seed: fmt.Sprintf("recover-seed-%d", seedIdx), Label: "l", CryptoType: crypto.CryptoTypeSha256Xor,
			GenerateN: uint64(rapid.IntRange(1, 5).Draw(t, "n"))}
		pass := ""
		if bip {
			opts.Type = wallet.WalletTypeBip44
			opts.Seed = mnemonicN(seedIdx)
			pass = rapid.SampledFrom([]string{"", "pp", "another passphrase"}).Draw(t, "passphrase")
			opts.SeedPassphrase = pass
			if rapid.IntRange(0, 2).Draw(t, "other_coin_path") == 1 {
				ct := bip44.CoinTypeBitcoin // another bip44 coin path than the service's default: recovery must stay on it
				opts.Bip44Coin = &ct
			}
		}
		w, err := s.CreateWallet("w.wlt", opts)
		if err != nil {
			t.Fatalf("create: %v", err)
		}
		_ = w
		nChange := 0
		if bip {
			nChange = rapid.IntRange(0, 3).Draw(t, "change")
			if nChange > 0 {
				if _, err := s.NewAddresses("w.wlt", nil, wallet.OptionGenerateN(uint64(nChange)), wallet.OptionChange()); err != nil {
					t.Fatalf("change addresses: %v", err)
				}
			}
		}
		if _, err := s.EncryptWallet("w.wlt", []byte("pw")); err != nil {
			t.Fatalf("encrypt: %v", err)
		}
		if bip && rapid.Bool().Draw(t, "grow_locked") {
			if _, err := s.NewAddresses("w.wlt", nil, wallet.OptionGenerateN(1)); err != nil {
				t.Fatalf("new address while locked: %v", err)
			}
		}
		addrsOf := func() (ext, chg []string) {
			cur, err := s.GetWallet("w.wlt")
			if err != nil {
				t.Fatal(err)
			}
			var eo, co []wallet.Option
			if bip {
				eo, co = []wallet.Option{wallet.OptionExternal()}, []wallet.Option{wallet.OptionChange()}
			}
			ea, err := cur.GetAddresses(eo...)
			if err != nil {
				t.Fatal(err)
			}
			for _, a := range ea {
				ext = append(ext, a.String())
			}
			if bip {
				ca, err := cur.GetAddresses(co...)
				if err != nil {
					t.Fatal(err)
				}
				for _, a := range ca {
					chg = append(chg, a.String())
				}
			}
			return
		}
		extBefore, chgBefore := addrsOf()
		newpw := rapid.SampledFrom([]string{"", "newpw"}).Draw(t, "newpw")
		if _, err := s.RecoverWallet("w.wlt", opts.Seed, pass, []byte(newpw)); err != nil {
			t.Fatalf("recover with the right seed and passphrase failed: %v", err)
		}
		extAfter, chgAfter := addrsOf()
		if fmt.Sprint(extBefore) != fmt.Sprint(extAfter) || fmt.Sprint(chgBefore) != fmt.Sprint(chgAfter) {
			t.Fatalf("recovery changed the wallet's addresses (type %s, passphrase %q):\n external before %v\n external after  %v\n change before %v\n change after  %v", opts.Type, pass, extBefore, extAfter, chgBefore, chgAfter)
		}
		// and they are what a fresh wallet of this seed derives
		fresh := newWalletFromOptions(t, opts, len(extAfter), len(chgAfter))
		fe, fc := fresh[0], fresh[1]
		if fmt.Sprint(fe) != fmt.Sprint(extAfter) || fmt.Sprint(fc) != fmt.Sprint(chgAfter) {
			t.Fatalf("recovered wallet differs from a fresh wallet of the same seed: %v / %v vs %v / %v", extAfter, chgAfter, fe, fc)
		}
		nt := bip && (pass != "" || len(chgAfter) > 1)
		r.CaseS(nt, fmt.Sprintf("recover/%s/%d/%q/%d/%d/%q", opts.Type, seedIdx, pass, len(extAfter), len(chgAfter), newpw))
		r.Count("service_recoveries")
	})
}

// newWalletFromOptions creates the same wallet outside any service and returns its external and change address texts.
func newWalletFromOptions(t *rapid.T, o wallet.Options, nExt, nChg int) [2][]string {
	dir := hx.TempDir("c17fresh")
	defer os.RemoveAll(dir)
	cfg := wallet.NewConfig()
	cfg.WalletDir = dir
	cfg.EnableWalletAPI = true
	cfg.CryptoType = crypto.CryptoTypeSha256Xor
	s, err := wallet.NewService(cfg)
	if err != nil {
		t.Fatal(err)
	}
	o.GenerateN = uint64(nExt)
	w, err := s.CreateWallet("fresh.wlt", o)
	if err != nil {
		t.Fatalf("fresh wallet: %v", err)
	}
	var out [2][]string
	if o.Type == wallet.WalletTypeBip44 {
		if nChg > 1 {
			if _, err := s.NewAddresses("fresh.wlt", nil, wallet.OptionGenerateN(uint64(nChg-1)), wallet.OptionChange()); err != nil {
				t.Fatal(err)
			}
		}
		w, _ = s.GetWallet("fresh.wlt")
		ea, _ := w.GetAddresses(wallet.OptionExternal())
		ca, _ := w.GetAddresses(wallet.OptionChange())
		for _, a := range ea {
			out[0] = append(out[0], a.String())
		}
		for _, a := range ca {
			out[1] = append(out[1], a.String())
		}
		return out
	}
	ea, _ := w.GetAddresses()
	for _, a := range ea {
		out[0] = append(out[0], a.String())
	}
	return out
}
