package api

import (
	"encoding/binary"
	"fmt"
	"io"
	"net"
	"testing"
	"time"

	"pgregory.net/rapid"

	"github.com/skycoin/skycoin/src/cipher"
	"github.com/skycoin/skycoin/src/coin"
	"github.com/skycoin/skycoin/src/daemon"
	"github.com/skycoin/skycoin/src/daemon/gnet"
	"github.com/skycoin/skycoin/src/params"

	"verif/harness/internal/ev"
	"verif/harness/internal/hx"
)

// TestC22_NodeLimits: "a length prefix ... above the configured maximum ... causes a disconnect" and every well-formed
// message within it is delivered - observed on a real daemon over TCP, because which number the receive path compares
// with is decided where the daemon configures its connection pool.  After a valid introduction the client sends one
// well-formed GiveTxns frame of an exactly chosen size (the transaction in it is refused by the node, which is no reason
// to drop the peer) and then a PING.
func TestC22_NodeLimits(t *testing.T) {
	r := ev.Get("C22")
	r.Rule("node limits: a raw TCP client introduces itself to a real daemon (default limits: 1 MiB incoming, 256 KiB outgoing) and sends one well-formed GiveTxns frame whose length prefix is drawn from {small, the outgoing maximum -1/0/+1, between the two maxima, the incoming maximum -1/0, the incoming maximum +1, +4096}, then a PING; oracle: a frame whose length prefix is at most the configured maximum INCOMING length leaves the connection open and the PING is answered with a PONG, a longer one makes the node close the connection; non-trivial = the frame is longer than the outgoing maximum; distinct by frame length")
	tm, err := getTemplate()
	if err != nil {
		setupFailed(t, "node template: %v", err)
	}
	hx.Check(t, "C22", 14, 400, func(t *rapid.T) {
		n, err := startNodeOpt(tm, true)
		if err != nil {
			setupFailed(t, "node start: %v", err)
		}
		defer n.stop()
		var addr net.Addr
		for i := 0; i < 3000; i++ {
			if a, err := n.d.VerifListeningAddress(); err == nil && a != nil {
				addr = a
				break
			}
			time.Sleep(time.Millisecond)
		}
		if addr == nil {
			setupFailed(t, "daemon is not listening%v", "")
		}
		conn, err := net.DialTimeout("tcp", addr.String(), 5*time.Second)
		if err != nil {
			setupFailed(t, "dial: %v", err)
		}
		defer conn.Close()
		dcfg := n.d.DaemonConfig()
		in, out := int(dcfg.MaxIncomingMessageLength), int(dcfg.MaxOutgoingMessageLength)
		if in <= out || out < 70000 {
			setupFailed(t, "unexpected default limits in=%d out=%d%v", in, out, "")
		}
		frames := make(chan string, 64)
		closed := make(chan struct{})
		go func() {
			defer close(closed)
			for {
				var lb [4]byte
				if _, err := io.ReadFull(conn, lb[:]); err != nil {
					return
				}
				l := binary.LittleEndian.Uint32(lb[:])
				if l < 4 || l > 1<<21 {
					return
				}
				body := make([]byte, l)
				if _, err := io.ReadFull(conn, body); err != nil {
					return
				}
				frames <- string(body[:4])
			}
		}()
		write := func(b []byte) error {
			_ = conn.SetWriteDeadline(time.Now().Add(10 * time.Second))
			_, err := conn.Write(b)
			return err
		}
		waitFrame := func(typ string, d time.Duration) bool {
			deadline := time.After(d)
			for {
				select {
				case f := <-frames:
					if f == typ {
						return true
					}
				case <-closed:
					return false
				case <-deadline:
					return false
				}
			}
		}
		intro := daemon.NewIntroductionMessage(dcfg.Mirror+1, dcfg.ProtocolVersion, 6001, c28Publisher.Pub, "skycoin:0.26.0", params.VerifyTxn{BurnFactor: 10, MaxTransactionSize: 32768, MaxDropletPrecision: 3}, tm.genesisHash)
		ib, _ := gnet.EncodeMessage(intro)
		pb, _ := gnet.EncodeMessage(&daemon.PingMessage{})
		if write(ib) != nil || write(pb) != nil || !waitFrame("PONG", 10*time.Second) {
			setupFailed(t, "the node does not answer a PING after a valid introduction%v", "")
		}
		// the frame: one transaction with a inputs and o outputs; prefix value = 4 (id) + body
		want := rapid.SampledFrom([]int{2000, out - 1, out, out + 1, out + 4096, (in + out) / 2, in - 4096, in - 1, in, in + 1, in + 4096}).Draw(t, "prefix")
		mk := func(a, o int) *daemon.GiveTxnsMessage {
			txn := coin.Transaction{In: make([]cipher.SHA256, a), Out: make([]coin.TransactionOutput, o), Sigs: make([]cipher.Sig, 0)}
			return &daemon.GiveTxnsMessage{Transactions: []coin.Transaction{txn}}
		}
		base, _ := gnet.EncodeMessage(mk(0, 0))
		need := want - (len(base) - 4) // bytes to add with 32-byte inputs and 37-byte outputs
		a, o := -1, -1
		for x := 0; x < 37 && x*32 <= need; x++ {
			if (need-32*x)%37 == 0 {
				a, o = x, (need-32*x)/37
				break
			}
		}
		if a < 0 || o > 65535 {
			t.Skip("length not reachable")
		}
		fb, err := gnet.EncodeMessage(mk(a, o))
		if err != nil {
			t.Fatalf("encode: %v", err)
		}
		if got := int(binary.LittleEndian.Uint32(fb[:4])); got != want {
			t.Fatalf("harness: built a frame with prefix %d, wanted %d", got, want)
		}
		_ = write(fb)
		werr := write(pb)
		if want <= in {
			if werr != nil || !waitFrame("PONG", 15*time.Second) {
				t.Fatalf("a well-formed frame with length prefix %d (incoming maximum %d, outgoing maximum %d) cost the peer its connection: no PONG afterwards (write error %v)", want, in, out, werr)
			}
			r.Count("frame_within_incoming_maximum_delivered")
		} else {
			select {
			case <-closed:
			case <-time.After(15 * time.Second):
				t.Fatalf("a frame with length prefix %d, above the incoming maximum %d, did not make the node close the connection", want, in)
			}
			r.Count("frame_above_incoming_maximum_disconnected")
		}
		nt := want > out
		r.CaseS(nt, fmt.Sprintf("limits/%d", want))
		if r.WantSample(nt) {
			r.Sample(nt, map[string]interface{}{"kind": "node_limits", "length_prefix": want, "incoming_maximum": in, "outgoing_maximum": out})
		}
	})
}
