package api

import (
	"encoding/hex"
	"fmt"
	"net/http"
	"os"
	"path/filepath"
	"sync"
	"time"

	skyapi "github.com/skycoin/skycoin/src/api"
	"github.com/skycoin/skycoin/src/cipher"
	"github.com/skycoin/skycoin/src/cipher/bip39"
	"github.com/skycoin/skycoin/src/cipher/bip44"
	"github.com/skycoin/skycoin/src/cipher/crypto"
	"github.com/skycoin/skycoin/src/coin"
	"github.com/skycoin/skycoin/src/daemon"
	"github.com/skycoin/skycoin/src/daemon/gnet"
	"github.com/skycoin/skycoin/src/kvstorage"
	"github.com/skycoin/skycoin/src/params"
	"github.com/skycoin/skycoin/src/readable"
	"github.com/skycoin/skycoin/src/util/useragent"
	"github.com/skycoin/skycoin/src/visor"
	"github.com/skycoin/skycoin/src/visor/dbutil"
	"github.com/skycoin/skycoin/src/wallet"
	"github.com/skycoin/skycoin/src/wallet/bip44wallet"
	_ "github.com/skycoin/skycoin/src/wallet/collection"
	_ "github.com/skycoin/skycoin/src/wallet/deterministic"
	_ "github.com/skycoin/skycoin/src/wallet/xpubwallet"

	"verif/harness/internal/gen"
	"verif/harness/internal/hx"
)

// A real node for the API checks: chain database with a generated history and a non-empty pool, wallet service with
// one wallet of every type (one encrypted), key-value storage, daemon with networking disabled and its event loops
// running, gateway and the real request multiplexer.  The expensive part (chain + wallets) is built once per process
// as a template directory; every case works on its own copy.

var (
	c28Publisher = gen.KeyN(41)
	c28Genesis   = gen.KeyN(40)
	c28Users     = []gen.Key{gen.KeyN(0), gen.KeyN(1), gen.KeyN(2)}
)

const (
	c28GenesisTime   = 1426562704
	c28GenesisVolume = 100e12
	c28Mnemonic      = "abandon abandon abandon abandon abandon abandon abandon abandon abandon abandon abandon about"
	c28MnemonicXPub  = "legal winner thank year wave sausage worth useful legal winner thank yellow"
	c28Password      = "pw"
)

type nodeTemplate struct {
	dir         string
	genesisSig  cipher.Sig
	genesisHash cipher.SHA256
	// material for requests
	spentTxnHex   string // encoded, fully signed transaction whose inputs are all spent and that is NOT in the chain
	spendableHex  string // encoded valid transaction that is not pooled
	unsignedHex   string // the same, unsigned
	secretOfAddr  map[string]cipher.SecKey
	walletSecrets []cipher.SecKey
	// a signed block for the template's head that confirms a competitor of the first pooled transaction
	// (so that the pooled one turns into a double spend), not executed in the template
	nextBlock coin.SignedBlock
}

var (
	tmplOnce sync.Once
	tmpl     *nodeTemplate
	tmplErr  error
)

func c28VisorConfig(publisher bool, sig cipher.Sig) visor.Config {
	c := visor.NewConfig()
	c.IsBlockPublisher = publisher
	c.Arbitrating = publisher
	c.BlockchainPubkey = c28Publisher.Pub
	if publisher {
		c.BlockchainSeckey = c28Publisher.Sec
	}
	c.Distribution = params.MainNetDistribution
	c.GenesisAddress = c28Genesis.Addr
	c.GenesisTimestamp = c28GenesisTime
	c.GenesisCoinVolume = c28GenesisVolume
	c.GenesisSignature = sig
	return c
}

func c28WalletConfig(dir string) wallet.Config {
	wc := wallet.NewConfig()
	wc.WalletDir = dir
	wc.EnableWalletAPI = true
	wc.EnableSeedAPI = true
	wc.CryptoType = crypto.CryptoTypeSha256Xor
	return wc
}

// detSignInputs signs like Transaction.SignInputs but with nonces derived from key and message, so that transaction
// hashes - and with them output ids, their order and the whole node template - are the same in every process.
func detSignInputs(txn *coin.Transaction, keys []cipher.SecKey) {
	txn.InnerHash = txn.HashInner()
	txn.Sigs = make([]cipher.Sig, len(txn.In))
	for i := range txn.In {
		txn.Sigs[i] = gen.DetSign(keys[i], cipher.AddSHA256(txn.InnerHash, txn.In[i]))
	}
}

func mustNoErr(err error, what string) {
	if err != nil {
		panic(fmt.Sprintf("%s: %v", what, err))
	}
}

type utxo struct {
	ux    coin.UxOut
	owner cipher.SecKey
}

func buildTemplate() (*nodeTemplate, error) {
	t := &nodeTemplate{dir: hx.TempDir("c28tmpl"), secretOfAddr: map[string]cipher.SecKey{}}
	wdir := filepath.Join(t.dir, "wallets")
	mustNoErr(os.MkdirAll(wdir, 0700), "mkdir")
	ws, err := wallet.NewService(c28WalletConfig(wdir))
	if err != nil {
		return nil, err
	}
	xo := crypto.CryptoTypeSha256Xor
	det, err := ws.CreateWallet("det.wlt", wallet.Options{Type: wallet.WalletTypeDeterministic, Seed: "c28 deterministic seed", Label: "det", GenerateN: 3, CryptoType: xo})
	if err != nil {
		return nil, err
	}
	bip, err := ws.CreateWallet("bip.wlt", wallet.Options{Type: wallet.WalletTypeBip44, Seed: c28Mnemonic, Label: "bip", GenerateN: 2, CryptoType: xo})
	if err != nil {
		return nil, err
	}
	enc, err := ws.CreateWallet("enc.wlt", wallet.Options{Type: wallet.WalletTypeDeterministic, Seed: "c28 encrypted seed", Label: "enc", GenerateN: 2, CryptoType: xo})
	if err != nil {
		return nil, err
	}
	if _, err := ws.CreateWallet("col.wlt", wallet.Options{Type: wallet.WalletTypeCollection, Label: "col", CollectionPrivateKeys: []cipher.SecKey{c28Users[2].Sec}, CryptoType: xo}); err != nil {
		return nil, err
	}
	// a watch-only wallet over the external chain of another bip44 seed; its addresses are funded like the others (the
	// keys are known to the harness through the seed wallet, which is not loaded into the service)
	xseedWlt, err := bip44wallet.NewWallet("xseed.wlt", "xseed", c28MnemonicXPub, "", wallet.OptionCryptoType(xo), wallet.OptionGenerateN(2))
	if err != nil {
		return nil, err
	}
	xpubText, err := func() (string, error) {
		seed, err := bip39.NewSeed(c28MnemonicXPub, "")
		if err != nil {
			return "", err
		}
		cn, err := bip44.NewCoin(seed, bip44.CoinTypeSkycoin)
		if err != nil {
			return "", err
		}
		acct, err := cn.Account(0)
		if err != nil {
			return "", err
		}
		ext, err := acct.External()
		if err != nil {
			return "", err
		}
		return ext.PublicKey().String(), nil
	}()
	if err != nil {
		return nil, err
	}
	if _, err := ws.CreateWallet("xpub.wlt", wallet.Options{Type: wallet.WalletTypeXPub, XPub: xpubText, Label: "xpub", GenerateN: 2, CryptoType: xo}); err != nil {
		return nil, err
	}
	var walletAddrs []cipher.Address
	for _, w := range []wallet.Wallet{det, bip, enc, xseedWlt} {
		es, err := w.GetEntries()
		if err != nil {
			return nil, err
		}
		for _, e := range es {
			a := e.SkycoinAddress()
			t.secretOfAddr[a.String()] = e.Secret
			t.walletSecrets = append(t.walletSecrets, e.Secret)
			walletAddrs = append(walletAddrs, a)
		}
	}
	for _, k := range append([]gen.Key{c28Genesis}, c28Users...) {
		t.secretOfAddr[k.Addr.String()] = k.Sec
	}
	if _, err := ws.EncryptWallet("enc.wlt", []byte(c28Password)); err != nil {
		return nil, err
	}

	db, err := visor.OpenDB(filepath.Join(t.dir, "data.db"), false)
	if err != nil {
		return nil, err
	}
	defer db.Close()
	v, err := visor.New(c28VisorConfig(true, cipher.Sig{}), db, ws)
	if err != nil {
		return nil, err
	}
	if err := v.Init(); err != nil {
		return nil, err
	}
	gb, err := v.GetSignedBlockBySeq(0)
	if err != nil || gb == nil {
		return nil, fmt.Errorf("no genesis block: %v", err)
	}
	t.genesisSig = gb.Sig
	t.genesisHash = gb.HashHeader()

	now := uint64(c28GenesisTime)
	unspent := func() []utxo {
		all, err := v.GetAllUnspentOutputs()
		mustNoErr(err, "GetAllUnspentOutputs")
		var out []utxo
		for _, ux := range all {
			// only outputs that have hours to burn at the current head time
			if sk, ok := t.secretOfAddr[ux.Body.Address.String()]; ok {
				if h, err := ux.CoinHours(now); err == nil && h >= 100 {
					out = append(out, utxo{ux, sk})
				}
			}
		}
		// deterministic order
		for i := range out {
			for j := i + 1; j < len(out); j++ {
				if out[j].ux.Hash().Hex() < out[i].ux.Hash().Hex() {
					out[i], out[j] = out[j], out[i]
				}
			}
		}
		return out
	}
	// spend builds a signed transaction paying the given (address, coins) list from one output, change back to the owner,
	// 80% of the hours kept (half of them to the first receiver)
	spend := func(u utxo, at uint64, to []cipher.Address, coins []uint64) coin.Transaction {
		var txn coin.Transaction
		mustNoErr(txn.PushInput(u.ux.Hash()), "PushInput")
		hours, err := u.ux.CoinHours(at)
		mustNoErr(err, "CoinHours")
		keep := hours / 10 * 8
		var sum uint64
		for i, a := range to {
			h := uint64(0)
			if i == 0 {
				h = keep / 2
			}
			mustNoErr(txn.PushOutput(a, coins[i], h), "PushOutput")
			sum += coins[i]
		}
		if u.ux.Body.Coins > sum {
			ch := keep / 2
			for _, o := range txn.Out {
				// a receiver that is the owner, with the same amount: the change must not repeat that output
				if o.Address == u.ux.Body.Address && o.Coins == u.ux.Body.Coins-sum && o.Hours == ch {
					ch--
				}
			}
			mustNoErr(txn.PushOutput(u.ux.Body.Address, u.ux.Body.Coins-sum, ch), "PushOutput")
		}
		detSignInputs(&txn, []cipher.SecKey{u.owner})
		mustNoErr(txn.UpdateHeader(), "UpdateHeader")
		return txn
	}
	publish := func(txns ...coin.Transaction) {
		now += 3600 * 24
		b, err := v.CreateBlockFromTxns(coin.Transactions(txns), now)
		if err != nil {
			for i := range txns {
				_, soft, ierr := v.InjectForeignTransaction(txns[i])
				err = fmt.Errorf("%v; txn %d: soft=%v err=%v", err, i, soft, ierr)
			}
		}
		mustNoErr(err, "CreateBlockFromTxns")
		sb := coin.SignedBlock{Block: b, Sig: gen.DetSign(c28Publisher.Sec, b.HashHeader())}
		mustNoErr(v.ExecuteSignedBlock(sb), "ExecuteSignedBlock")
	}
	// block 1: genesis output -> wallets and users
	g := unspent()
	if len(g) != 1 {
		return nil, fmt.Errorf("expected one genesis output, got %d", len(g))
	}
	to := append(append([]cipher.Address{}, walletAddrs...), c28Users[0].Addr, c28Users[1].Addr, c28Users[2].Addr)
	amounts := make([]uint64, len(to))
	for i := range amounts {
		amounts[i] = uint64(i+1) * 1000e6
	}
	first := spend(g[0], now, to, amounts)
	publish(first)
	// blocks 2..7: each spends one or two known outputs onwards
	var spentOnce *utxo
	for b := 2; b <= 7; b++ {
		us := unspent()
		var txns []coin.Transaction
		for k := 0; k < 1+b%2 && k < len(us); k++ {
			u := us[(b*3+k*5)%len(us)]
			dup := false
			for _, x := range txns {
				if x.In[0] == u.ux.Hash() {
					dup = true
				}
			}
			if dup || u.ux.Body.Coins < 10e6 {
				continue
			}
			dest := to[(b+k)%len(to)]
			txns = append(txns, spend(u, now, []cipher.Address{dest}, []uint64{u.ux.Body.Coins / 4 / 1e6 * 1e6}))
			if spentOnce == nil {
				cp := u
				spentOnce = &cp
			}
		}
		publish(txns...)
	}
	// a transaction that spends an output which a block has already spent, and that is itself unknown to the chain
	if spentOnce != nil {
		x := spend(*spentOnce, now, []cipher.Address{c28Users[1].Addr}, []uint64{1e6})
		t.spentTxnHex = hex.EncodeToString(mustSerialize(x))
	}
	// pool: two valid transactions and one that violates the soft rules (no hours burnt)
	us := unspent()
	if len(us) < 4 {
		return nil, fmt.Errorf("template chain has only %d known outputs", len(us))
	}
	p1 := spend(us[0], now, []cipher.Address{c28Users[0].Addr}, []uint64{us[0].ux.Body.Coins / 2 / 1e6 * 1e6})
	p2 := spend(us[1], now, []cipher.Address{walletAddrs[0]}, []uint64{us[1].ux.Body.Coins / 2 / 1e6 * 1e6})
	var p3 coin.Transaction
	{
		u := us[2]
		mustNoErr(p3.PushInput(u.ux.Hash()), "PushInput")
		h, _ := u.ux.CoinHours(now)
		mustNoErr(p3.PushOutput(c28Users[1].Addr, u.ux.Body.Coins, h), "PushOutput") // fee 0
		detSignInputs(&p3, []cipher.SecKey{u.owner})
		mustNoErr(p3.UpdateHeader(), "UpdateHeader")
	}
	if os.Getenv("VERIF_DEBUG_TEMPLATE") != "" {
		fmt.Fprintf(os.Stderr, "TEMPLATE first=%s us0=%s us1=%s n=%d wallet0=%s\n", first.Hash().Hex()[:8], us[0].ux.Hash().Hex()[:8], us[1].ux.Hash().Hex()[:8], len(us), walletAddrs[0])
	}
	for i, p := range []coin.Transaction{p1, p2, p3} {
		if _, _, err := v.InjectForeignTransaction(p); err != nil {
			return nil, fmt.Errorf("pool transaction %d: %v", i, err)
		}
	}
	{
		competitor := spend(us[0], now, []cipher.Address{c28Users[2].Addr}, []uint64{us[0].ux.Body.Coins / 4 / 1e6 * 1e6})
		b, err := v.CreateBlockFromTxns(coin.Transactions{competitor}, now+3600*24)
		if err != nil {
			return nil, fmt.Errorf("competitor block: %v", err)
		}
		t.nextBlock = coin.SignedBlock{Block: b, Sig: gen.DetSign(c28Publisher.Sec, b.HashHeader())}
	}
	sp := spend(us[3], now, []cipher.Address{c28Users[2].Addr}, []uint64{us[3].ux.Body.Coins / 2 / 1e6 * 1e6})
	t.spendableHex = hex.EncodeToString(mustSerialize(sp))
	un := sp
	un.Sigs = make([]cipher.Sig, len(sp.Sigs))
	t.unsignedHex = hex.EncodeToString(mustSerialize(un))
	return t, nil
}

func mustSerialize(t coin.Transaction) []byte {
	b, err := t.Serialize()
	mustNoErr(err, "Serialize")
	return b
}

func getTemplate() (*nodeTemplate, error) {
	tmplOnce.Do(func() {
		defer func() {
			if p := recover(); p != nil {
				tmplErr = fmt.Errorf("building the node template panicked: %v", p)
			}
		}()
		tmpl, tmplErr = buildTemplate()
	})
	return tmpl, tmplErr
}

var daemonNewMu sync.Mutex

type liveNode struct {
	dir    string
	db     *dbutil.DB
	v      *visor.Visor
	d      *daemon.Daemon
	ws     *wallet.Service
	mux    http.Handler
	run    chan error
	wedged bool // a request to this node never returned
}

func copyTree(src, dst string) error {
	return filepath.Walk(src, func(p string, info os.FileInfo, err error) error {
		if err != nil {
			return err
		}
		rel, _ := filepath.Rel(src, p)
		q := filepath.Join(dst, rel)
		if info.IsDir() {
			return os.MkdirAll(q, 0700)
		}
		b, err := os.ReadFile(p)
		if err != nil {
			return err
		}
		return os.WriteFile(q, b, 0600)
	})
}

var allAPISets = map[string]struct{}{"READ": {}, "STATUS": {}, "TXN": {}, "WALLET": {}, "INSECURE_WALLET_SEED": {}, "NET_CTRL": {}, "STORAGE": {}}

func startNode(t *nodeTemplate) (*liveNode, error) { return startNodeOpt(t, false) }

// startNodeOpt: with networking the daemon listens on a kernel-chosen loopback port (no outgoing connections, no pex)
func startNodeOpt(t *nodeTemplate, networking bool) (*liveNode, error) {
	n := &liveNode{dir: hx.TempDir("c28node")}
	if err := copyTree(t.dir, n.dir); err != nil {
		return nil, err
	}
	var err error
	n.ws, err = wallet.NewService(c28WalletConfig(filepath.Join(n.dir, "wallets")))
	if err != nil {
		return nil, err
	}
	n.db, err = visor.OpenDB(filepath.Join(n.dir, "data.db"), false)
	if err != nil {
		return nil, err
	}
	vc := c28VisorConfig(false, t.genesisSig)
	n.v, err = visor.New(vc, n.db, n.ws)
	if err != nil {
		n.db.Close()
		return nil, err
	}
	dc := daemon.NewConfig()
	dc.Daemon.DisableNetworking = !networking
	if networking {
		dc.Daemon.DisableOutgoingConnections = true
		dc.Daemon.LocalhostOnly = true
		dc.Daemon.Address = "127.0.0.1"
		dc.Daemon.Port = 0
		dc.Daemon.IntroductionWait = 10 * time.Minute
		dc.Daemon.GenesisHash = t.genesisHash
	}
	dc.Daemon.DataDirectory = n.dir
	dc.Pex.DataDirectory = n.dir
	dc.Pex.Disabled = true
	dc.Pex.NetworkDisabled = true
	dc.Pex.DownloadPeerList = false
	dc.Pex.DisableTrustedPeers = true
	dc.Daemon.BlockchainPubkey = c28Publisher.Pub
	dc.Daemon.UserAgent = useragent.Data{Coin: "skycoin", Version: "0.26.0"}
	dc.Daemon.UnconfirmedVerifyTxn = vc.UnconfirmedVerifyTxn
	dc.Daemon.MaxLastBlocksCount = 256
	// the wire message registry is process-global and daemon.New registers into it: one node per process in
	// production; here it is emptied before every node (no wire messages flow, networking is disabled)
	daemonNewMu.Lock()
	gnet.EraseMessages()
	n.d, err = daemon.New(dc, n.v)
	daemonNewMu.Unlock()
	if err != nil {
		n.db.Close()
		return nil, err
	}
	kc := kvstorage.NewConfig()
	kc.StorageDir = filepath.Join(n.dir, "storage")
	kc.EnableStorageAPI = true
	kc.EnabledStorages = []kvstorage.Type{kvstorage.TypeGeneral, kvstorage.TypeTxIDNotes}
	_ = os.MkdirAll(kc.StorageDir, 0700)
	km, err := kvstorage.NewManager(kc)
	if err != nil {
		n.db.Close()
		return nil, err
	}
	gw := skyapi.NewGateway(n.d, n.v, n.ws, km)
	if err := n.v.Init(); err != nil {
		n.db.Close()
		return nil, err
	}
	n.run = make(chan error, 1)
	go func() { n.run <- n.d.Run() }()
	n.mux = skyapi.VerifNewServerMux("127.0.0.1:6420", skyapi.Config{DisableCSRF: true, DisableHeaderCheck: true, EnabledAPISets: allAPISets,
		Health: skyapi.HealthConfig{BuildInfo: readable.BuildInfo{Version: "0.26.0", Commit: "verif", Branch: "verif"}, Fiber: readable.FiberConfig{Name: "skycoin", DisplayName: "Skycoin", Ticker: "SKY"},
			DaemonUserAgent: useragent.Data{Coin: "skycoin", Version: "0.26.0"}}}, gw)
	return n, nil
}

func (n *liveNode) stop() error {
	done := make(chan struct{})
	go func() {
		n.d.Shutdown()
		<-n.run
		close(done)
	}()
	var err error
	limit := 60 * time.Second
	if n.wedged {
		limit = 5 * time.Second // a handler of this node never returned: it may hold the database or a gateway lock for good
	}
	select {
	case <-done:
	case <-time.After(limit):
		err = fmt.Errorf("daemon shutdown did not finish within %v", limit)
	}
	closed := make(chan struct{})
	go func() { n.db.Close(); close(closed) }()
	select {
	case <-closed:
	case <-time.After(limit):
		if err == nil && !n.wedged {
			err = fmt.Errorf("database did not close within %v", limit)
		}
	}
	os.RemoveAll(n.dir)
	if n.wedged {
		return nil // the hang itself is what gets reported
	}
	return err
}
