package api

import (
	"bytes"
	"crypto/sha256"
	"encoding/json"
	"math/big"
	"net/http/httptest"
	"strings"
	"testing"

	"pgregory.net/rapid"

	skyapi "github.com/skycoin/skycoin/src/api"
	"github.com/skycoin/skycoin/src/cipher"

	"verif/harness/internal/ev"
	"verif/harness/internal/hx"
)

// C15 names POST /api/v2/address/verify as an observation point: the endpoint must accept a text exactly when it is the
// canonical encoding of a version-0 address with a correct checksum.  The predicate below is written from the definition
// (big-integer base58 over the bitcoin alphabet, one leading '1' per leading zero byte, 20+1+4 bytes).

const c15Alphabet = "123456789ABCDEFGHJKLMNPQRSTUVWXYZabcdefghijkmnopqrstuvwxyz"

func c15RefEncode(b []byte) string {
	zeros := 0
	for zeros < len(b) && b[zeros] == 0 {
		zeros++
	}
	n := new(big.Int).SetBytes(b)
	var out []byte
	base, mod := big.NewInt(58), new(big.Int)
	for n.Sign() > 0 {
		n.DivMod(n, base, mod)
		out = append(out, c15Alphabet[mod.Int64()])
	}
	for i := 0; i < zeros; i++ {
		out = append(out, '1')
	}
	for i, j := 0, len(out)-1; i < j; i, j = i+1, j-1 {
		out[i], out[j] = out[j], out[i]
	}
	return string(out)
}

func c15RefCanonicalAddress(s string) bool {
	if s == "" {
		return false
	}
	n := new(big.Int)
	for _, r := range s {
		i := -1
		if r < 128 {
			i = strings.IndexByte(c15Alphabet, byte(r))
		}
		if i < 0 {
			return false
		}
		n.Mul(n, big.NewInt(58))
		n.Add(n, big.NewInt(int64(i)))
	}
	ones := 0
	for ones < len(s) && s[ones] == '1' {
		ones++
	}
	b := append(make([]byte, ones), n.Bytes()...)
	if len(b) != 25 || b[20] != 0 {
		return false
	}
	sum := sha256.Sum256(b[:21])
	return bytes.Equal(sum[:4], b[21:]) && c15RefEncode(b) == s
}

func TestC15_VerifyEndpoint(t *testing.T) {
	r := ev.Get("C15")
	r.Rule("POST /api/v2/address/verify on the real multiplexer (stub gateway): texts built from a generated valid address - unchanged, padded in front / behind / on both sides with ASCII and Unicode white space (space, tab, CR, LF, U+00A0, U+2003, U+FEFF, U+200B), with an extra leading '1', one character edited, a wrong version, a broken checksum, cut or extended, percent-encoded, upper-cased - must be answered 200 with version 0 exactly when an independently written canonical-address predicate accepts the text the handler receives (after JSON decoding), and otherwise with 400 or 422; cipher.DecodeBase58Address must agree; non-trivial = a text that differs from a valid address only by padding or one edit; distinct by text")
	mux := skyapi.VerifNewServerMux("127.0.0.1:6420", skyapi.Config{DisableCSRF: true, DisableHeaderCheck: true, EnabledAPISets: allAPISets}, &stubGW{})
	pads := []string{" ", "\t", "\n", "\r\n", "\u00a0", "\u2003", "\ufeff", "\u200b", "  ", "\x00", "\v", "\f", "\u0085", "\u3000"}
	hx.Check(t, "C15", 4000, 120000, func(t *rapid.T) {
		var key [20]byte
		z := rapid.IntRange(0, 3).Draw(t, "zeros")
		copy(key[z:], rapid.SliceOfN(rapid.Byte(), 20-z, 20-z).Draw(t, "key"))
		text := cipher.Address{Version: 0, Key: cipher.Ripemd160(key)}.String()
		class := rapid.SampledFrom([]string{"canonical", "pad_front", "pad_back", "pad_both", "prefix1", "edit", "version", "checksum", "cut", "tail", "percent", "upper", "inner_space"}).Draw(t, "class")
		s := text
		pad := func(label string) string { return rapid.SampledFrom(pads).Draw(t, label) }
		switch class {
		case "pad_front":
			s = pad("p") + text
		case "pad_back":
			s = text + pad("p")
		case "pad_both":
			s = pad("p1") + text + pad("p2")
		case "prefix1":
			s = "1" + text
		case "edit":
			rs := []rune(text)
			rs[rapid.IntRange(0, len(rs)-1).Draw(t, "pos")] = rapid.SampledFrom([]rune(c15Alphabet+"0OIl")).Draw(t, "ch")
			s = string(rs)
		case "version":
			body := append(append([]byte{}, key[:]...), byte(rapid.IntRange(1, 255).Draw(t, "ver")))
			sum := sha256.Sum256(body)
			s = c15RefEncode(append(body, sum[:4]...))
		case "checksum":
			body := append(append([]byte{}, key[:]...), 0)
			sum := sha256.Sum256(body)
			sum[rapid.IntRange(0, 3).Draw(t, "csb")] ^= byte(1 << uint(rapid.IntRange(0, 7).Draw(t, "bit")))
			s = c15RefEncode(append(body, sum[:4]...))
		case "cut":
			s = text[:rapid.IntRange(1, len(text)-1).Draw(t, "keep")]
		case "tail":
			s = text + string(c15Alphabet[rapid.IntRange(0, 57).Draw(t, "tailch")])
		case "percent":
			s = strings.Replace(text, text[:1], "%3"+text[:1], 1)
		case "upper":
			s = strings.ToUpper(text)
		case "inner_space":
			p := rapid.IntRange(1, len(text)-1).Draw(t, "at")
			s = text[:p] + pad("p") + text[p:]
		}
		body, _ := json.Marshal(map[string]string{"address": s})
		var seen struct {
			Address string `json:"address"`
		}
		if err := json.Unmarshal(body, &seen); err != nil {
			t.Fatalf("harness: %v", err)
		}
		want := c15RefCanonicalAddress(seen.Address)
		req := httptest.NewRequest("POST", "http://127.0.0.1:6420/api/v2/address/verify", bytes.NewReader(body))
		req.Header.Set("Content-Type", "application/json")
		w := httptest.NewRecorder()
		mux.ServeHTTP(w, req)
		if want {
			var resp struct {
				Data *struct {
					Version *int `json:"version"`
				} `json:"data"`
			}
			if w.Code != 200 || json.Unmarshal(w.Body.Bytes(), &resp) != nil || resp.Data == nil || resp.Data.Version == nil || *resp.Data.Version != 0 {
				t.Fatalf("address/verify refuses the canonical address text %q: status %d body %s", seen.Address, w.Code, w.Body.String())
			}
		} else if w.Code != 400 && w.Code != 422 {
			t.Fatalf("address/verify answers %d for %q (class %s), which is not the canonical text of a version-0 address; body %s", w.Code, seen.Address, class, w.Body.String())
		}
		if _, err := cipher.DecodeBase58Address(seen.Address); (err == nil) != want {
			t.Fatalf("DecodeBase58Address(%q) err=%v, canonical=%v", seen.Address, err, want)
		}
		nt := class != "canonical" && class != "version" && class != "checksum"
		r.Case(nt, []byte("ep/"+seen.Address))
		r.Count("endpoint_class_" + class)
		if r.WantSample(nt) {
			r.Sample(nt, map[string]interface{}{"address_text": seen.Address, "class": class, "status": w.Code})
		}
	})
}
