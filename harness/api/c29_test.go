package api

import (
	"encoding/json"
	"fmt"
	"math/big"
	"net/http/httptest"
	"net/url"
	"strings"
	"testing"

	"pgregory.net/rapid"

	"github.com/skycoin/skycoin/src/cipher"
	"github.com/skycoin/skycoin/src/visor"

	"verif/harness/internal/ev"
	"verif/harness/internal/hx"
)

// TestC29_NodePaging: the paging of address queries observed at Visor.GetTransactions and at GET /api/v2/transactions
// on the real node of the API checks (8 blocks + 3 pooled transactions).
func TestC29_NodePaging(t *testing.T) {
	r := ev.Get("C29")
	r.Rule("node paging: address filters (1-4 addresses of the node's chain, with duplicates and unknown addresses) x confirmed filter {none, confirmed, unconfirmed} x order {asc, desc} x page size 1..100 (biased to 1..5, the result lists hold up to ~14 transactions) on a real node; oracle: the concatenation of pages 1..N equals the unpaged, de-duplicated list, every page reports N = ceil(len/size) pages, pages N+1, N+2 and drawn 64-bit page numbers (2^63, 2^64-1, values whose (page-1)*size wraps to a small number) are empty, and the HTTP endpoint (plain and verbose=1) returns the same pages, in the same order, and the same page count; non-trivial = the result list spans at least 2 pages; distinct by (filter, order, size)")
	tm, err := getTemplate()
	if err != nil {
		setupFailed(t, "node template: %v", err)
	}
	n, err := startNode(tm)
	if err != nil {
		setupFailed(t, "node start: %v", err)
	}
	defer n.stop()
	hx.Check(t, "C29", 300, 20000, func(t *rapid.T) {
		c := &c28Ctx{t: t, n: n, tm: tm}
		c.collectLive()
		var flts []visor.TxFilter
		var addrStrs []string
		na := rapid.IntRange(0, 4).Draw(t, "naddr")
		if na > 0 {
			var addrs []cipher.Address
			for i := 0; i < na; i++ {
				s := c.pick("addr", c.addrs)
				a, err := cipher.DecodeBase58Address(s)
				if err != nil {
					continue
				}
				addrs = append(addrs, a)
				addrStrs = append(addrStrs, s)
			}
			if len(addrs) > 0 {
				flts = append(flts, visor.NewAddrsFilter(addrs))
			}
		}
		conf := rapid.SampledFrom([]string{"", "", "1", "0"}).Draw(t, "confirmed")
		if conf != "" {
			flts = append(flts, visor.NewConfirmedTxFilter(conf == "1"))
		}
		order := rapid.SampledFrom([]visor.SortOrder{visor.AscOrder, visor.DescOrder}).Draw(t, "order")
		size := uint64(rapid.OneOf(rapid.IntRange(1, 5), rapid.IntRange(1, 5), rapid.IntRange(1, 100)).Draw(t, "size"))
		all, pagesAll, err := n.v.GetTransactions(flts, order, nil)
		if err != nil {
			t.Fatalf("unpaged query failed: %v", err)
		}
		_ = pagesAll
		var want []string
		seen := map[string]bool{}
		for _, tx := range all {
			h := tx.Transaction.Hash().Hex()
			if seen[h] {
				t.Fatalf("unpaged result lists %s twice", h)
			}
			seen[h] = true
			want = append(want, h)
		}
		N := (uint64(len(want)) + size - 1) / size
		query := func(page uint64) ([]string, uint64) {
			pi, err := visor.NewPageIndex(size, page)
			if err != nil {
				t.Fatalf("NewPageIndex(%d,%d): %v", size, page, err)
			}
			txns, pages, err := n.v.GetTransactions(flts, order, pi)
			if err != nil {
				t.Fatalf("GetTransactions(size=%d page=%d): %v", size, page, err)
			}
			var hs []string
			for _, tx := range txns {
				hs = append(hs, tx.Transaction.Hash().Hex())
			}
			return hs, pages
		}
		verbose := rapid.Bool().Draw(t, "verbose")
		viaHTTP := func(page uint64) ([]string, uint64, int) {
			q := url.Values{}
			if len(addrStrs) > 0 {
				q.Set("addrs", strings.Join(addrStrs, ","))
			}
			if conf != "" {
				q.Set("confirmed", conf)
			}
			if order == visor.DescOrder {
				q.Set("sort", "desc")
			}
			q.Set("limit", fmt.Sprint(size))
			q.Set("page", fmt.Sprint(page))
			if verbose {
				q.Set("verbose", "1")
			}
			s := n.serve(httptest.NewRequest("GET", "http://127.0.0.1:6420/api/v2/transactions?"+q.Encode(), nil), 0)
			var resp struct {
				Data struct {
					PageInfo struct {
						TotalPages uint64 `json:"total_pages"`
					} `json:"page_info"`
					Txns []struct {
						Txn struct {
							Txid string `json:"txid"`
						} `json:"txn"`
					} `json:"txns"`
				} `json:"data"`
			}
			if s.code != 200 {
				return nil, 0, s.code
			}
			if err := json.Unmarshal(s.body, &resp); err != nil {
				t.Fatalf("v2 transactions answer does not parse: %v", err)
			}
			var hs []string
			for _, x := range resp.Data.Txns {
				hs = append(hs, x.Txn.Txid)
			}
			return hs, resp.Data.PageInfo.TotalPages, 200
		}
		var got []string
		for p := uint64(1); p <= N+2; p++ {
			hs, pages := query(p)
			if pages != N {
				t.Fatalf("page %d of size %d over %d results reports %d pages, want %d", p, size, len(want), pages, N)
			}
			if p > N && len(hs) != 0 {
				t.Fatalf("page %d beyond the last page %d holds %d transactions", p, N, len(hs))
			}
			if p <= N {
				lo, hi := (p-1)*size, p*size
				if hi > uint64(len(want)) {
					hi = uint64(len(want))
				}
				if strings.Join(hs, ",") != strings.Join(want[lo:hi], ",") {
					t.Fatalf("page %d (size %d) = %v, want elements [%d,%d) of the unpaged list %v", p, size, hs, lo, hi, want)
				}
			}
			got = append(got, hs...)
			if len(addrStrs) > 0 || conf != "" || true {
				hh, hp, code := viaHTTP(p)
				if code != 200 {
					t.Fatalf("GET /api/v2/transactions page=%d limit=%d answered %d", p, size, code)
				}
				if hp != pages || strings.Join(hh, ",") != strings.Join(hs, ",") {
					t.Fatalf("HTTP page %d (limit %d) = %v of %d pages, node query gives %v of %d pages", p, size, hh, hp, hs, pages)
				}
			}
		}
		if strings.Join(got, ",") != strings.Join(want, ",") {
			t.Fatalf("pages 1..%d concatenated = %v, unpaged list = %v", N, got, want)
		}
		// far pages: must be empty whatever the multiplication does
		two64 := new(big.Int).Lsh(big.NewInt(1), 64)
		far := []uint64{1 << 63, ^uint64(0), ^uint64(0) - 1, 1<<63 + 1}
		// (page-1)*size == k (mod 2^64) for small k: page = (k + j*2^64)/size + 1 when divisible
		for j := int64(1); j <= 3; j++ {
			for k := int64(0); k < 3; k++ {
				x := new(big.Int).Mul(two64, big.NewInt(j))
				x.Add(x, big.NewInt(k))
				if new(big.Int).Mod(x, new(big.Int).SetUint64(size)).Sign() == 0 {
					x.Quo(x, new(big.Int).SetUint64(size))
					x.Add(x, big.NewInt(1))
					if x.IsUint64() {
						far = append(far, x.Uint64())
					}
				}
			}
		}
		far = append(far, rapid.Uint64Range(N+1, ^uint64(0)).Draw(t, "farpage"))
		for _, p := range far {
			if p <= N {
				continue
			}
			hs, pages := query(p)
			if len(hs) != 0 || pages != N {
				t.Fatalf("page %d (size %d, %d results, %d pages) returned %d transactions and %d pages, want an empty page", p, size, len(want), N, len(hs), pages)
			}
			hh, hp, code := viaHTTP(p)
			if code != 200 || len(hh) != 0 || hp != N {
				t.Fatalf("HTTP page %d (limit %d): status %d, %d transactions, %d pages; want 200, none, %d", p, size, code, len(hh), hp, N)
			}
		}
		nt := N >= 2
		r.CaseS(nt, fmt.Sprintf("node/%v/%s/%d/%d", addrStrs, conf, order, size))
		r.Count("node_paging_cases")
		if nt {
			r.Count("node_paging_multi_page")
		}
		if r.WantSample(nt) && nt {
			r.Sample(nt, map[string]interface{}{"addresses": addrStrs, "confirmed_filter": conf, "page_size": size, "results": len(want), "pages": N})
		}
	})
}
