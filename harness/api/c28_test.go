package api

import (
	"strconv"
	"bytes"
	"encoding/binary"
	"encoding/hex"
	"encoding/json"
	"fmt"
	"github.com/skycoin/skycoin/src/coin"
	"net/http"
	"net/http/httptest"
	"net/url"
	"sort"
	"strings"
	"testing"
	"time"

	"pgregory.net/rapid"

	"github.com/skycoin/skycoin/src/cipher"
	"github.com/skycoin/skycoin/src/visor"

	"verif/harness/internal/ev"
	"verif/harness/internal/hx"
)

const ruleC28 = "rapid-generated request sequences (8-40 requests per case) served in process by the real request multiplexer over a real node: chain database with 8 blocks (multi-transaction blocks, wallet-owned and foreign outputs), a pool of 3 transactions (one violating the soft rules), a wallet service with deterministic, bip44, collection and encrypted wallets, key-value storage, daemon with networking disabled and its event loops running; every case starts from a fresh copy of the node. Requests: every endpoint of the route table with a parameter grammar fed from live values (addresses, transaction / output / block hashes, wallet ids, encoded transactions incl. spends of already spent outputs, of unknown outputs, unsigned and re-signed ones) and mutated per parameter (missing, empty, other live value, wrong type, huge, negative, 2^63 / 2^64, scientific notation up to 1e999999999, unicode, NUL, very long lists, duplicates); JSON bodies with wrong-typed, missing, unknown and deeply nested members, invalid and truncated JSON; oracle: the handler returns within 20 s with a status in 200-599 and a body that parses as its declared content type, nothing panics, and the node still answers /api/v1/health with 200 afterwards; non-trivial = the request was answered by endpoint logic with valid-looking parameters for at least one field (not a 404/405/415); distinct by request rendering"

type c28Ctx struct {
	rawtxs []string // encoded transactions: confirmed ones of every block (the first spends the genesis output), pooled ones
	t      *rapid.T
	n      *liveNode
	tm     *nodeTemplate
	addrs  []string
	txids  []string
	uxids  []string
	bhash  []string
	wids   []string
}

var hostileStrings = []string{"", " ", "0", "-1", "abc", "null", "true", "1e3", "1e999999999", "0x10", "18446744073709551615", "18446744073709551616", "9223372036854775808", "-9223372036854775809", "1.5", "٣", "é\u0000x", "%00", "../../etc/passwd", "'; DROP TABLE", "\xff\xfe", strings.Repeat("9", 400), strings.Repeat("A", 20000)}

func (c *c28Ctx) pick(label string, xs []string) string {
	return xs[rapid.IntRange(0, len(xs)-1).Draw(c.t, label)]
}

func (c *c28Ctx) hostile(label string) string { return c.pick(label, hostileStrings) }

func (c *c28Ctx) mutateStr(label, s string) string {
	if len(s) == 0 {
		return "x"
	}
	i := rapid.IntRange(0, len(s)-1).Draw(c.t, label+"_pos")
	switch rapid.IntRange(0, 3).Draw(c.t, label+"_mut") {
	case 0:
		return s[:i]
	case 1:
		return s[:i] + "0" + s[i:]
	case 2:
		b := []byte(s)
		b[i] ^= byte(1 << uint(rapid.IntRange(0, 6).Draw(c.t, label+"_bit")))
		return string(b)
	default:
		return s + s
	}
}

// val draws a textual value for a parameter class
func (c *c28Ctx) val(class string) string {
	v := c.val0(class)
	if class == "smallnum" {
		// parameters that make the node derive addresses one by one: a count the node accepts and cannot finish
		// (known finding unbounded-address-scan, probed once by TestC28_ZZ_UnboundedScanProbe) is never issued here -
		// every such request would leave a handler spinning for the rest of the process
		if n, err := strconv.ParseUint(strings.TrimSpace(v), 10, 64); err == nil && n > 10 {
			excludedHugeCounts++
			return "10"
		}
	}
	return v
}

// excludedHugeCounts counts the address-derivation counts above 10 that val replaced (reported in the evidence)
var excludedHugeCounts int64

func (c *c28Ctx) val0(class string) string {
	t := c.t
	mode := rapid.IntRange(0, 9).Draw(t, class+"_mode") // 0-5 good, 6 mutated good, 7-8 hostile, 9 other class
	if mode >= 7 && mode <= 8 {
		return c.hostile(class + "_h")
	}
	var good string
	switch class {
	case "wid":
		good = c.pick("wid", c.wids)
	case "pw":
		good = c.pick("pw", []string{c28Password, c28Password, "wrong", ""})
	case "addr":
		good = c.pick("addr", c.addrs)
	case "addrs":
		k := rapid.IntRange(1, 4).Draw(t, "naddrs")
		if rapid.IntRange(0, 40).Draw(t, "manyaddrs") == 0 {
			k = 600
		}
		var xs []string
		for i := 0; i < k; i++ {
			xs = append(xs, c.pick("addr", c.addrs))
		}
		good = strings.Join(xs, c.pick("sep", []string{",", ",", ", ", " ", ",,"}))
	case "txid":
		good = c.pick("txid", c.txids)
	case "uxid":
		good = c.pick("uxid", c.uxids)
	case "hashes":
		k := rapid.IntRange(1, 3).Draw(t, "nhashes")
		var xs []string
		for i := 0; i < k; i++ {
			xs = append(xs, c.pick("uxid", c.uxids))
		}
		good = strings.Join(xs, ",")
	case "bhash":
		good = c.pick("bhash", c.bhash)
	case "seq":
		good = c.pick("seq", []string{"0", "1", "3", "7", "8", "100", "4294967296", "9223372036854775807", "18446744073709551615"})
	case "seqs":
		good = c.pick("seqs", []string{"0,1,2", "7", "1,1,1", "3,99", "7,6,5,4,3,2,1,0", "18446744073709551615,0", "1,4294967296"})
	case "num":
		good = c.pick("num", []string{"0", "1", "3", "100", "1000000", "4294967296", "9223372036854775807", "18446744073709551615"})
	case "smallnum": // numbers that make the node derive addresses: bounded (cost), see assumptions
		good = c.pick("smallnum", []string{"0", "1", "2", "5", "10"})
		if mode >= 6 {
			return c.pick("smallnum_bad", []string{"", "-1", "abc", "1e3", "18446744073709551616", "1.5", " 3", "0x2", "٣"})
		}
		return good
	case "bool":
		good = c.pick("bool", []string{"1", "0", "true", "false", "t", "TRUE"})
	case "sort":
		good = c.pick("sort", []string{"asc", "desc", "ASC", " desc "})
	case "limit":
		good = c.pick("limit", []string{"1", "2", "10", "100", "101", "0"})
	case "page":
		good = c.pick("page", []string{"1", "2", "3", "1000", "18446744073709551615", "9223372036854775809", "0"})
	case "states":
		good = c.pick("states", []string{"pending", "connected", "introduced", "pending,connected", "introduced,bogus"})
	case "direction":
		good = c.pick("direction", []string{"incoming", "outgoing", ""})
	case "connaddr":
		good = c.pick("connaddr", []string{"127.0.0.1:6000", "1.2.3.4:6000", "[::1]:6000", "1.2.3.4"})
	case "connid":
		good = c.pick("connid", []string{"1", "0", "99"})
	case "wtype":
		good = c.pick("wtype", []string{"deterministic", "bip44", "collection", "xpub", "nosuchtype"})
	case "seed":
		good = c.pick("seed", []string{"a fresh seed " + fmt.Sprint(rapid.IntRange(0, 5).Draw(t, "seedn")), c28Mnemonic, "c28 deterministic seed", "legal winner thank year wave sausage worth useful legal winner thank yellow"})
	case "label":
		good = c.pick("label", []string{"a label", "x", "det"})
	case "entropy":
		good = c.pick("entropy", []string{"128", "256", "192", "0", "129"})
	case "stype":
		good = c.pick("stype", []string{"client", "txid", "nosuch"})
	case "skey":
		good = c.pick("skey", []string{"k1", "k2", "missing"})
	case "sval":
		good = c.pick("sval", []string{"v", "{\"a\":1}", strings.Repeat("v", 5000)})
	case "rawtx":
		good = c.pick("rawtx", append([]string{c.tm.spendableHex, c.tm.spentTxnHex, c.tm.unsignedHex, c.tm.spendableHex}, c.rawtxs...))
	case "xpub":
		good = c.pick("xpub", []string{"xpub6CUGRUonZSQ4TWtTMmzXdrXDtypWKiKrhko4egpiMZbpiaQL2jkwSB1icqYh2cfDfVxdx4df189oLKnC5fSwqPfgyP3hooxujYzAu3fDVmz", "xpub661MyMwAqRbcFtXgS5sYJABqqG9YLmC4Q1Rdap9gSE8NqtwybGhePY2gZ29ESFjqJoCu1Rupje8YtGqsefD265TMg7usUDFdp6W1EGMcet8"})
	case "privkeys":
		good = hex.EncodeToString(c28Users[0].Sec[:]) + c.pick("morekeys", []string{"", "," + hex.EncodeToString(c28Users[1].Sec[:])})
	case "bip44coin":
		good = c.pick("bip44coin", []string{"8000", "0", "2147483648"})
	case "passphrase":
		good = c.pick("passphrase", []string{"", "pass phrase"})
	case "coins":
		good = c.pick("coins", []string{"1", "0.001", "1000", "0.000001", "0.0000001", "99999999999", "1e2", "1e-3", "-1", "0"})
	case "hours":
		good = c.pick("hours", []string{"0", "1", "100", "18446744073709551615", "-1"})
	case "sharefactor":
		good = c.pick("sharefactor", []string{"0.5", "0", "1", "1.01", "-0.1", "0.333333333333333333333", "1e-30"})
	default:
		good = class
	}
	switch mode {
	case 6:
		return c.mutateStr(class+"_m", good)
	case 9:
		return c.val(c.pick("otherclass", []string{"wid", "addr", "txid", "seq", "bool"}))
	}
	return good
}

// jval turns a drawn text into a JSON member value, sometimes with the wrong JSON type
func (c *c28Ctx) jval(class string, want string) interface{} {
	s := c.val(class)
	switch rapid.IntRange(0, 11).Draw(c.t, class+"_jt") {
	case 0:
		return nil
	case 1:
		return 12345
	case 2:
		return []interface{}{s}
	case 3:
		return map[string]interface{}{"x": s}
	case 4:
		return true
	case 5:
		return 1e300
	}
	switch want {
	case "bool":
		return s == "1" || s == "true"
	case "int":
		var n json.Number = json.Number(s)
		if _, err := n.Int64(); err == nil {
			return n
		}
		return s
	}
	return s
}

type endpoint struct {
	method string
	path   string
	form   [][2]string // name, class
	jsonFn func(c *c28Ctx) interface{}
}

func txnBody(c *c28Ctx, wallet bool) interface{} {
	t := c.t
	m := map[string]interface{}{}
	hs := map[string]interface{}{"type": c.pick("htype", []string{"auto", "manual", "bogus"}), "mode": c.pick("hmode", []string{"share", "", "bogus"})}
	if rapid.Bool().Draw(t, "sf") {
		hs["share_factor"] = c.jval("sharefactor", "")
	}
	m["hours_selection"] = hs
	nto := rapid.IntRange(0, 3).Draw(t, "nto")
	var to []interface{}
	for i := 0; i < nto; i++ {
		r := map[string]interface{}{"address": c.jval("addr", ""), "coins": c.jval("coins", "")}
		if rapid.Bool().Draw(t, "withhours") {
			r["hours"] = c.jval("hours", "")
		}
		to = append(to, r)
	}
	m["to"] = to
	if rapid.Bool().Draw(t, "chg") {
		m["change_address"] = c.jval("addr", "")
	}
	switch rapid.IntRange(0, 3).Draw(t, "src") {
	case 0:
		m["addresses"] = []interface{}{c.jval("addr", ""), c.jval("addr", "")}
	case 1:
		m["unspents"] = []interface{}{c.jval("uxid", "")}
	case 2:
		m["addresses"] = []interface{}{c.jval("addr", "")}
		m["unspents"] = []interface{}{c.jval("uxid", "")}
	}
	if rapid.Bool().Draw(t, "ign") {
		m["ignore_unconfirmed"] = c.jval("bool", "bool")
	}
	if wallet {
		m["wallet_id"] = c.jval("wid", "")
		if rapid.Bool().Draw(t, "withpw") {
			m["password"] = c.jval("pw", "")
		}
		m["unsigned"] = c.jval("bool", "bool")
	}
	return m
}

var endpoints = []endpoint{
	{"GET", "/api/v1/version", nil, nil},
	{"GET", "/api/v1/csrf", nil, nil},
	{"GET", "/api/v1/health", nil, nil},
	{"GET", "/api/v1/wallets", nil, nil},
	{"GET", "/api/v1/wallets/folderName", nil, nil},
	{"GET", "/api/v1/blockchain/metadata", nil, nil},
	{"GET", "/api/v1/blockchain/progress", nil, nil},
	{"GET", "/api/v1/network/connections", [][2]string{{"states", "states"}, {"direction", "direction"}}, nil},
	{"GET", "/api/v1/network/defaultConnections", nil, nil},
	{"GET", "/api/v1/network/connections/trust", nil, nil},
	{"GET", "/api/v1/network/connections/exchange", nil, nil},
	{"GET", "/api/v1/network/connection", [][2]string{{"addr", "connaddr"}}, nil},
	{"POST", "/api/v1/network/connection/disconnect", [][2]string{{"id", "connid"}}, nil},
	{"GET", "/api/v1/pendingTxs", [][2]string{{"verbose", "bool"}}, nil},
	{"GET", "/api/v1/coinSupply", nil, nil},
	{"GET", "/api/v1/richlist", [][2]string{{"n", "num"}, {"include-distribution", "bool"}}, nil},
	{"GET", "/api/v1/addresscount", nil, nil},
	{"GET", "/api/v1/transactions/num", nil, nil},
	{"GET", "/api/v1/wallet", [][2]string{{"id", "wid"}}, nil},
	{"GET", "/api/v1/wallet/balance", [][2]string{{"id", "wid"}}, nil},
	{"GET", "/api/v1/wallet/transactions", [][2]string{{"id", "wid"}, {"verbose", "bool"}}, nil},
	{"GET", "/api/v1/wallet/newSeed", [][2]string{{"entropy", "entropy"}}, nil},
	{"GET", "/api/v1/block", [][2]string{{"hash", "bhash"}, {"seq", "seq"}, {"verbose", "bool"}}, nil},
	{"GET", "/api/v1/blocks", [][2]string{{"start", "seq"}, {"end", "seq"}, {"seqs", "seqs"}, {"verbose", "bool"}}, nil},
	{"POST", "/api/v1/blocks", [][2]string{{"start", "seq"}, {"end", "seq"}, {"seqs", "seqs"}, {"verbose", "bool"}}, nil},
	{"GET", "/api/v1/last_blocks", [][2]string{{"num", "num"}, {"verbose", "bool"}}, nil},
	{"GET", "/api/v1/transaction", [][2]string{{"txid", "txid"}, {"verbose", "bool"}, {"encoded", "bool"}}, nil},
	{"GET", "/api/v1/transactions", [][2]string{{"addrs", "addrs"}, {"confirmed", "bool"}, {"verbose", "bool"}}, nil},
	{"POST", "/api/v1/transactions", [][2]string{{"addrs", "addrs"}, {"confirmed", "bool"}, {"verbose", "bool"}}, nil},
	{"GET", "/api/v2/transactions", [][2]string{{"addrs", "addrs"}, {"confirmed", "bool"}, {"verbose", "bool"}, {"sort", "sort"}, {"limit", "limit"}, {"page", "page"}}, nil},
	{"GET", "/api/v1/rawtx", [][2]string{{"txid", "txid"}}, nil},
	{"GET", "/api/v1/outputs", [][2]string{{"addrs", "addrs"}, {"hashes", "hashes"}}, nil},
	{"POST", "/api/v1/outputs", [][2]string{{"addrs", "addrs"}, {"hashes", "hashes"}}, nil},
	{"GET", "/api/v1/balance", [][2]string{{"addrs", "addrs"}}, nil},
	{"POST", "/api/v1/balance", [][2]string{{"addrs", "addrs"}}, nil},
	{"GET", "/api/v1/uxout", [][2]string{{"uxid", "uxid"}}, nil},
	{"GET", "/api/v1/address_uxouts", [][2]string{{"address", "addr"}}, nil},
	{"GET", "/api/v2/data", [][2]string{{"type", "stype"}, {"key", "skey"}}, nil},
	{"DELETE", "/api/v2/data", [][2]string{{"type", "stype"}, {"key", "skey"}}, nil},
	{"POST", "/api/v1/wallet/create", [][2]string{{"type", "wtype"}, {"seed", "seed"}, {"label", "label"}, {"password", "pw"}, {"encrypt", "bool"}, {"scan", "smallnum"}, {"bip44-coin", "bip44coin"}, {"private-keys", "privkeys"}, {"seed-passphrase", "passphrase"}, {"xpub", "xpub"}}, nil},
	{"POST", "/api/v1/wallet/createTemp", [][2]string{{"type", "wtype"}, {"seed", "seed"}, {"label", "label"}, {"scan", "smallnum"}, {"bip44-coin", "bip44coin"}, {"private-keys", "privkeys"}, {"xpub", "xpub"}}, nil},
	{"POST", "/api/v1/wallet/newAddress", [][2]string{{"id", "wid"}, {"num", "smallnum"}, {"password", "pw"}, {"private-keys", "privkeys"}}, nil},
	{"POST", "/api/v1/wallet/scan", [][2]string{{"id", "wid"}, {"num", "smallnum"}, {"password", "pw"}}, nil},
	{"POST", "/api/v1/wallet/update", [][2]string{{"id", "wid"}, {"label", "label"}}, nil},
	{"POST", "/api/v1/wallet/seed", [][2]string{{"id", "wid"}, {"password", "pw"}}, nil},
	{"POST", "/api/v1/wallet/unload", [][2]string{{"id", "wid"}}, nil},
	{"POST", "/api/v1/wallet/encrypt", [][2]string{{"id", "wid"}, {"password", "pw"}}, nil},
	{"POST", "/api/v1/wallet/decrypt", [][2]string{{"id", "wid"}, {"password", "pw"}}, nil},
	{"POST", "/api/v1/resendUnconfirmedTxns", nil, nil},
	{"POST", "/api/v1/wallet/transaction", nil, func(c *c28Ctx) interface{} { return txnBody(c, true) }},
	{"POST", "/api/v2/transaction", nil, func(c *c28Ctx) interface{} { return txnBody(c, false) }},
	{"POST", "/api/v2/wallet/transaction/sign", nil, func(c *c28Ctx) interface{} {
		m := map[string]interface{}{"wallet_id": c.jval("wid", ""), "encoded_transaction": c.jval("rawtx", "")}
		if rapid.Bool().Draw(c.t, "withpw") {
			m["password"] = c.jval("pw", "")
		}
		if rapid.Bool().Draw(c.t, "withidx") {
			var idx []interface{}
			for i := 0; i < rapid.IntRange(0, 3).Draw(c.t, "nidx"); i++ {
				idx = append(idx, rapid.SampledFrom([]interface{}{0, 1, -1, 99, 1 << 40, "0", 0.5}).Draw(c.t, "idx"))
			}
			m["sign_indexes"] = idx
		}
		return m
	}},
	{"POST", "/api/v2/transaction/verify", nil, func(c *c28Ctx) interface{} {
		return map[string]interface{}{"unsigned": c.jval("bool", "bool"), "encoded_transaction": c.jval("rawtx", "")}
	}},
	{"POST", "/api/v1/injectTransaction", nil, func(c *c28Ctx) interface{} {
		return map[string]interface{}{"rawtx": c.jval("rawtx", ""), "no_broadcast": c.jval("bool", "bool")}
	}},
	{"POST", "/api/v2/address/verify", nil, func(c *c28Ctx) interface{} { return map[string]interface{}{"address": c.jval("addr", "")} }},
	{"POST", "/api/v2/wallet/seed/verify", nil, func(c *c28Ctx) interface{} { return map[string]interface{}{"seed": c.jval("seed", "")} }},
	{"POST", "/api/v2/wallet/recover", nil, func(c *c28Ctx) interface{} {
		m := map[string]interface{}{"id": c.jval("wid", ""), "seed": c.jval("seed", "")}
		if rapid.Bool().Draw(c.t, "pp") {
			m["seed_passphrase"] = c.jval("passphrase", "")
		}
		if rapid.Bool().Draw(c.t, "withpw") {
			m["password"] = c.jval("pw", "")
		}
		return m
	}},
	{"POST", "/api/v2/data", nil, func(c *c28Ctx) interface{} {
		return map[string]interface{}{"type": c.jval("stype", ""), "key": c.jval("skey", ""), "val": c.jval("sval", "")}
	}},
}

func (c *c28Ctx) collectLive() {
	n := c.n
	seen := map[string]bool{}
	add := func(dst *[]string, s string) {
		if !seen[s] {
			seen[s] = true
			*dst = append(*dst, s)
		}
	}
	head, _, err := n.v.HeadBkSeq()
	if err != nil {
		c.t.Fatal(err)
	}
	for s := uint64(0); s <= head; s++ {
		b, err := n.v.GetSignedBlockBySeq(s)
		if err != nil || b == nil {
			c.t.Fatalf("block %d: %v", s, err)
		}
		add(&c.bhash, b.HashHeader().Hex())
		for _, tx := range b.Body.Transactions {
			if raw, err := tx.Serialize(); err == nil {
				c.rawtxs = append(c.rawtxs, hex.EncodeToString(raw))
			}
			add(&c.txids, tx.Hash().Hex())
			for _, in := range tx.In {
				add(&c.uxids, in.Hex()) // spent
			}
			for _, o := range tx.Out {
				add(&c.addrs, o.Address.String())
			}
		}
	}
	pool, err := n.v.GetAllUnconfirmedTransactions()
	if err != nil {
		c.t.Fatal(err)
	}
	for _, p := range pool {
		add(&c.txids, p.Transaction.Hash().Hex())
		if raw, err := p.Transaction.Serialize(); err == nil {
			c.rawtxs = append(c.rawtxs, hex.EncodeToString(raw))
		}
	}
	all, err := n.v.GetAllUnspentOutputs()
	if err != nil {
		c.t.Fatal(err)
	}
	for _, ux := range all {
		add(&c.uxids, ux.Hash().Hex())
	}
	// transactions over real unspent outputs whose signature array does not match their inputs: shorter (but not
	// empty), longer, or empty - with a correct inner hash and length field, so that only that mismatch is wrong
	sort.Slice(all, func(i, j int) bool { return all[i].Hash().Hex() < all[j].Hash().Hex() })
	if len(all) >= 3 {
		for _, shape := range [][2]int{{2, 1}, {3, 1}, {3, 2}, {1, 2}, {2, 0}} {
			var txn coin.Transaction
			var coins uint64
			for i := 0; i < shape[0]; i++ {
				txn.In = append(txn.In, all[i].Hash())
				coins += all[i].Body.Coins
			}
			txn.Out = []coin.TransactionOutput{{Address: c28Users[1].Addr, Coins: coins, Hours: 1}}
			txn.Sigs = make([]cipher.Sig, shape[1])
			txn.InnerHash = txn.HashInner()
			if raw, err := txn.Serialize(); err == nil {
				binary.LittleEndian.PutUint32(raw[:4], uint32(len(raw)))
				c.rawtxs = append(c.rawtxs, hex.EncodeToString(raw))
			}
		}
	}
	sort.Strings(c.uxids)
	sort.Strings(c.addrs)
	sort.Strings(c.txids)
	c.txids = append(c.txids, strings.Repeat("ab", 32), strings.Repeat("0", 64))
	c.uxids = append(c.uxids, strings.Repeat("cd", 32))
	c.bhash = append(c.bhash, strings.Repeat("ef", 32))
	c.addrs = append(c.addrs, cipher.AddressFromPubKey(c28Publisher.Pub).String(), "2GgFvqoyk9RjwVzj8tqfcXVXB4orBwoc9qv", "1BvBMSEYstWetqTFn5Au4m4GFg7xJaNVN2")
	c.wids = []string{"det.wlt", "bip.wlt", "enc.wlt", "col.wlt", "xpub.wlt", "det.wlt", "nosuch.wlt", "../wallets/det.wlt", "det"}
}

// requests confirmed to hang (see the hang rule in TestC28_NoRequestCrashesTheNode)
var knownHang = map[string]bool{}

type served struct {
	code int
	hdr  http.Header
	body []byte
	pan  interface{}
	hung bool
}

func (n *liveNode) serve(req *http.Request, limit time.Duration) served {
	if limit == 0 {
		limit = 30 * time.Second
	}
	ch := make(chan served, 1)
	go func() {
		var s served
		w := httptest.NewRecorder()
		func() {
			defer func() { s.pan = recover() }()
			n.mux.ServeHTTP(w, req)
		}()
		s.code, s.hdr, s.body = w.Code, w.Header(), w.Body.Bytes()
		ch <- s
	}()
	select {
	case s := <-ch:
		return s
	case <-time.After(limit):
		return served{hung: true}
	}
}

func TestC28_NoRequestCrashesTheNode(t *testing.T) {
	r := ev.Get("C28")
	r.Rule(ruleC28)
	r.Assume("requests are served in process through the multiplexer built by the verif hook VerifNewServerMux, so a handler panic is observed directly (net/http would turn it into a dropped connection); token, header and credential checks are switched off here (they are the subject of C27)")
	r.Assume("cost bounds of the harness, not of the property: parameters that make the node derive addresses (scan, num) are at most 10 when numeric; wallets use the sha256-xor cipher; a request that does not return within 20 s is retried on a fresh node twice before it is reported")
	tm, err := getTemplate()
	if err != nil {
		setupFailed(t, "node template: %v", err) // a harness problem is never a verdict about the property
	}
	hx.Check(t, "C28", 600, 20000, func(t *rapid.T) {
		n, err := startNode(tm)
		if err != nil {
			t.Fatalf("node start: %v", err)
		}
		stopped := false
		defer func() {
			if !stopped {
				_ = n.stop()
			}
		}()
		var log []string
		blockDone := false
		// starting state of the node: as copied, or after the block that turns a pooled transaction into a double spend,
		// optionally followed by the maintenance passes that evict it
		switch rapid.IntRange(0, 3).Draw(t, "scenario") {
		case 1, 2, 3:
			sc := rapid.IntRange(1, 3).Draw(t, "passes")
			if err := n.v.ExecuteSignedBlock(tm.nextBlock); err != nil {
				t.Fatalf("HARNESS: prepared block rejected: %v", err)
			}
			blockDone = true
			log = append(log, "EVENT block accepted (confirms a competitor of a pooled transaction)")
			r.Count("event_block")
			if sc >= 3 {
				if _, err := n.v.RefreshUnconfirmed(); err != nil {
					t.Fatalf("RefreshUnconfirmed: %v", err)
				}
				log = append(log, "EVENT refresh pass")
			}
			if sc >= 2 {
				if _, err := n.v.RemoveInvalidUnconfirmed(); err != nil {
					t.Fatalf("RemoveInvalidUnconfirmed: %v", err)
				}
				log = append(log, "EVENT invalid-removal pass")
				r.Count("event_remove_invalid_after_block")
			}
		}
		c := &c28Ctx{t: t, n: n, tm: tm}
		c.collectLive()
		nreq := rapid.IntRange(8, 40).Draw(t, "nreq")
		for k := 0; k < nreq; k++ {
			// node-side events between requests, as the daemon produces them: a block arrives that turns a pooled
			// transaction into a double spend, the periodic refresh and invalid-removal passes run
			switch rapid.IntRange(0, 11).Draw(t, "event") {
			case 0:
				if !blockDone {
					if err := n.v.ExecuteSignedBlock(tm.nextBlock); err != nil {
						t.Fatalf("HARNESS: prepared block rejected: %v", err)
					}
					blockDone = true
					log = append(log, "EVENT block accepted (confirms a competitor of a pooled transaction)")
					r.Count("event_block")
				}
			case 1:
				if _, err := n.v.RemoveInvalidUnconfirmed(); err != nil {
					t.Fatalf("RemoveInvalidUnconfirmed: %v", err)
				}
				log = append(log, "EVENT invalid-removal pass")
				if blockDone {
					r.Count("event_remove_invalid_after_block")
				}
			case 2:
				if _, err := n.v.RefreshUnconfirmed(); err != nil {
					t.Fatalf("RefreshUnconfirmed: %v", err)
				}
				log = append(log, "EVENT refresh pass")
			}
			ep := endpoints[rapid.IntRange(0, len(endpoints)-1).Draw(t, "endpoint")]
			method := ep.method
			if rapid.IntRange(0, 30).Draw(t, "othermethod") == 0 {
				method = rapid.SampledFrom([]string{"GET", "POST", "PUT", "DELETE", "HEAD", "PATCH"}).Draw(t, "method")
			}
			vals := url.Values{}
			goodish := len(ep.form) == 0 && ep.jsonFn == nil
			for _, f := range ep.form {
				switch rapid.IntRange(0, 9).Draw(t, "present") {
				case 0, 1: // missing
				case 2: // twice
					vals.Add(f[0], c.val(f[1]))
					vals.Add(f[0], c.val(f[1]))
				default:
					vals.Add(f[0], c.val(f[1]))
					goodish = true
				}
			}
			if rapid.IntRange(0, 20).Draw(t, "extra") == 0 {
				vals.Add(c.pick("extraname", []string{"verbose", "id", "x", "addrs"}), c.hostile("extraval"))
			}
			target := "http://127.0.0.1:6420" + ep.path
			var body []byte
			ct := ""
			if ep.jsonFn != nil {
				obj := ep.jsonFn(c)
				goodish = true
				switch rapid.IntRange(0, 14).Draw(t, "bodykind") {
				case 0:
					body = []byte(c.pick("rawbody", []string{"", "{", "[]", "null", "\"str\"", "{\"a\":", strings.Repeat("[", 100000), "{}", "\x00\x01"}))
					goodish = false
				case 1:
					b, _ := json.Marshal(obj)
					body = b[:rapid.IntRange(0, len(b)).Draw(t, "cut")]
				case 2:
					if m, ok := obj.(map[string]interface{}); ok {
						m["unknown_member"] = map[string]interface{}{"deep": []interface{}{1, "2", nil}}
					}
					body, _ = json.Marshal(obj)
				default:
					body, _ = json.Marshal(obj)
				}
				ct = rapid.SampledFrom([]string{"application/json", "application/json", "application/json", "application/json; charset=utf-8", "text/plain", ""}).Draw(t, "ct")
			} else if method == "POST" || method == "PUT" || method == "PATCH" {
				body = []byte(vals.Encode())
				ct = rapid.SampledFrom([]string{"application/x-www-form-urlencoded", "application/x-www-form-urlencoded", "application/x-www-form-urlencoded", "application/json", ""}).Draw(t, "ctf")
				if rapid.IntRange(0, 6).Draw(t, "alsoquery") == 0 {
					target += "?" + vals.Encode()
				}
			} else if len(vals) > 0 {
				target += "?" + vals.Encode()
			}
			mk := func() *http.Request {
				req := httptest.NewRequest(method, target, bytes.NewReader(body))
				if ct != "" {
					req.Header.Set("Content-Type", ct)
				}
				return req
			}
			line := fmt.Sprintf("%s %s ct=%q body=%q", method, trim(target, 600), ct, trim(string(body), 600))
			log = append(log, line)
			tail := func() string {
				from := 0
				if len(log) > 12 {
					from = len(log) - 12
				}
				return strings.Join(log[from:], "\n   ")
			}
			if knownHang[line] {
				// confirmed earlier in this process on three nodes; not served again while rapid minimises the case
				// (each hung handler keeps spinning or holding the database, which would starve the run)
				t.Fatalf("request did not return within 20 s (and within 40 s on two fresh nodes): %s", line)
			}
			s := n.serve(mk(), 20*time.Second)
			if s.hung {
				n.wedged = true
				// confirm on fresh nodes before blaming the request (a loaded machine is not a hang)
				confirmed := 0
				for a := 0; a < 2; a++ {
					n2, err := startNode(tm)
					if err != nil {
						t.Fatalf("node start: %v", err)
					}
					s2 := n2.serve(mk(), 40*time.Second)
					if s2.hung {
						confirmed++
						n2.wedged = true
					}
					go n2.stop()
				}
				if confirmed == 2 {
					knownHang[line] = true
					t.Fatalf("request did not return within 20 s (and within 40 s on two fresh nodes): %s", line)
				}
				r.Count("slow_not_reproduced")
				t.Skip("slow request did not reproduce on a fresh node")
			}
			if s.pan != nil {
				t.Fatalf("handler panicked: %v\n request: %s\n earlier requests of this case:\n   %s", s.pan, line, tail())
			}
			if s.code < 200 || s.code > 599 {
				t.Fatalf("status %d outside 200-599\n request: %s", s.code, line)
			}
			rct := s.hdr.Get("Content-Type")
			if strings.HasPrefix(rct, "application/json") && len(s.body) > 0 && !json.Valid(s.body) {
				t.Fatalf("response declares %s but the body does not parse: %q\n request: %s", rct, trim(string(s.body), 300), line)
			}
			if s.code == 200 && len(s.body) == 0 && method != "HEAD" {
				// an empty 200 is a well-formed response; counted for information only
				r.Count("empty_200")
			}
			// the node is still alive
			h := n.serve(httptest.NewRequest("GET", "http://127.0.0.1:6420/api/v1/health", nil), 20*time.Second)
			if h.hung || h.pan != nil || h.code != 200 {
				t.Fatalf("after the request the node no longer answers /api/v1/health (hung=%v panic=%v status=%d body=%q)\n request: %s\n earlier requests:\n   %s", h.hung, h.pan, h.code, trim(string(h.body), 300), line, tail())
			}
			nt := goodish && s.code != 404 && s.code != 405 && s.code != 415
			r.CaseS(nt, line)
			r.Count(fmt.Sprintf("status_%dxx", s.code/100))
			r.Count("endpoint " + ep.method + " " + ep.path)
			if r.WantSample(nt) {
				r.Sample(nt, map[string]interface{}{"request": line, "status": s.code, "response": trim(string(s.body), 200)})
			}
		}
		if excludedHugeCounts > 0 {
			r.CountN("excluded_address_derivation_count_above_10", excludedHugeCounts)
			excludedHugeCounts = 0
		}
		stopped = true
		if err := n.stop(); err != nil {
			t.Fatalf("%v\n requests of this case:\n   %s", err, strings.Join(log, "\n   "))
		}
	})
}

// TestC28_VerifyAnyTransactionReturnsAVerdict: "in particular verifying any encoded transaction returns a verdict"
func TestC28_VerifyAnyTransactionReturnsAVerdict(t *testing.T) {
	r := ev.Get("C28")
	tm, err := getTemplate()
	if err != nil {
		setupFailed(t, "node template: %v", err) // a harness problem is never a verdict about the property
	}
	n, err := startNode(tm)
	if err != nil {
		t.Fatal(err)
	}
	defer n.stop()
	verifyOnce := func(enc string, unsigned bool) (served, string) {
		body, _ := json.Marshal(map[string]interface{}{"unsigned": unsigned, "encoded_transaction": enc})
		req := httptest.NewRequest("POST", "http://127.0.0.1:6420/api/v2/transaction/verify", bytes.NewReader(body))
		req.Header.Set("Content-Type", "application/json")
		return n.serve(req, 20*time.Second), enc
	}
	// every transaction the node knows (each confirmed one - the first spends the genesis output -, each pooled one, the
	// prepared ones), unmodified, with both values of the unsigned flag: enumerated, not sampled
	{
		var all []string
		head, _, _ := n.v.HeadBkSeq()
		for s := uint64(0); s <= head; s++ {
			if b, err := n.v.GetSignedBlockBySeq(s); err == nil && b != nil {
				for _, tx := range b.Body.Transactions {
					if raw, err := tx.Serialize(); err == nil {
						all = append(all, hex.EncodeToString(raw))
					}
				}
			}
		}
		if pool, err := n.v.GetAllUnconfirmedTransactions(); err == nil {
			for _, p := range pool {
				if raw, err := p.Transaction.Serialize(); err == nil {
					all = append(all, hex.EncodeToString(raw))
				}
			}
		}
		all = append(all, tm.spendableHex, tm.spentTxnHex, tm.unsignedHex)
		for _, enc := range all {
			for _, u := range []bool{false, true} {
				s, _ := verifyOnce(enc, u)
				if s.hung || s.pan != nil {
					t.Fatalf("verifying a known transaction (unsigned=%v) hung=%v panic=%v\n encoded_transaction=%q", u, s.hung, s.pan, trim(enc, 400))
				}
				if s.code < 200 || s.code > 599 || !json.Valid(s.body) {
					t.Fatalf("verifying a known transaction answered %d %q", s.code, trim(string(s.body), 200))
				}
				r.CaseS(true, fmt.Sprintf("known/%v/%s", u, enc))
				r.Count(fmt.Sprintf("verify_known_status_%d", s.code))
			}
		}
	}
	hx.Check(t, "C28", 400, 40000, func(t *rapid.T) {
		c := &c28Ctx{t: t, n: n, tm: tm}
		c.collectLive()
		base := c.pick("base", append([]string{tm.spendableHex, tm.spentTxnHex, tm.unsignedHex}, c.rawtxs...))
		enc := base
		switch rapid.IntRange(0, 5).Draw(t, "mut") {
		case 0:
		case 1:
			enc = c.mutateStr("enc", base)
		case 2:
			raw, _ := hex.DecodeString(base)
			i := rapid.IntRange(0, len(raw)-1).Draw(t, "byte")
			raw[i] = rapid.Byte().Draw(t, "newbyte")
			enc = hex.EncodeToString(raw)
		case 3:
			enc = hex.EncodeToString(rapid.SliceOfN(rapid.Byte(), 0, 400).Draw(t, "random"))
		case 4:
			raw, _ := hex.DecodeString(base)
			enc = hex.EncodeToString(raw[:rapid.IntRange(0, len(raw)).Draw(t, "cut")])
		case 5:
			enc = c.hostile("h")
		}
		unsigned := rapid.Bool().Draw(t, "unsigned")
		body, _ := json.Marshal(map[string]interface{}{"unsigned": unsigned, "encoded_transaction": enc})
		req := httptest.NewRequest("POST", "http://127.0.0.1:6420/api/v2/transaction/verify", bytes.NewReader(body))
		req.Header.Set("Content-Type", "application/json")
		s := n.serve(req, 20*time.Second)
		if s.hung {
			t.Fatalf("verification of %q did not return within 20 s", trim(enc, 200))
		}
		if s.pan != nil {
			t.Fatalf("verifying a transaction panicked: %v\n encoded_transaction=%q unsigned=%v", s.pan, trim(enc, 400), unsigned)
		}
		var resp struct {
			Error *struct {
				Code int `json:"code"`
			} `json:"error"`
			Data json.RawMessage `json:"data"`
		}
		if err := json.Unmarshal(s.body, &resp); err != nil {
			t.Fatalf("verification answer does not parse: %v %q", err, trim(string(s.body), 200))
		}
		// 200 = valid, 422 = verdict "invalid" with the reasons, 400 = not decodable; a 500 (internal lookup failure, e.g. a
		// transaction that mixes known and unknown inputs) is still a well-formed error answer and is only counted
		if (resp.Error == nil) != (s.code == 200) && s.code != 422 {
			t.Fatalf("verification answered %d but the body says otherwise: %q", s.code, trim(string(s.body), 200))
		}
		r.CaseS(s.code == 200 || s.code == 422, fmt.Sprintf("%v|%s", unsigned, enc))
		r.Count(fmt.Sprintf("verify_status_%d", s.code))
	})
}

var _ = visor.NewConfig
