package api

import (
	"bytes"
	"encoding/hex"
	"encoding/json"
	"fmt"
	"math/big"
	"net/http/httptest"
	"strings"
	"testing"

	"pgregory.net/rapid"

	"github.com/skycoin/skycoin/src/cipher"
	"github.com/skycoin/skycoin/src/coin"

	"verif/harness/internal/ev"
	"verif/harness/internal/hx"
)

// C30 names the amount parameters of the API as an observation point.  Amount texts go in through the receivers of
// POST /api/v2/transaction and come out in the outputs of the answer and of GET /api/v1/outputs.

const ruleC30API = "API level (real node): (a) amount texts as the coins of one receiver of POST /api/v2/transaction over all spendable outputs: droplet values in [1, offered total] (any of the six decimal places used) spelled canonically, shortest, with leading zeros, a plus sign, an exponent, or with up to three extra zero decimals; and texts that are not amounts (negative, seven significant decimals, empty, words, hex, comma, spaces, NaN/Inf, beyond the signed 64-bit range); oracle: the request is answered 200 exactly when the text denotes a positive droplet value with at most three significant decimals (the API's own precision rule) that the offered outputs cover, the first output then carries exactly that many droplets and its readable amount is the canonical six-decimal text; every other text is refused with 400; (b) every amount text in GET /api/v1/outputs is the canonical six-decimal text of the droplet value in the node's database; non-trivial = a spelling other than the canonical one, or a refused text; distinct by text"

func TestC30_APIAmounts(t *testing.T) {
	r := ev.Get("C30")
	r.Rule(ruleC30API)
	tm, err := getTemplate()
	if err != nil {
		setupFailed(t, "node template: %v", err)
	}
	n, err := startNode(tm)
	if err != nil {
		setupFailed(t, "node start: %v", err)
	}
	defer n.stop()
	all, err := n.v.GetAllUnspentOutputs()
	if err != nil {
		t.Fatal(err)
	}
	poolSpent := map[cipher.SHA256]bool{}
	pool, _ := n.v.GetAllUnconfirmedTransactions()
	for _, p := range pool {
		for _, in := range p.Transaction.In {
			poolSpent[in] = true
		}
	}
	var ids []string
	total := new(big.Int)
	byID := map[string]coin.UxOut{}
	for _, ux := range all {
		byID[ux.Hash().Hex()] = ux
		if _, ok := tm.secretOfAddr[ux.Body.Address.String()]; ok && !poolSpent[ux.Hash()] {
			ids = append(ids, ux.Hash().Hex())
			total.Add(total, new(big.Int).SetUint64(ux.Body.Coins))
		}
	}
	if len(ids) < 4 || !total.IsUint64() {
		setupFailed(t, "node template offers %d outputs", len(ids))
	}
	// (b) amounts coming out
	{
		s := n.serve(httptest.NewRequest("GET", "http://127.0.0.1:6420/api/v1/outputs", nil), 0)
		var resp struct {
			Head []struct {
				Hash  string `json:"hash"`
				Coins string `json:"coins"`
			} `json:"head_outputs"`
		}
		if s.code != 200 || json.Unmarshal(s.body, &resp) != nil || len(resp.Head) == 0 {
			t.Fatalf("GET /api/v1/outputs: %d %s", s.code, trim(string(s.body), 200))
		}
		for _, o := range resp.Head {
			ux, ok := byID[o.Hash]
			if !ok {
				t.Fatalf("/api/v1/outputs lists %s which is not an unspent output", o.Hash)
			}
			if o.Coins != c12Canon(ux.Body.Coins) {
				t.Fatalf("/api/v1/outputs writes %d droplets as %q, want %q", ux.Body.Coins, o.Coins, c12Canon(ux.Body.Coins))
			}
			r.Case(false, []byte("out/"+o.Coins))
		}
	}
	dest := c28Users[1].Addr.String()
	hx.Check(t, "C30", 600, 40000, func(t *rapid.T) {
		var text, class string
		var val uint64 // droplets the text denotes, when it is an amount
		isAmount := true
		switch rapid.IntRange(0, 9).Draw(t, "kind") {
		case 4:
			text = rapid.SampledFrom([]string{"-1", "-0.001", "1.0000001", "0.0000001", "", "abc", " 1", "1 ", "0x10", "1,5", "9223372036855", "9223372036854.775808", "18446744073710", "NaN", "Inf", "-Inf", "1e-7", "1e30", "--1", "1.2.3", "1e", "e1", ".",
				// whole numbers of coins whose droplet value does not fit 64 bits and would come out small if the multiplication wrapped
				"288230376151711745", "288230376151711746", "576460752303423489", "9223372036854776", "18446744073709552"}).Draw(t, "junk")
			isAmount, class = false, "not_an_amount"
		default:
			unit := rapid.SampledFrom([]uint64{1, 10, 100, 1000, 1000, 1000, 1000000}).Draw(t, "unit")
			max := total.Uint64() / unit
			val = unit * rapid.OneOf(rapid.Uint64Range(1, 20), rapid.Uint64Range(1, max), rapid.Uint64Range(max-5, max+5)).Draw(t, "v")
			if val == 0 {
				val = unit
			}
			text, class = c12Spell(t, val)
			if rapid.IntRange(0, 7).Draw(t, "extra_zeros") == 3 && !strings.ContainsAny(text, "e") {
				if !strings.Contains(text, ".") {
					text += "."
				}
				// pad to at most six decimals in total: still "at most six decimal places"
				dec := len(text) - strings.IndexByte(text, '.') - 1
				for k := 0; k < 3 && dec < 6; k++ {
					text += "0"
					dec++
				}
				class += "+zeros"
			}
		}
		want := isAmount && val > 0 && val%1000 == 0 && new(big.Int).SetUint64(val).Cmp(total) <= 0
		body := map[string]interface{}{"hours_selection": map[string]string{"type": "auto", "mode": "share", "share_factor": "0.5"}, "unspents": ids, "ignore_unconfirmed": true,
			"to": []map[string]string{{"address": dest, "coins": text}}}
		raw, _ := json.Marshal(body)
		req := httptest.NewRequest("POST", "http://127.0.0.1:6420/api/v2/transaction", bytes.NewReader(raw))
		req.Header.Set("Content-Type", "application/json")
		s := n.serve(req, 0)
		if s.hung || s.pan != nil {
			t.Fatalf("amount %q: hung=%v panic=%v", text, s.hung, s.pan)
		}
		if !isAmount && strings.Contains(string(s.body), "balance is not sufficient") {
			t.Fatalf("the text %q is not an amount in the signed 64-bit droplet range, yet it was taken as one (the request was refused for lack of balance, not for the text): %s", text, trim(string(s.body), 300))
		}
		if want != (s.code == 200) || (!want && s.code != 400) {
			t.Fatalf("amount text %q (%s; denotes %d droplets, amount=%v, offered %s): status %d %s", text, class, val, isAmount, total, s.code, trim(string(s.body), 300))
		}
		if s.code == 200 {
			var resp struct {
				Data struct {
					Transaction struct {
						Out []struct {
							Coins string `json:"coins"`
						} `json:"outputs"`
					} `json:"transaction"`
					Encoded string `json:"encoded_transaction"`
				} `json:"data"`
			}
			if err := json.Unmarshal(s.body, &resp); err != nil {
				t.Fatal(err)
			}
			eb, _ := hex.DecodeString(resp.Data.Encoded)
			txn, err := coin.DeserializeTransaction(eb)
			if err != nil || len(txn.Out) == 0 {
				t.Fatalf("amount %q: created transaction does not decode: %v", text, err)
			}
			if txn.Out[0].Coins != val {
				t.Fatalf("amount text %q was taken as %d droplets, it denotes %d", text, txn.Out[0].Coins, val)
			}
			if resp.Data.Transaction.Out[0].Coins != c12Canon(val) {
				t.Fatalf("%d droplets are written %q in the answer, want %q", val, resp.Data.Transaction.Out[0].Coins, c12Canon(val))
			}
		}
		nt := class != "canonical" || s.code != 200
		r.Count("api_amount_" + class + fmt.Sprintf("_%d", s.code))
		r.Case(nt, []byte("api/"+text))
		if r.WantSample(nt) {
			r.Sample(nt, map[string]interface{}{"amount_text": text, "class": class, "status": s.code})
		}
	})
}
