package api

import (
	"encoding/binary"
	"fmt"
	"io"
	"net"
	"reflect"
	"testing"
	"time"

	"pgregory.net/rapid"

	"github.com/skycoin/skycoin/src/cipher"
	"github.com/skycoin/skycoin/src/daemon"
	"github.com/skycoin/skycoin/src/daemon/gnet"
	"github.com/skycoin/skycoin/src/params"

	"verif/harness/internal/ev"
	"verif/harness/internal/gen"
	"verif/harness/internal/hx"
)

// TestC25_MessageOrder: "any other message received before introduction (except disconnect or peer lists) causes a
// disconnect", observed on a real daemon: a raw TCP client connects to the node's listening port and sends a generated
// sequence of framed wire messages.
func TestC25_MessageOrder(t *testing.T) {
	r := ev.Get("C25")
	r.Rule("message order: a raw TCP client connects to a real daemon (listening on a loopback port, chain of 8 blocks) and sends 1-4 framed messages drawn from {valid introduction, introduction with a foreign blockchain key / unsupported version / the node's own mirror, GETP, GIVP, PING, PONG, GETB, GIVB, ANNB, GETT, GIVT, ANNT, DISC}; oracle: a first message that is not an introduction, a disconnect or a peer list makes the node close the connection without answering the request; a refused introduction closes the connection; after a valid introduction (also when a peer list came first) a PING is answered with a PONG; non-trivial = the first message is not a valid introduction")
	tm, err := getTemplate()
	if err != nil {
		setupFailed(t, "node template: %v", err)
	}
	hx.Check(t, "C25", 60, 3000, func(t *rapid.T) {
		n, err := startNodeOpt(tm, true)
		if err != nil {
			setupFailed(t, "node start: %v", err)
		}
		defer n.stop()
		var addr net.Addr
		for i := 0; i < 3000; i++ {
			if a, err := n.d.VerifListeningAddress(); err == nil && a != nil {
				addr = a
				break
			}
			time.Sleep(time.Millisecond)
		}
		if addr == nil {
			setupFailed(t, "daemon is not listening%v", "")
		}
		conn, err := net.DialTimeout("tcp", addr.String(), 5*time.Second)
		if err != nil {
			setupFailed(t, "dial: %v", err)
		}
		defer conn.Close()
		dcfg := n.d.DaemonConfig()
		intro := func(kind string) gnet.Message {
			pk := c28Publisher.Pub
			version := dcfg.ProtocolVersion
			mirror := dcfg.Mirror + 1
			switch kind {
			case "INTR_foreign_key":
				pk = gen.KeyN(77).Pub
			case "INTR_old_version":
				version = dcfg.MinProtocolVersion - 1
			case "INTR_self":
				mirror = dcfg.Mirror
			}
			return daemon.NewIntroductionMessage(mirror, version, 6001, pk, "skycoin:0.26.0", params.VerifyTxn{BurnFactor: 10, MaxTransactionSize: 32768, MaxDropletPrecision: 3}, tm.genesisHash)
		}
		mk := map[string]func() gnet.Message{
			"INTR":             func() gnet.Message { return intro("INTR") },
			"INTR_foreign_key": func() gnet.Message { return intro("INTR_foreign_key") },
			"INTR_old_version": func() gnet.Message { return intro("INTR_old_version") },
			"INTR_self":        func() gnet.Message { return intro("INTR_self") },
			"GETP":             func() gnet.Message { return &daemon.GetPeersMessage{} },
			"GIVP": func() gnet.Message {
				return &daemon.GivePeersMessage{Peers: []daemon.IPAddr{{IP: 0x01020304, Port: 6000}}}
			},
			"PING": func() gnet.Message { return &daemon.PingMessage{} },
			"PONG": func() gnet.Message { return &daemon.PongMessage{} },
			"GETB": func() gnet.Message { return &daemon.GetBlocksMessage{LastBlock: 0, RequestedBlocks: 5} },
			"GIVB": func() gnet.Message { return &daemon.GiveBlocksMessage{} },
			"ANNB": func() gnet.Message { return &daemon.AnnounceBlocksMessage{MaxBkSeq: 100} },
			"GETT": func() gnet.Message { return &daemon.GetTxnsMessage{Transactions: []cipher.SHA256{{1}}} },
			"GIVT": func() gnet.Message { return &daemon.GiveTxnsMessage{} },
			"ANNT": func() gnet.Message { return &daemon.AnnounceTxnsMessage{Transactions: []cipher.SHA256{{2}}} },
			"DISC": func() gnet.Message { return &daemon.DisconnectMessage{ReasonCode: 1} },
		}
		names := []string{"INTR", "INTR", "INTR_foreign_key", "INTR_old_version", "INTR_self", "GETP", "GIVP", "PING", "PONG", "GETB", "GIVB", "ANNB", "GETT", "GIVT", "ANNT", "DISC"}
		// reader: collects the types of the frames the node sends and notices the close
		type rx struct {
			typ string
		}
		frames := make(chan rx, 64)
		closed := make(chan struct{})
		go func() {
			defer close(closed)
			for {
				var lb [4]byte
				if _, err := io.ReadFull(conn, lb[:]); err != nil {
					return
				}
				l := binary.LittleEndian.Uint32(lb[:])
				if l < 4 || l > 1<<20 {
					return
				}
				body := make([]byte, l)
				if _, err := io.ReadFull(conn, body); err != nil {
					return
				}
				frames <- rx{typ: string(body[:4])}
			}
		}()
		send := func(name string) error {
			b, err := gnet.EncodeMessage(mk[name]())
			if err != nil {
				t.Fatalf("encode %s: %v", name, err)
			}
			_ = conn.SetWriteDeadline(time.Now().Add(5 * time.Second))
			_, err = conn.Write(b)
			return err
		}
		waitClosed := func(d time.Duration) bool {
			select {
			case <-closed:
				return true
			case <-time.After(d):
				return false
			}
		}
		drain := func() (got []string) {
			for {
				select {
				case f := <-frames:
					got = append(got, f.typ)
				default:
					return got
				}
			}
		}
		waitFrame := func(typ string, d time.Duration) bool {
			deadline := time.After(d)
			for {
				select {
				case f := <-frames:
					if f.typ == typ {
						return true
					}
				case <-closed:
					return false
				case <-deadline:
					return false
				}
			}
		}
		k := rapid.IntRange(1, 4).Draw(t, "nmsgs")
		var seq []string
		introduced := false
		for i := 0; i < k; i++ {
			name := rapid.SampledFrom(names).Draw(t, "msg")
			seq = append(seq, name)
			if err := send(name); err != nil {
				break // the node has closed the connection already
			}
			isIntro := len(name) >= 4 && name[:4] == "INTR"
			switch {
			case !introduced && !isIntro && name != "DISC" && name != "GIVP":
				// must be disconnected, and the request must not be answered
				if !waitClosed(5 * time.Second) {
					t.Fatalf("%v: the node did not disconnect a peer whose first message was %s (no introduction)", seq, name)
				}
				for _, f := range drain() {
					if f != "INTR" && f != "DISC" {
						t.Fatalf("%v: before any introduction the node answered %s with a %s message", seq, name, f)
					}
				}
				r.Count("disconnected_without_introduction")
				i = k
			case !introduced && isIntro && name != "INTR":
				if !waitClosed(5 * time.Second) {
					t.Fatalf("%v: the node kept a connection whose introduction (%s) must be refused", seq, name)
				}
				r.Count("refused_introduction")
				i = k
			case name == "DISC":
				waitClosed(5 * time.Second)
				i = k
			case name == "INTR" && !introduced:
				introduced = true
				// positive control: the protocol is reachable now
				if err := send("PING"); err != nil || !waitFrame("PONG", 5*time.Second) {
					t.Fatalf("%v: after a valid introduction a PING was not answered with a PONG (send err %v)", seq, err)
				}
				r.Count("introduced_then_ping_pong")
			case name == "INTR" && introduced:
				// a second introduction: the statement does not say; only crashes would matter
			}
		}
		nt := seq[0] != "INTR"
		r.CaseS(nt, fmt.Sprint(seq))
		if r.WantSample(nt) {
			r.Sample(nt, map[string]interface{}{"kind": "message_order", "sent": seq, "introduced": introduced})
		}
		_ = reflect.TypeOf
	})
}
