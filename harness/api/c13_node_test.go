package api

import (
	"bytes"
	"encoding/hex"
	"encoding/json"
	"fmt"
	"math/big"
	"net/http/httptest"
	"sort"
	"testing"

	"pgregory.net/rapid"

	"github.com/skycoin/skycoin/src/cipher"
	"github.com/skycoin/skycoin/src/coin"

	"verif/harness/internal/ev"
	"verif/harness/internal/gen"
	"verif/harness/internal/hx"
	"verif/harness/internal/ref/curve"
	"verif/harness/internal/ref/txref"
)

// C13 names Visor.WalletSignTransaction as an observation point.  TestC13_NodeSign reaches it through
// POST /api/v2/wallet/transaction/sign on the real node of the API checks.

const ruleC13Node = "node level: POST /api/v2/wallet/transaction/sign on a real node with a deterministic, a bip44, an encrypted deterministic and a collection wallet: valid unsigned transactions over 1-4 unspent outputs of mixed ownership (the chosen wallet, another wallet, plain keys), some inputs pre-signed by their real owners, sign_indexes {none, a subset of the wallet's unsigned inputs, an input of another owner, an already signed input}, password right / wrong / missing / given for an unencrypted wallet, unknown wallet id; oracle: success exactly when the wallet exists, the password fits, and every addressed input (all unsigned ones if none is named) is unsigned and owned by the wallet; on success the answer is the same transaction (inputs, outputs, inner hash) in which exactly the addressed inputs gained a signature that verifies against the spent output's address (code verifier and textbook curve) and every other signature slot is bit-identical, and a fully signed result is accepted by POST /api/v2/transaction/verify; on failure a 4xx/5xx error answer without a transaction; never a panic; non-trivial = mixed ownership or a partial selection; distinct by (wallet, owners, pre-signed set, selection, password)"

func TestC13_NodeSign(t *testing.T) {
	r := ev.Get("C13")
	r.Rule(ruleC13Node)
	tm, err := getTemplate()
	if err != nil {
		setupFailed(t, "node template: %v", err)
	}
	n, err := startNode(tm)
	if err != nil {
		setupFailed(t, "node start: %v", err)
	}
	defer n.stop()
	headSeq, _, err := n.v.HeadBkSeq()
	if err != nil {
		t.Fatal(err)
	}
	hb, err := n.v.GetSignedBlockBySeq(headSeq)
	if err != nil || hb == nil {
		t.Fatalf("head block: %v", err)
	}
	headTime := hb.Head.Time
	all, err := n.v.GetAllUnspentOutputs()
	if err != nil {
		t.Fatal(err)
	}
	sort.Slice(all, func(i, j int) bool { return all[i].Hash().Hex() < all[j].Hash().Hex() })
	poolSpent := map[cipher.SHA256]bool{}
	pool, _ := n.v.GetAllUnconfirmedTransactions()
	for _, p := range pool {
		for _, in := range p.Transaction.In {
			poolSpent[in] = true
		}
	}
	// who owns what
	walletIDs := []string{"det.wlt", "bip.wlt", "enc.wlt", "col.wlt"}
	walletOf := map[cipher.Address]string{}
	for _, id := range walletIDs {
		w, err := n.ws.GetWallet(id)
		if err != nil {
			setupFailed(t, "wallet %s: %v", id, err)
		}
		es, _ := w.GetEntries()
		for _, e := range es {
			walletOf[e.SkycoinAddress()] = id
		}
	}
	type cand struct {
		ux  coin.UxOut
		sec cipher.SecKey
		wlt string // "" = plain key
	}
	var cands []cand
	byWallet := map[string][]int{}
	for _, ux := range all {
		if poolSpent[ux.Hash()] {
			continue
		}
		h, err := ux.CoinHours(headTime)
		if err != nil || h < 4 {
			continue
		}
		secS, ok := tm.secretOfAddr[ux.Body.Address.String()]
		if !ok {
			continue
		}
		c := cand{ux: ux, sec: secS, wlt: walletOf[ux.Body.Address]}
		byWallet[c.wlt] = append(byWallet[c.wlt], len(cands))
		cands = append(cands, c)
	}
	// only wallets that own something spendable in the template can be asked to sign
	var usable []string
	for _, id := range walletIDs {
		if len(byWallet[id]) > 0 {
			usable = append(usable, id)
		}
	}
	if len(usable) < 3 {
		setupFailed(t, "only %d wallets own a spendable output in the node template", len(usable))
	}
	walletIDs = usable
	hx.Check(t, "C13", 300, 16000, func(t *rapid.T) {
		wid := rapid.SampledFrom(walletIDs).Draw(t, "wallet")
		nIn := rapid.IntRange(1, 4).Draw(t, "nin")
		used := map[int]bool{}
		var ins []cand
		// at least one input of the wallet, the others from anywhere
		first := byWallet[wid][rapid.IntRange(0, len(byWallet[wid])-1).Draw(t, "own")]
		used[first] = true
		ins = append(ins, cands[first])
		for len(ins) < nIn {
			i := rapid.IntRange(0, len(cands)-1).Draw(t, "other")
			if used[i] {
				break
			}
			used[i] = true
			ins = append(ins, cands[i])
		}
		// a drawn order, so that the wallet's inputs sit anywhere
		perm := rapid.Permutation(intsUpTo(len(ins))).Draw(t, "order")
		ordered := make([]cand, len(ins))
		for i, j := range perm {
			ordered[i] = ins[j]
		}
		ins = ordered
		var txn coin.Transaction
		var coins, hours uint64
		for _, c := range ins {
			txn.In = append(txn.In, c.ux.Hash())
			coins += c.ux.Body.Coins
			h, _ := c.ux.CoinHours(headTime)
			hours += h
		}
		dest := c28Users[rapid.IntRange(0, 2).Draw(t, "dest")].Addr
		if rapid.Bool().Draw(t, "two_outputs") && coins >= 2000 {
			part := coins / 2 / 1000 * 1000
			txn.Out = []coin.TransactionOutput{{Address: dest, Coins: part, Hours: hours / 4}, {Address: ins[0].ux.Body.Address, Coins: coins - part, Hours: hours / 8}}
		} else {
			txn.Out = []coin.TransactionOutput{{Address: dest, Coins: coins, Hours: hours / 2}}
		}
		txn.InnerHash = txref.InnerHash(&txn)
		txn.Sigs = make([]cipher.Sig, len(txn.In))
		presigned := map[int]bool{}
		for i, c := range ins {
			// others' inputs are usually signed already; the wallet's own sometimes
			p := 3
			if c.wlt == wid {
				p = 0
			}
			if rapid.IntRange(0, 4).Draw(t, "presign") < p || (c.wlt == wid && rapid.IntRange(0, 5).Draw(t, "presign_own") == 3) {
				txn.Sigs[i] = gen.DetSign(c.sec, txref.SigHash(txn.InnerHash, txn.In[i]))
				presigned[i] = true
			}
		}
		if len(presigned) == len(ins) {
			// nothing left to sign: un-sign one
			k := rapid.IntRange(0, len(ins)-1).Draw(t, "unsign")
			txn.Sigs[k] = cipher.Sig{}
			delete(presigned, k)
		}
		txn.Length = uint32(txref.TxnSize(&txn))
		// selection
		var sel []int
		selMode := rapid.SampledFrom([]string{"none", "none", "own_unsigned_subset", "own_unsigned_all", "with_foreign", "with_signed"}).Draw(t, "selmode")
		var ownUnsigned, foreignUnsigned, signedIdx []int
		for i, c := range ins {
			switch {
			case presigned[i]:
				signedIdx = append(signedIdx, i)
			case c.wlt == wid:
				ownUnsigned = append(ownUnsigned, i)
			default:
				foreignUnsigned = append(foreignUnsigned, i)
			}
		}
		switch selMode {
		case "own_unsigned_subset":
			for _, i := range ownUnsigned {
				if rapid.Bool().Draw(t, "pick") {
					sel = append(sel, i)
				}
			}
		case "own_unsigned_all":
			sel = append(sel, ownUnsigned...)
		case "with_foreign":
			sel = append(sel, ownUnsigned...)
			if len(foreignUnsigned) > 0 {
				sel = append(sel, foreignUnsigned[0])
			}
		case "with_signed":
			sel = append(sel, ownUnsigned...)
			if len(signedIdx) > 0 {
				sel = append(sel, signedIdx[0])
			}
		}
		addressed := sel
		if len(sel) == 0 {
			for i := range ins {
				if !presigned[i] {
					addressed = append(addressed, i)
				}
			}
		}
		pwMode := rapid.SampledFrom([]string{"right", "right", "right", "right", "wrong", "missing_or_extra"}).Draw(t, "pw")
		password := ""
		pwOK := true
		switch {
		case wid == "enc.wlt" && pwMode == "right":
			password = c28Password
		case wid == "enc.wlt" && pwMode == "wrong":
			password, pwOK = "wrong", false
		case wid == "enc.wlt":
			pwOK = false
		case pwMode == "missing_or_extra":
			password, pwOK = c28Password, false // a password for a wallet that is not encrypted
		}
		reqWid := wid
		if rapid.IntRange(0, 19).Draw(t, "unknown_wallet") == 7 {
			reqWid = "nosuch.wlt"
		}
		want := reqWid == wid && pwOK && len(addressed) > 0
		for _, i := range addressed {
			if presigned[i] || ins[i].wlt != wid {
				want = false
			}
		}
		raw, _ := txn.Serialize()
		body := map[string]interface{}{"wallet_id": reqWid, "encoded_transaction": hex.EncodeToString(raw)}
		if password != "" {
			body["password"] = password
		}
		if len(sel) > 0 {
			body["sign_indexes"] = sel
		} else if rapid.Bool().Draw(t, "empty_list") {
			body["sign_indexes"] = []int{} // an empty list means the same as no list
		}
		rb, _ := json.Marshal(body)
		req := httptest.NewRequest("POST", "http://127.0.0.1:6420/api/v2/wallet/transaction/sign", bytes.NewReader(rb))
		req.Header.Set("Content-Type", "application/json")
		s := n.serve(req, 0)
		desc := fmt.Sprintf("wallet=%s owners=%v presigned=%v sign_indexes=%v password=%q", reqWid, ownersOf(ins, func(c cand) string { return c.wlt }), keysOf(presigned), sel, password)
		if s.hung || s.pan != nil {
			t.Fatalf("sign request hung=%v panic=%v\n %s", s.hung, s.pan, desc)
		}
		var resp struct {
			Error *struct {
				Message string `json:"message"`
			} `json:"error"`
			Data *struct {
				Encoded string `json:"encoded_transaction"`
			} `json:"data"`
		}
		if err := json.Unmarshal(s.body, &resp); err != nil {
			t.Fatalf("answer does not parse (%d) %q\n %s", s.code, trim(string(s.body), 300), desc)
		}
		if want != (s.code == 200) {
			t.Fatalf("status %d (%s), expected success=%v\n %s", s.code, trim(string(s.body), 300), want, desc)
		}
		if s.code != 200 {
			if s.code < 400 || (resp.Data != nil && resp.Data.Encoded != "") {
				t.Fatalf("a refused signing request answered %d with data %s\n %s", s.code, trim(string(s.body), 300), desc)
			}
			r.Count(fmt.Sprintf("node_sign_refused_%d", s.code))
		} else {
			eb, err := hex.DecodeString(resp.Data.Encoded)
			if err != nil {
				t.Fatalf("encoded_transaction is not hex\n %s", desc)
			}
			got, err := coin.DeserializeTransaction(eb)
			if err != nil {
				t.Fatalf("signed transaction does not decode: %v\n %s", err, desc)
			}
			if got.InnerHash != txn.InnerHash || len(got.In) != len(txn.In) || len(got.Out) != len(txn.Out) || len(got.Sigs) != len(txn.Sigs) || got.Type != txn.Type {
				t.Fatalf("signing changed the shape or the inner hash of the transaction\n %s", desc)
			}
			for i := range txn.In {
				if got.In[i] != txn.In[i] {
					t.Fatalf("signing changed input %d\n %s", i, desc)
				}
			}
			for i := range txn.Out {
				if got.Out[i] != txn.Out[i] {
					t.Fatalf("signing changed output %d\n %s", i, desc)
				}
			}
			isAddressed := map[int]bool{}
			for _, i := range addressed {
				isAddressed[i] = true
			}
			for i := range txn.Sigs {
				if !isAddressed[i] {
					if got.Sigs[i] != txn.Sigs[i] {
						t.Fatalf("signature slot %d was not addressed but changed (was empty: %v)\n %s", i, txn.Sigs[i].Null(), desc)
					}
					continue
				}
				if got.Sigs[i].Null() {
					t.Fatalf("addressed input %d was not signed\n %s", i, desc)
				}
				msg := txref.SigHash(txn.InnerHash, txn.In[i])
				if err := cipher.VerifyAddressSignedHash(ins[i].ux.Body.Address, got.Sigs[i], msg); err != nil {
					t.Fatalf("signature of input %d does not verify against the address of the spent output: %v\n %s", i, err, desc)
				}
				sg := got.Sigs[i]
				q, ok := curve.Recover(new(big.Int).SetBytes(msg[:]), new(big.Int).SetBytes(sg[0:32]), new(big.Int).SetBytes(sg[32:64]), int(sg[64]))
				if !ok || sg[64] > 3 {
					t.Fatalf("textbook recovery of signature %d fails\n %s", i, desc)
				}
				pk, err := cipher.NewPubKey(curve.Compress(q))
				if err != nil || cipher.AddressFromPubKey(pk) != ins[i].ux.Body.Address {
					t.Fatalf("textbook recovery of signature %d does not give the owner of the spent output\n %s", i, desc)
				}
			}
			full := true
			for _, sg := range got.Sigs {
				if sg.Null() {
					full = false
				}
			}
			if full {
				vb, _ := json.Marshal(map[string]interface{}{"encoded_transaction": resp.Data.Encoded})
				vreq := httptest.NewRequest("POST", "http://127.0.0.1:6420/api/v2/transaction/verify", bytes.NewReader(vb))
				vreq.Header.Set("Content-Type", "application/json")
				vs := n.serve(vreq, 0)
				if vs.code != 200 {
					t.Fatalf("the fully signed transaction is refused by /api/v2/transaction/verify: %d %s\n %s", vs.code, trim(string(vs.body), 400), desc)
				}
				r.Count("node_sign_fully_signed_verified")
			}
			r.Count("node_sign_ok")
		}
		mixed := len(foreignUnsigned)+len(signedIdx) > 0
		nt := mixed || (len(sel) > 0 && len(sel) < len(ins))
		r.CaseS(nt, "nodesign/"+desc)
		if r.WantSample(nt) {
			r.Sample(nt, map[string]interface{}{"case": desc, "status": s.code})
		}
	})
}

func intsUpTo(n int) []int {
	out := make([]int, n)
	for i := range out {
		out[i] = i
	}
	return out
}

func keysOf(m map[int]bool) []int {
	var out []int
	for k := range m {
		out = append(out, k)
	}
	sort.Ints(out)
	return out
}

func ownersOf[T any](xs []T, f func(T) string) []string {
	var out []string
	for _, x := range xs {
		s := f(x)
		if s == "" {
			s = "key"
		}
		out = append(out, s)
	}
	return out
}
