package api

import (
	"fmt"
	"os"
	"testing"

	"verif/harness/internal/hx"
)

func TestMain(m *testing.M) { hx.Main(m) }

// setupFailed: a harness problem is never a verdict about the property; the case is skipped, and the reason goes to
// stderr so that the driver's log shows why nothing was evaluated.
func setupFailed(t interface {
	Skipf(string, ...interface{})
}, format string, a ...interface{}) {
	fmt.Fprintf(os.Stderr, "HARNESS-SETUP-FAILED "+format+"\n", a...)
	t.Skipf("HARNESS-SETUP-FAILED "+format, a...)
}
