package api

import (
	"testing"

	"verif/harness/internal/hx"
)

func TestMain(m *testing.M) { hx.Main(m) }
