package api

import (
	"bytes"
	"encoding/hex"
	"encoding/json"
	"fmt"
	"math/big"
	"net/http/httptest"
	"sort"
	"strings"
	"testing"

	"github.com/shopspring/decimal"
	"pgregory.net/rapid"

	"github.com/skycoin/skycoin/src/cipher"
	"github.com/skycoin/skycoin/src/coin"
	"github.com/skycoin/skycoin/src/params"
	"github.com/skycoin/skycoin/src/transaction"
	"github.com/skycoin/skycoin/src/util/fee"
	"github.com/skycoin/skycoin/src/visor"

	"verif/harness/internal/ev"
	"verif/harness/internal/hx"
	"verif/harness/internal/ref/create"
	"verif/harness/internal/ref/rules"
)

// C12 names Visor.CreateTransaction and POST /api/v2/transaction as observation points (and C30 the amount parameters of
// the API).  TestC12_NodeCreate builds spend requests against the real node of the API checks and judges the answer with
// the same oracle as the function-level check (harness/internal/ref/create).

const ruleC12Node = "node level: POST /api/v2/transaction on a real node (8 blocks, 21 spendable outputs of known keys, 3 pooled transactions): the request names 1-3 addresses or 1-6 unspent output ids (incl. addresses without outputs, outputs being spent by a pooled transaction, spent and unknown ids), ignore_unconfirmed on/off, 1-3 receivers with amounts aimed at one offered output's value, the exact offered total, the total + 0.001, or small values, written as decimal text in several spellings (canonical six decimals, shortest form, leading zeros, exponent form, explicit plus sign; and malformed: negative, seven decimals, more than three decimals, zero, non-numeric, beyond the 64-bit range), manual hours (incl. the spendable amount +-1) or auto-share hours, optional change address; oracle: a malformed or imprecise amount is refused with 400 and a well-formed one is taken at its exact droplet value; a 200 answer carries a transaction whose encoded form, readable form and txid agree, that is unsigned and well formed, spends only offered outputs that are not being spent by the pool, pays the receivers exactly, sends the rest to the documented change address, distributes automatic hours to the allotted total and burns the required fee (shared oracle with the function-level check); a refusal is a 4xx answer (never 5xx) and 'balance is not sufficient' / 'hours are not sufficient' / 'no fee' / 'pending transaction' / 'does not exist' refusals must be true of the offered outputs; non-trivial = a 200 answer with a change output, or a refusal of a well-formed request; distinct by request body"

type c12Receiver struct {
	Address string  `json:"address"`
	Coins   string  `json:"coins"`
	Hours   *string `json:"hours,omitempty"`
}

// spellings of a droplet amount whose value is known by construction
func c12Spell(t *rapid.T, d uint64) (string, string) {
	whole, frac := d/1e6, d%1e6
	canon := fmt.Sprintf("%d.%06d", whole, frac)
	short := canon
	if strings.Contains(short, ".") {
		short = strings.TrimRight(short, "0")
		short = strings.TrimSuffix(short, ".")
	}
	switch rapid.IntRange(0, 5).Draw(t, "spelling") {
	case 0:
		return canon, "canonical"
	case 1, 2:
		return short, "shortest"
	case 3:
		return "00" + canon, "leading_zeros"
	case 4:
		return "+" + short, "plus_sign"
	default:
		// exponent form: shortest form with the point moved k places to the left, e+k appended
		k := rapid.IntRange(1, 3).Draw(t, "exp")
		ip, fp := short, ""
		if i := strings.IndexByte(short, '.'); i >= 0 {
			ip, fp = short[:i], short[i+1:]
		}
		for len(ip) <= k {
			ip = "0" + ip
		}
		m := ip[:len(ip)-k] + "." + ip[len(ip)-k:] + fp
		return fmt.Sprintf("%se%d", m, k), "exponent"
	}
}

func TestC12_NodeCreate(t *testing.T) {
	r := ev.Get("C12")
	r.Rule(ruleC12Node)
	tm, err := getTemplate()
	if err != nil {
		setupFailed(t, "node template: %v", err)
	}
	n, err := startNode(tm)
	if err != nil {
		setupFailed(t, "node start: %v", err)
	}
	defer n.stop()
	// facts about the node (it does not change during this test: create never stores anything)
	headSeq, _, err := n.v.HeadBkSeq()
	if err != nil {
		t.Fatal(err)
	}
	hb, err := n.v.GetSignedBlockBySeq(headSeq)
	if err != nil || hb == nil {
		t.Fatalf("head block: %v", err)
	}
	headTime := hb.Head.Time
	all, err := n.v.GetAllUnspentOutputs()
	if err != nil {
		t.Fatal(err)
	}
	sort.Slice(all, func(i, j int) bool { return all[i].Hash().Hex() < all[j].Hash().Hex() })
	unspent := map[cipher.SHA256]coin.UxOut{}
	byAddr := map[cipher.Address][]coin.UxOut{}
	var addrsWithOutputs []cipher.Address
	for _, ux := range all {
		unspent[ux.Hash()] = ux
		if len(byAddr[ux.Body.Address]) == 0 {
			addrsWithOutputs = append(addrsWithOutputs, ux.Body.Address)
		}
		byAddr[ux.Body.Address] = append(byAddr[ux.Body.Address], ux)
	}
	poolSpent := map[cipher.SHA256]bool{}
	pool, err := n.v.GetAllUnconfirmedTransactions()
	if err != nil {
		t.Fatal(err)
	}
	var poolSpentList []cipher.SHA256
	for _, p := range pool {
		for _, in := range p.Transaction.In {
			if !poolSpent[in] {
				poolSpentList = append(poolSpentList, in)
			}
			poolSpent[in] = true
		}
	}
	if len(poolSpentList) == 0 || len(all) < 8 {
		setupFailed(t, "node template has %d unspent outputs and %d outputs in pooled spends", len(all), len(poolSpentList))
	}
	var spentID cipher.SHA256 // an output that a block has spent
	if b1, err := n.v.GetSignedBlockBySeq(1); err == nil && b1 != nil && len(b1.Body.Transactions) > 0 {
		spentID = b1.Body.Transactions[0].In[0]
	}
	burn := params.UserVerifyTxn.BurnFactor
	destPool := append([]cipher.Address{}, addrsWithOutputs...)
	destPool = append(destPool, c28Users[0].Addr, c28Users[1].Addr, c28Users[2].Addr, cipher.AddressFromPubKey(c28Publisher.Pub))

	hx.Check(t, "C12", 400, 24000, func(t *rapid.T) {
		// ---- the outputs the request offers
		var reqAddrs []cipher.Address
		var reqUx []cipher.SHA256
		useAddrs := rapid.Bool().Draw(t, "by_address")
		if useAddrs {
			k := rapid.IntRange(1, 3).Draw(t, "naddr")
			seen := map[cipher.Address]bool{}
			for i := 0; i < k; i++ {
				var a cipher.Address
				if rapid.IntRange(0, 9).Draw(t, "empty_addr") == 4 {
					a = cipher.AddressFromPubKey(c28Publisher.Pub) // holds nothing
				} else {
					a = addrsWithOutputs[rapid.IntRange(0, len(addrsWithOutputs)-1).Draw(t, "addr")]
				}
				if !seen[a] {
					seen[a] = true
					reqAddrs = append(reqAddrs, a)
				}
			}
		} else {
			k := rapid.IntRange(1, 6).Draw(t, "nux")
			seen := map[cipher.SHA256]bool{}
			for i := 0; i < k; i++ {
				var h cipher.SHA256
				switch rapid.IntRange(0, 39).Draw(t, "uxkind") { // (rapid favours the ends of a range: the rare kinds sit in the middle)
				case 17:
					h = spentID
				case 18:
					h = cipher.SumSHA256([]byte("no such output"))
				case 19, 20:
					h = poolSpentList[rapid.IntRange(0, len(poolSpentList)-1).Draw(t, "poolspent")]
				default:
					h = all[rapid.IntRange(0, len(all)-1).Draw(t, "ux")].Hash()
				}
				if !seen[h] {
					seen[h] = true
					reqUx = append(reqUx, h)
				}
			}
		}
		ignore := rapid.IntRange(0, 2).Draw(t, "ignore_unconfirmed") != 0
		// what that means (reference): the offered set, or the refusal that must come
		var offered []coin.UxOut
		mustFail := ""
		missing := false
		touchesPool := false
		if useAddrs {
			for _, a := range reqAddrs {
				for _, ux := range byAddr[a] {
					if poolSpent[ux.Hash()] {
						touchesPool = true
						continue
					}
					offered = append(offered, ux)
				}
			}
		} else {
			for _, h := range reqUx {
				ux, ok := unspent[h]
				if poolSpent[h] {
					touchesPool = true
					continue
				}
				if !ok {
					missing = true
					continue
				}
				offered = append(offered, ux)
			}
		}
		switch {
		case touchesPool && !ignore:
			mustFail = "pending"
		case len(offered) == 0 && !missing:
			mustFail = "nothing_offered"
		case missing:
			mustFail = "missing_output"
		}
		totalCoins, totalHours, anyHours := create.Totals(offered, headTime)
		spendable := create.Spendable(totalHours, burn)
		// ---- receivers
		nTo := rapid.IntRange(1, 3).Draw(t, "nto")
		auto := rapid.Bool().Draw(t, "auto")
		var to []c12Receiver
		var p transaction.Params
		badAmount, hasBad := "", false
		budget := uint64(0)
		if totalCoins.IsUint64() {
			budget = totalCoins.Uint64()
		}
		for i := 0; i < nTo; i++ {
			var amt uint64
			switch rapid.SampledFrom([]int{0, 0, 1, 1, 2, 3, 3, 4}).Draw(t, "amode") {
			case 0:
				if len(offered) > 0 {
					amt = offered[rapid.IntRange(0, len(offered)-1).Draw(t, "like")].Body.Coins
				}
			case 1:
				amt = budget
			case 2:
				amt = budget + 1000
			case 3:
				amt = 1000 * uint64(1+rapid.IntRange(0, 4999).Draw(t, "small"))
			default:
				if budget >= 1000 {
					amt = 1000 * (1 + rapid.Uint64Range(0, budget/1000-1).Draw(t, "amt"))
				}
			}
			if amt == 0 {
				amt = 1000
			}
			if amt <= budget {
				budget -= amt
			}
			text, spelling := c12Spell(t, amt)
			r.Count("amount_spelling_" + spelling)
			if !hasBad && rapid.IntRange(0, 39).Draw(t, "bad_amount") == 17 {
				text = rapid.SampledFrom([]string{"-1", "-0.001", "1.0000001", "0.0001", "0.123456", "0", "0.000", "abc", "", " 1", "1 ", "0x10", "1,5", "9223372036855", "18446744073710", "NaN", "Inf", "1e-7", "1e30", "--1", "1.2.3"}).Draw(t, "badtext")
				badAmount, hasBad = text, true
			}
			addr := destPool[rapid.IntRange(0, len(destPool)-1).Draw(t, "dest")]
			rc := c12Receiver{Address: addr.String(), Coins: text}
			out := coin.TransactionOutput{Address: addr, Coins: amt}
			if !auto {
				var h uint64
				switch rapid.IntRange(0, 4).Draw(t, "hmode") {
				case 0:
				case 1:
					if spendable.IsUint64() {
						h = spendable.Uint64() / uint64(nTo)
					}
				case 2:
					if spendable.IsUint64() {
						h = spendable.Uint64()/uint64(nTo) + 1
					}
				default:
					h = rapid.OneOf(rapid.Uint64Range(0, 10), rapid.Uint64Range(0, 100000)).Draw(t, "tohours")
				}
				hs := fmt.Sprint(h)
				rc.Hours = &hs
				out.Hours = h
			}
			to = append(to, rc)
			p.To = append(p.To, out)
		}
		hsel := map[string]interface{}{}
		if auto {
			sf := rapid.SampledFrom([]string{"0", "0.5", "1", "0.01", "0.99", "0.33", "0.25", "0.9", "0.1"}).Draw(t, "share")
			hsel["type"], hsel["mode"], hsel["share_factor"] = "auto", "share", sf
			d, _ := decimal.NewFromString(sf)
			p.HoursSelection = transaction.HoursSelection{Type: transaction.HoursSelectionTypeAuto, Mode: transaction.HoursSelectionModeShare, ShareFactor: &d}
		} else {
			hsel["type"] = "manual"
			p.HoursSelection = transaction.HoursSelection{Type: transaction.HoursSelectionTypeManual}
		}
		body := map[string]interface{}{"hours_selection": hsel, "to": to, "ignore_unconfirmed": ignore}
		if rapid.Bool().Draw(t, "explicit_change") {
			a := destPool[rapid.IntRange(0, len(destPool)-1).Draw(t, "change")]
			body["change_address"] = a.String()
			p.ChangeAddress = &a
		}
		if useAddrs {
			var xs []string
			for _, a := range reqAddrs {
				xs = append(xs, a.String())
			}
			body["addresses"] = xs
		} else {
			var xs []string
			for _, h := range reqUx {
				xs = append(xs, h.Hex())
			}
			body["unspents"] = xs
		}
		dupTo := false
		seenTo := map[coin.TransactionOutput]bool{}
		for _, o := range p.To {
			if seenTo[o] {
				dupTo = true
			}
			seenTo[o] = true
		}
		raw, _ := json.Marshal(body)
		req := httptest.NewRequest("POST", "http://127.0.0.1:6420/api/v2/transaction", bytes.NewReader(raw))
		req.Header.Set("Content-Type", "application/json")
		s := n.serve(req, 0)
		if s.hung || s.pan != nil {
			t.Fatalf("POST /api/v2/transaction hung=%v panic=%v\n request %s", s.hung, s.pan, raw)
		}
		var resp struct {
			Error *struct {
				Message string `json:"message"`
				Code    int    `json:"code"`
			} `json:"error"`
			Data *struct {
				Transaction struct {
					Length    uint32 `json:"length"`
					TxID      string `json:"txid"`
					InnerHash string `json:"inner_hash"`
					Fee       string `json:"fee"`
					Sigs      []string
					In        []struct {
						UxID            string `json:"uxid"`
						Address         string `json:"address"`
						Coins           string `json:"coins"`
						CalculatedHours string `json:"calculated_hours"`
					} `json:"inputs"`
					Out []struct {
						Address string `json:"address"`
						Coins   string `json:"coins"`
						Hours   string `json:"hours"`
					} `json:"outputs"`
				} `json:"transaction"`
				Encoded string `json:"encoded_transaction"`
			} `json:"data"`
		}
		if err := json.Unmarshal(s.body, &resp); err != nil {
			t.Fatalf("answer does not parse (%d): %q\n request %s", s.code, trim(string(s.body), 300), raw)
		}
		msg := ""
		if resp.Error != nil {
			msg = resp.Error.Message
		}
		fail := func(format string, a ...interface{}) {
			t.Fatalf("%s\n request  %s\n answer   %d %s\n offered  %d outputs, %s droplets, %s hours at head time %d (spendable %s)", fmt.Sprintf(format, a...), raw, s.code, trim(string(s.body), 700), len(offered), totalCoins, totalHours, headTime, spendable)
		}
		nt := false
		class := ""
		switch {
		case hasBad:
			// C30 at the API: such an amount is never taken
			if s.code != 400 {
				fail("an amount written %q was not refused with 400", badAmount)
			}
			class = "bad_amount"
		case dupTo:
			if s.code != 400 {
				fail("duplicate receivers were not refused with 400")
			}
			class = "duplicate_receivers"
		case s.code == 200:
			if mustFail != "" {
				fail("the request must be refused (%s) but was answered 200", mustFail)
			}
			if resp.Data == nil {
				fail("200 without data")
			}
			enc, err := hex.DecodeString(resp.Data.Encoded)
			if err != nil {
				fail("encoded_transaction is not hex")
			}
			txn, err := coin.DeserializeTransaction(enc)
			if err != nil {
				fail("encoded_transaction does not decode: %v", err)
			}
			// readable form == encoded form
			rt := resp.Data.Transaction
			if rt.TxID != txn.Hash().Hex() || rt.InnerHash != txn.InnerHash.Hex() || rt.Length != txn.Length || len(rt.In) != len(txn.In) || len(rt.Out) != len(txn.Out) {
				fail("readable transaction and encoded transaction disagree (txid/inner hash/length/counts)")
			}
			inHours := new(big.Int)
			for i, in := range txn.In {
				ux, ok := unspent[in]
				if !ok {
					fail("input %d (%s) is not an unspent output of the node", i, in.Hex())
				}
				if poolSpent[in] {
					fail("input %d (%s) is being spent by a pooled transaction", i, in.Hex())
				}
				v, _ := rules.Accrued(ux, headTime)
				inHours.Add(inHours, v)
				if rt.In[i].UxID != in.Hex() || rt.In[i].Address != ux.Body.Address.String() || rt.In[i].Coins != c12Canon(ux.Body.Coins) || rt.In[i].CalculatedHours != v.String() {
					fail("readable input %d = %+v does not describe output %s (%s, %s, %s hours)", i, rt.In[i], in.Hex(), ux.Body.Address, c12Canon(ux.Body.Coins), v)
				}
			}
			outHours := new(big.Int)
			for i, o := range txn.Out {
				outHours.Add(outHours, new(big.Int).SetUint64(o.Hours))
				if rt.Out[i].Address != o.Address.String() || rt.Out[i].Coins != c12Canon(o.Coins) || rt.Out[i].Hours != fmt.Sprint(o.Hours) {
					fail("readable output %d = %+v, encoded output = (%s, %s, %d)", i, rt.Out[i], o.Address, c12Canon(o.Coins), o.Hours)
				}
			}
			if rt.Fee != new(big.Int).Sub(inHours, outHours).String() {
				fail("fee reported %s, inputs carry %s hours and outputs %s", rt.Fee, inHours, outHours)
			}
			for i, sg := range txn.Sigs {
				if !sg.Null() {
					fail("signature %d of a created transaction is not empty", i)
				}
			}
			cls, cerr := create.CheckSuccess(p, offered, headTime, &txn, burn)
			if cerr != nil {
				fail("%v", cerr)
			}
			class = cls
			nt = cls == "ok_change"
		case s.code >= 500:
			fail("a spend request was answered with a server error instead of a user-level refusal")
		case s.code != 400:
			fail("unexpected status")
		default:
			// a refusal: must be true
			reqCoins, reqHours := new(big.Int), new(big.Int)
			for _, o := range p.To {
				reqCoins.Add(reqCoins, new(big.Int).SetUint64(o.Coins))
				reqHours.Add(reqHours, new(big.Int).SetUint64(o.Hours))
			}
			nt = true
			switch {
			case msg == visor.ErrSpendingUnconfirmed.Error():
				if !(touchesPool && !ignore) {
					fail("refused as spending unconfirmed outputs, but none of the named outputs is being spent by the pool (or they were to be ignored)")
				}
				class = "refused_pending"
			case mustFail == "pending":
				fail("outputs named by the request are being spent by a pooled transaction and ignore_unconfirmed is off: want the pending-transaction refusal")
			case strings.Contains(msg, "does not exist"):
				if !missing {
					fail("refused for a missing output although every named output is unspent")
				}
				class = "refused_missing_output"
			case msg == visor.ErrNoSpendableOutputs.Error() || msg == transaction.ErrNoUnspents.Error():
				if len(offered) != 0 {
					fail("refused for lack of spendable outputs although %d are offered", len(offered))
				}
				class = "refused_nothing_offered"
			case mustFail != "":
				class = "refused_" + mustFail // another true reason came first (e.g. the balance)
				if msg == transaction.ErrInsufficientBalance.Error() && totalCoins.Cmp(reqCoins) >= 0 {
					fail("balance refusal although offered coins %s >= requested %s", totalCoins, reqCoins)
				}
			case msg == transaction.ErrInsufficientBalance.Error():
				if totalCoins.Cmp(reqCoins) >= 0 {
					fail("balance refusal although offered coins %s >= requested %s", totalCoins, reqCoins)
				}
				class = "refused_balance"
			case msg == transaction.ErrInsufficientHours.Error():
				if spendable.Cmp(reqHours) >= 0 && totalCoins.Cmp(reqCoins) >= 0 {
					fail("hours refusal although spending everything leaves %s >= requested %s hours", spendable, reqHours)
				}
				class = "refused_hours"
			case msg == fee.ErrTxnNoFee.Error():
				if anyHours {
					fail("no-fee refusal although an offered output has coin hours")
				}
				class = "refused_nofee"
			default:
				// the one remaining documented refusal: the change output would repeat a receiver
				twin := false
				for _, o := range p.To {
					if p.ChangeAddress != nil && o.Address == *p.ChangeAddress {
						twin = true
					}
					if p.ChangeAddress == nil {
						for _, ux := range offered {
							if ux.Body.Address == o.Address {
								twin = true
							}
						}
					}
				}
				if !twin {
					fail("a well-formed request over sufficient outputs was refused: %q", msg)
				}
				class = "refused_change_twin"
			}
		}
		r.Count("node_" + class)
		r.CaseS(nt, "node/"+string(raw))
		if r.WantSample(nt) {
			r.Sample(nt, map[string]interface{}{"request": trim(string(raw), 600), "status": s.code, "class": class, "answer": trim(string(s.body), 300)})
		}
	})
}

// c12Canon is the six-decimal text of a droplet amount, written from the definition.
func c12Canon(d uint64) string { return fmt.Sprintf("%d.%06d", d/1e6, d%1e6) }
