package api

import (
	"net/http/httptest"
	"strings"
	"testing"
	"time"

	"verif/harness/internal/ev"
	"verif/harness/internal/hx"
)

// TestC28_ZZ_UnboundedScanProbe (last test of the package on purpose): the wallet endpoints that derive addresses one by
// one take the count as an unsigned 64-bit number without any bound.  A count of 2^63 cannot be finished, the handler
// never answers and keeps the wallet service locked: by the letter of C28 ("... rather than a panic, hang or dropped
// connection") that is a violation.  Bounding the count is an API decision, so it is recorded as a known finding and
// probed here once per run, on a throw-away node: 2^63 key derivations cannot complete within the 3 s the probe waits,
// so "no answer within 3 s" is arithmetic, not timing.  A node that refuses the count answers at once and the finding
// is gone.
func TestC28_ZZ_UnboundedScanProbe(t *testing.T) {
	if hx.Shard() != 0 {
		t.Skip("probed by shard 0 only (a handler that cannot finish keeps a core busy until the process ends)")
	}
	r := ev.Get("C28")
	tm, err := getTemplate()
	if err != nil {
		setupFailed(t, "node template: %v", err)
	}
	n, err := startNode(tm)
	if err != nil {
		setupFailed(t, "node start: %v", err)
	}
	body := "seed=probe+seed+for+the+scan+bound&label=probe&type=deterministic&scan=9223372036854775808"
	req := httptest.NewRequest("POST", "http://127.0.0.1:6420/api/v1/wallet/create", strings.NewReader(body))
	req.Header.Set("Content-Type", "application/x-www-form-urlencoded")
	s := n.serve(req, 3*time.Second)
	r.Count("unbounded_scan_probe")
	if !s.hung {
		if s.pan != nil {
			t.Fatalf("wallet/create with scan=2^63 panicked: %v", s.pan)
		}
		n.stop()
		if s.code >= 400 && s.code < 500 {
			return // the count is refused: nothing to report
		}
		t.Fatalf("wallet/create with scan=2^63 answered %d within 3 s - it cannot have scanned 2^63 addresses", s.code)
	}
	n.wedged = true
	go n.stop()
	if hx.IsKnown("C28", "unbounded-address-scan") {
		hx.ReportKnown("C28", "unbounded-address-scan")
		return
	}
	t.Fatalf("POST /api/v1/wallet/create with scan=9223372036854775808 is accepted and never answered (the handler derives addresses one by one, holding the wallet service)")
}
