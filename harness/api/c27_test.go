package api

import (
	"crypto/hmac"
	"crypto/sha256"
	"encoding/base64"
	"encoding/json"
	"fmt"
	"net/http"
	"net/http/httptest"
	"sort"
	"strings"
	"testing"
	"time"

	"pgregory.net/rapid"

	skyapi "github.com/skycoin/skycoin/src/api"

	"verif/harness/internal/ev"
	"verif/harness/internal/hx"
)

const ruleC27 = "generated (configuration, request) pairs served in process by the node's real request multiplexer over a recording stub gateway: configuration = interface host {loopback, localhost, public, wildcard} x host whitelist subset x header check on/off x token check on/off x subset of the 7 API sets x credentials {none, user+pass, short pair, password only, user only}; request = route of the pinned route table (58 route/method entries from src/api/http.go, cross-checked with src/api/README.md) or an unregistered path x method {GET,POST,PUT,DELETE,PATCH,HEAD,OPTIONS} x Host {absent, exact, localhost alias, whitelisted, foreign, wrong port} x Origin/Referer {absent, acceptable, foreign, unparsable, hostless} x token {none, issued by the token endpoint, issued then superseded, expired (minted through the hook), garbage, truncated, foreign signature, payload edited under the old signature, three parts} x credentials {none, exact, wrong, user/password boundary moved by one character either way, empty pair, malformed header} x content type; oracle = a table-driven model of the documented access conditions: a request the model refuses must not reach the gateway (stub hit count 0) and must be answered with the documented refusal (401 / 403 with the refusal message of a failing check / 405 / 415), a request the model admits must not be answered with any access-control refusal; non-trivial = the request fails exactly one condition or passes all of them on a registered route; distinct by (configuration, request) rendering"

// ---------------------------------------------------------------------------
// pinned route table (independent of the code's table; a change of the API sets or methods in http.go is a finding)

type route struct {
	path    string
	v2      bool
	methods map[string][]string // nil = always enabled, handler decides about methods
	query   string              // parameters that make the handler call the gateway at once (GET) or form body (POST v1)
	body    string              // JSON body for v2
}

const (
	sRead   = "READ"
	sStatus = "STATUS"
	sTxn    = "TXN"
	sWallet = "WALLET"
	sSeed   = "INSECURE_WALLET_SEED"
	sNet    = "NET_CTRL"
	sStore  = "STORAGE"
)

var allSets = []string{sRead, sStatus, sTxn, sWallet, sSeed, sNet, sStore}

const anAddr = "2GgFvqoyk9RjwVzj8tqfcXVXB4orBwoc9qv"
const aHash = "8a7d8f4f3e5c0d1b2a3948576a6b7c8d9e0f1a2b3c4d5e6f708192a3b4c5d6e7"

func get(sets ...string) map[string][]string { return map[string][]string{"GET": sets} }
func post(sets ...string) map[string][]string {
	return map[string][]string{"POST": sets}
}
func getpost(sets ...string) map[string][]string {
	return map[string][]string{"GET": sets, "POST": sets}
}

var routes = []route{
	{path: "/api/v1/health", methods: get(sRead, sStatus)},
	{path: "/api/v1/wallet", methods: get(sWallet), query: "id=w.wlt"},
	{path: "/api/v1/wallet/create", methods: post(sWallet), query: "seed=abc&label=l&type=deterministic"},
	{path: "/api/v1/wallet/createTemp", methods: post(sWallet), query: "seed=abc&label=l&type=deterministic"},
	{path: "/api/v1/wallet/newAddress", methods: post(sWallet), query: "id=w.wlt"},
	{path: "/api/v1/wallet/scan", methods: post(sWallet), query: "id=w.wlt"},
	{path: "/api/v1/wallet/balance", methods: get(sWallet), query: "id=w.wlt"},
	{path: "/api/v1/wallet/transaction", methods: post(sWallet)},
	{path: "/api/v2/wallet/transaction/sign", v2: true, methods: post(sWallet), body: `{"wallet_id":"w.wlt","encoded_transaction":"00"}`},
	{path: "/api/v1/wallet/transactions", methods: get(sWallet), query: "id=w.wlt"},
	{path: "/api/v1/wallet/update", methods: post(sWallet), query: "id=w.wlt&label=x"},
	{path: "/api/v1/wallets", methods: get(sWallet)},
	{path: "/api/v1/wallets/folderName", methods: get(sWallet)},
	{path: "/api/v1/wallet/newSeed", methods: get(sWallet)},
	{path: "/api/v1/wallet/seed", methods: post(sSeed), query: "id=w.wlt&password=pw"},
	{path: "/api/v2/wallet/seed/verify", v2: true, methods: post(sWallet), body: `{"seed":"abc"}`},
	{path: "/api/v1/wallet/unload", methods: post(sWallet), query: "id=w.wlt"},
	{path: "/api/v1/wallet/encrypt", methods: post(sWallet), query: "id=w.wlt&password=pw"},
	{path: "/api/v1/wallet/decrypt", methods: post(sWallet), query: "id=w.wlt&password=pw"},
	{path: "/api/v2/wallet/recover", v2: true, methods: post(sWallet), body: `{"id":"w.wlt","seed":"abc"}`},
	{path: "/api/v1/blockchain/metadata", methods: get(sRead, sStatus)},
	{path: "/api/v1/blockchain/progress", methods: get(sRead, sStatus)},
	{path: "/api/v1/block", methods: get(sRead), query: "seq=1"},
	{path: "/api/v1/blocks", methods: getpost(sRead), query: "start=1&end=2"},
	{path: "/api/v1/last_blocks", methods: get(sRead), query: "num=1"},
	{path: "/api/v1/network/connection", methods: get(sRead, sStatus), query: "addr=1.2.3.4:6000"},
	{path: "/api/v1/network/connections", methods: get(sRead, sStatus)},
	{path: "/api/v1/network/defaultConnections", methods: get(sRead, sStatus)},
	{path: "/api/v1/network/connections/trust", methods: get(sRead, sStatus)},
	{path: "/api/v1/network/connections/exchange", methods: get(sRead, sStatus)},
	{path: "/api/v1/network/connection/disconnect", methods: post(sNet), query: "id=1"},
	{path: "/api/v1/pendingTxs", methods: get(sRead)},
	{path: "/api/v1/transaction", methods: get(sRead), query: "txid=" + aHash},
	{path: "/api/v2/transaction", v2: true, methods: post(sTxn)},
	{path: "/api/v2/transaction/verify", v2: true, methods: post(sRead)},
	{path: "/api/v1/transactions", methods: getpost(sRead), query: "addrs=" + anAddr},
	{path: "/api/v1/transactions/num", methods: get(sRead)},
	{path: "/api/v2/transactions", v2: true, methods: get(sRead), query: "addrs=" + anAddr},
	{path: "/api/v1/injectTransaction", methods: post(sTxn, sWallet)},
	{path: "/api/v1/resendUnconfirmedTxns", methods: post(sTxn, sWallet)},
	{path: "/api/v1/rawtx", methods: get(sRead), query: "txid=" + aHash},
	{path: "/api/v1/outputs", methods: getpost(sRead), query: "addrs=" + anAddr},
	{path: "/api/v1/balance", methods: getpost(sRead), query: "addrs=" + anAddr},
	{path: "/api/v1/uxout", methods: get(sRead), query: "uxid=" + aHash},
	{path: "/api/v1/address_uxouts", methods: get(sRead), query: "address=" + anAddr},
	{path: "/api/v2/address/verify", v2: true, methods: post(sRead), body: `{"address":"` + anAddr + `"}`},
	{path: "/api/v1/coinSupply", methods: get(sRead)},
	{path: "/api/v1/richlist", methods: get(sRead)},
	{path: "/api/v1/addresscount", methods: get(sRead)},
	{path: "/api/v2/data", v2: true, methods: map[string][]string{"GET": {sStore}, "POST": {sStore}, "DELETE": {sStore}}, query: "type=client&key=k", body: `{"type":"client","key":"k","val":"v"}`},
	// always enabled
	{path: "/api/v1/version"},
	{path: "/api/v1/csrf"},
	{path: "/"},
	{path: "/api/v1/nosuchendpoint"},
	{path: "/api/v3/health"},
}

var httpMethods = []string{"GET", "POST", "PUT", "DELETE", "PATCH", "HEAD", "OPTIONS"}

// ---------------------------------------------------------------------------

type c27Config struct {
	Host          string
	Whitelist     []string
	NoHeaderCheck bool
	NoCSRF        bool
	Sets          []string
	User, Pass    string
}

type c27Request struct {
	Path, Method  string
	HostHdr       string
	Origin        string
	Referer       string
	TokenKind     string
	token         string
	CredKind      string
	authHeader    string
	ContentType   string
	WithGoodInput bool
}

func hostPort(h string) string { return h[strings.LastIndex(h, ":")+1:] }

func isLoopbackHost(h string) bool {
	name := h[:strings.LastIndex(h, ":")]
	return name == "localhost" || strings.HasPrefix(name, "127.")
}

// acceptableHosts is the documented set of names a browser may use for this interface
func acceptableHosts(c c27Config) map[string]bool {
	m := map[string]bool{}
	for _, w := range c.Whitelist {
		m[w] = true
	}
	if isLoopbackHost(c.Host) {
		m["127.0.0.1:"+hostPort(c.Host)] = true
		m["localhost:"+hostPort(c.Host)] = true
	}
	return m
}

func basic(u, p string) string {
	return "Basic " + base64.StdEncoding.EncodeToString([]byte(u+":"+p))
}

type refusal struct {
	check  string
	status int
	msg    string // substring that identifies the refusal ("" = status is enough)
}

var mwMessages = []string{"Invalid Host", "Invalid Origin or Referer", "Invalid URL in Origin or Referer header", "Endpoint is disabled", "CSRF", "csrf", "illegal base64", "invalid character", "unexpected end of JSON", "cannot unmarshal", "parsing time"}

func findRoute(path string) *route {
	for i := range routes {
		if routes[i].path == path {
			return &routes[i]
		}
	}
	return nil
}

func TestC27_AccessControl(t *testing.T) {
	r := ev.Get("C27")
	r.Rule(ruleC27)
	r.Assume("the endpoint's logic is observed through a stub gateway (every gateway method counts a hit) and through the refusal signature of the response; handlers that answer without the gateway are judged by the response alone")
	r.Assume("requests are served in process by the multiplexer returned by the verif hook VerifNewServerMux (the same construction as api.create, no TCP listener); expired tokens are minted by VerifNewCSRFTokenWithTime because the signing key is private to the process; tokens signed by somebody else (no key, zero key, guessable key) are made by the harness")
	r.Assume("not asserted either way (the statement is silent): credentials presented to a node without configured credentials (the code refuses them with 401), and the content type of v2 POST requests (415)")
	oldTokenKnown := hx.IsKnown("C27", "csrf-superseded-token")
	hx.Check(t, "C27", 6000, 400000, func(t *rapid.T) {
		var c c27Config
		c.Host = rapid.SampledFrom([]string{"127.0.0.1:6420", "127.0.0.1:6420", "localhost:6420", "203.0.113.7:6420", "0.0.0.0:6420", "127.0.0.2:6420", "127.8.8.8:6420"}).Draw(t, "host")
		for _, w := range []string{"wallet.example.com", "lan.example.org:8080"} {
			if rapid.IntRange(0, 3).Draw(t, "wl") == 0 {
				c.Whitelist = append(c.Whitelist, w)
			}
		}
		c.NoHeaderCheck = rapid.IntRange(0, 5).Draw(t, "nohdr") == 0
		c.NoCSRF = rapid.IntRange(0, 4).Draw(t, "nocsrf") == 0
		setMode := rapid.SampledFrom([]int{0, 0, 0, 1, 1, 2, 3}).Draw(t, "setmode")
		for _, s := range allSets {
			switch setMode {
			case 0: // all
				c.Sets = append(c.Sets, s)
			case 1: // random subset
				if rapid.Bool().Draw(t, "set") {
					c.Sets = append(c.Sets, s)
				}
			case 2: // default-like
				if s == sRead {
					c.Sets = append(c.Sets, s)
				}
			}
		}
		cred := rapid.SampledFrom([][2]string{{"", ""}, {"", ""}, {"user", "pass"}, {"ab", "c"}, {"", "secret"}, {"admin", ""}, {"a:b", "c"}}).Draw(t, "cred")
		c.User, c.Pass = cred[0], cred[1]
		if strings.Contains(c.User, ":") {
			c.User = "ab" // a colon cannot be carried in a basic-auth user name
		}
		enabled := map[string]struct{}{}
		for _, s := range c.Sets {
			enabled[s] = struct{}{}
		}
		gw := &stubGW{}
		mux := skyapi.VerifNewServerMux(c.Host, skyapi.Config{DisableCSRF: c.NoCSRF, DisableHeaderCheck: c.NoHeaderCheck, HostWhitelist: c.Whitelist,
			EnabledAPISets: enabled, Username: c.User, Password: c.Pass}, gw)
		okHosts := acceptableHosts(c)
		var okHostList []string
		for h := range okHosts {
			okHostList = append(okHostList, h)
		}
		sort.Strings(okHostList)
		originOK := map[string]bool{}
		for h := range okHosts {
			originOK[h] = true
		}
		if !isLoopbackHost(c.Host) {
			originOK[c.Host] = true
		}
		var originOKList []string
		for h := range originOK {
			originOKList = append(originOKList, h)
		}
		sort.Strings(originOKList)

		serve := func(req *http.Request) *httptest.ResponseRecorder {
			w := httptest.NewRecorder()
			mux.ServeHTTP(w, req)
			return w
		}
		// a token as a client obtains it: GET /api/v1/csrf with acceptable headers and the right credentials
		fetchToken := func() string {
			req := httptest.NewRequest("GET", "http://"+c.Host+"/api/v1/csrf", nil)
			req.Host = ""
			if c.User != "" || c.Pass != "" {
				req.Header.Set("Authorization", basic(c.User, c.Pass))
			}
			w := serve(req)
			if w.Code != 200 {
				t.Fatalf("token endpoint answered %d %q for a well-formed request (config %+v)", w.Code, w.Body.String(), c)
			}
			var m map[string]string
			if err := json.Unmarshal(w.Body.Bytes(), &m); err != nil || m["csrf_token"] == "" {
				t.Fatalf("token endpoint body %q", w.Body.String())
			}
			return m["csrf_token"]
		}

		nreq := rapid.IntRange(1, 6).Draw(t, "nreq")
		for k := 0; k < nreq; k++ {
			var q c27Request
			rt := routes[rapid.IntRange(0, len(routes)-1).Draw(t, "route")]
			q.Path = rt.path
			// focus: in most requests a single dimension (or none) may deviate from a well-formed client request
			focus := rapid.IntRange(-1, 9).Draw(t, "focus") // 0 method, 1 host, 2 origin/referer, 3 token, 4 credentials; -1 none; >4 all free
			free := func(dim int) bool { return focus > 4 || focus == dim }
			// method: biased to a served one
			q.Method = rapid.SampledFrom(httpMethods).Draw(t, "method")
			if rt.methods != nil && (!free(0) || rapid.IntRange(0, 2).Draw(t, "servedmethod") > 0) {
				var ms []string
				for m := range rt.methods {
					ms = append(ms, m)
				}
				sort.Strings(ms)
				q.Method = rapid.SampledFrom(ms).Draw(t, "m")
			}
			// Host header
			hostChoice := rapid.IntRange(0, 7).Draw(t, "hosthdr")
			if !free(1) {
				hostChoice = hostChoice % 5
				if hostChoice == 3 && !isLoopbackHost(c.Host) {
					hostChoice = 1
				}
			}
			switch hostChoice {
			case 0:
				q.HostHdr = ""
			case 1, 2:
				q.HostHdr = c.Host
				if c.Host == "0.0.0.0:6420" {
					q.HostHdr = "198.51.100.3:6420"
				}
			case 3:
				q.HostHdr = "localhost:" + hostPort(c.Host)
			case 4:
				if len(okHostList) > 0 {
					q.HostHdr = rapid.SampledFrom(okHostList).Draw(t, "okhost")
				}
			case 5:
				q.HostHdr = "evil.example.net"
			case 6:
				q.HostHdr = "127.0.0.1:6421"
			case 7:
				q.HostHdr = "wallet.example.com" // whitelisted only in some configurations
			}
			hdrVal := func(label string) string {
				ch := rapid.IntRange(0, 9).Draw(t, label)
				if !free(2) {
					ch = ch % 6
				}
				switch ch {
				case 0, 1, 2, 3:
					return ""
				case 4, 5:
					if len(originOKList) > 0 {
						return rapid.SampledFrom([]string{"http://", "https://"}).Draw(t, "scheme") + rapid.SampledFrom(originOKList).Draw(t, "okorigin") + rapid.SampledFrom([]string{"", "/", "/index.html?x=1"}).Draw(t, "opath")
					}
					return ""
				case 6:
					return "http://evil.example.net"
				case 7:
					return "http://127.0.0.1:6421/"
				case 8:
					return rapid.SampledFrom([]string{"http://[::1", "%zz", "http://a b/"}).Draw(t, "badurl")
				default:
					return rapid.SampledFrom([]string{"null", "localhost", "/relative/path"}).Draw(t, "hostless")
				}
			}
			q.Origin = hdrVal("origin")
			q.Referer = hdrVal("referer")
			// token
			q.TokenKind = rapid.SampledFrom([]string{"none", "fresh", "fresh", "fresh", "superseded", "expired", "garbage", "truncated", "foreignsig", "edited", "threeparts", "own_key"}).Draw(t, "token")
			if !free(3) {
				q.TokenKind = "fresh"
			}
			if c.NoCSRF && q.TokenKind != "none" && q.TokenKind != "garbage" {
				q.TokenKind = "none" // the token endpoint is off
			}
			switch q.TokenKind {
			case "fresh":
				q.token = fetchToken()
			case "superseded":
				q.token = fetchToken()
				_ = fetchToken()
			case "expired":
				tok, err := skyapi.VerifNewCSRFTokenWithTime(time.Now().Add(-time.Duration(rapid.IntRange(1, 3600).Draw(t, "ago")) * time.Second))
				if err != nil {
					t.Fatal(err)
				}
				q.token = tok
			case "garbage":
				q.token = rapid.SampledFrom([]string{"x", "a.b", "....", "e30.e30", "!!!.???"}).Draw(t, "garb")
			case "truncated":
				tok := fetchToken()
				q.token = tok[:rapid.IntRange(1, len(tok)-1).Draw(t, "cut")]
			case "foreignsig":
				a, b := fetchToken(), fetchToken()
				q.token = a[:strings.Index(a, ".")] + b[strings.Index(b, "."):]
			case "edited":
				tok := fetchToken()
				parts := strings.Split(tok, ".")
				raw, _ := base64.RawURLEncoding.DecodeString(parts[0])
				var m map[string]interface{}
				_ = json.Unmarshal(raw, &m)
				m["ExpiresAt"] = time.Now().Add(24 * time.Hour).Format(time.RFC3339Nano)
				nb, _ := json.Marshal(m)
				q.token = base64.RawURLEncoding.EncodeToString(nb) + "." + parts[1]
			case "threeparts":
				q.token = fetchToken() + ".x"
			case "own_key":
				// a well-formed, unexpired token that somebody else signed: with no key at all, with a key of zeros, with
				// a guessable key - the node's key is random per process, so none of them can be the right one
				tj, _ := json.Marshal(map[string]interface{}{"Nonce": base64.StdEncoding.EncodeToString(rapid.SliceOfN(rapid.Byte(), 64, 64).Draw(t, "nonce")), "ExpiresAt": time.Now().Add(20 * time.Second).Format(time.RFC3339Nano)})
				key := rapid.SampledFrom([][]byte{nil, {}, make([]byte, 64), make([]byte, 32), []byte("secret"), []byte("skycoin")}).Draw(t, "forgery_key")
				mac := hmac.New(sha256.New, key)
				mac.Write(tj)
				q.token = base64.RawURLEncoding.EncodeToString(tj) + "." + base64.RawURLEncoding.EncodeToString(mac.Sum(nil))
			}
			// credentials
			q.CredKind = rapid.SampledFrom([]string{"none", "exact", "exact", "exact", "wrongpass", "wronguser", "shiftleft", "shiftright", "emptypair", "malformed", "swapped"}).Draw(t, "credkind")
			if !free(4) {
				q.CredKind = "exact"
			}
			switch q.CredKind {
			case "exact":
				if c.User != "" || c.Pass != "" {
					q.authHeader = basic(c.User, c.Pass)
				} else {
					q.CredKind = "none"
				}
			case "wrongpass":
				q.authHeader = basic(c.User, c.Pass+"x")
			case "wronguser":
				q.authHeader = basic(c.User+"x", c.Pass)
			case "shiftleft": // last character of the user name moves to the front of the password
				if len(c.User) > 0 {
					q.authHeader = basic(c.User[:len(c.User)-1], c.User[len(c.User)-1:]+c.Pass)
				} else {
					q.CredKind = "none"
				}
			case "shiftright":
				if len(c.Pass) > 0 {
					q.authHeader = basic(c.User+c.Pass[:1], c.Pass[1:])
				} else {
					q.CredKind = "none"
				}
			case "emptypair":
				q.authHeader = basic("", "")
			case "malformed":
				q.authHeader = rapid.SampledFrom([]string{"Basic", "Basic !!!", "Bearer abc", "Basic " + base64.StdEncoding.EncodeToString([]byte("nocolon"))}).Draw(t, "badauth")
			case "swapped":
				q.authHeader = basic(c.Pass, c.User)
			}
			q.ContentType = rapid.SampledFrom([]string{"application/json", "application/json", "application/json; charset=utf-8", "application/x-www-form-urlencoded", "", "text/plain"}).Draw(t, "ct")
			q.WithGoodInput = rapid.IntRange(0, 3).Draw(t, "goodinput") > 0

			// ---------------- build the request
			url := "http://" + c.Host + q.Path
			var body string
			if q.WithGoodInput {
				if rt.v2 && q.Method != "GET" {
					body = rt.body
				} else if q.Method == "GET" || q.Method == "DELETE" || q.Method == "HEAD" {
					if rt.query != "" {
						url += "?" + rt.query
					}
				} else if !rt.v2 {
					body = rt.query
				}
			}
			req := httptest.NewRequest(q.Method, url, strings.NewReader(body))
			req.Host = q.HostHdr
			if q.Origin != "" {
				req.Header.Set("Origin", q.Origin)
			}
			if q.Referer != "" {
				req.Header.Set("Referer", q.Referer)
			}
			if q.token != "" {
				req.Header.Set("X-CSRF-Token", q.token)
			}
			if q.authHeader != "" {
				req.Header.Set("Authorization", q.authHeader)
			}
			ct := q.ContentType
			if !rt.v2 && body != "" && rapid.Bool().Draw(t, "formct") {
				ct = "application/x-www-form-urlencoded"
			}
			if ct != "" {
				req.Header.Set("Content-Type", ct)
			}

			// ---------------- the model
			var failing []refusal
			lenient := map[int]bool{}
			// credentials
			pu, pp, presented := parseBasic(q.authHeader)
			if c.User != "" || c.Pass != "" {
				if !presented || pu != c.User || pp != c.Pass {
					failing = append(failing, refusal{"credentials", 401, ""})
				}
			} else if presented && (pu != "" || pp != "") {
				lenient[401] = true
			}
			if rt.v2 && q.Method == "POST" && !(ct == "application/json" || strings.HasPrefix(ct, "application/json;")) {
				lenient[415] = true
			}
			if !c.NoHeaderCheck {
				if isLoopbackHost(c.Host) && q.HostHdr != "" && !okHosts[q.HostHdr] {
					failing = append(failing, refusal{"host", 403, "Invalid Host"})
				}
				chk := q.Origin
				if chk == "" {
					chk = q.Referer
				}
				if chk != "" {
					h, parsed := originHost(chk)
					if !parsed {
						failing = append(failing, refusal{"origin", 403, "Invalid URL in Origin or Referer header"})
					} else if !originOK[h] {
						failing = append(failing, refusal{"origin", 403, "Invalid Origin or Referer"})
					}
				}
			}
			excluded := false
			if rt.path != "/api/v1/csrf" && !c.NoCSRF && (q.Method == "POST" || q.Method == "PUT" || q.Method == "DELETE") {
				switch q.TokenKind {
				case "fresh":
				case "superseded":
					// documented: "Requesting a CSRF token invalidates any previous CSRF token"
					if oldTokenKnown {
						excluded = true // known finding csrf-superseded-token: judged by TestC27_SupersededToken only
					} else {
						failing = append(failing, refusal{"token", 403, ""})
					}
				default:
					failing = append(failing, refusal{"token", 403, ""})
				}
			}
			registered := rt.methods != nil
			if registered {
				sets, served := rt.methods[q.Method]
				if !served {
					failing = append(failing, refusal{"method", 405, ""})
				} else {
					on := false
					for _, s := range sets {
						if _, ok := enabled[s]; ok {
							on = true
						}
					}
					if !on {
						failing = append(failing, refusal{"apiset", 403, "Endpoint is disabled"})
					}
				}
			}

			before := gw.hits
			var w *httptest.ResponseRecorder
			if p := catch(func() { w = serve(req) }); p != nil {
				t.Fatalf("panic while serving %s %s: %v", q.Method, q.Path, p)
			}
			hits := gw.hits - before
			bodyText := w.Body.String()
			desc := func() string {
				return fmt.Sprintf("config %+v\n request %+v token=%q auth=%q content-type=%q\n response %d %q\n model: failing=%v lenient=%v gateway hits=%d", c, q, q.token, q.authHeader, ct, w.Code, trim(bodyText, 200), failing, lenient, hits)
			}
			if excluded {
				r.Count("excluded_known_superseded_token")
			}
			isMwRefusal := func() bool {
				switch w.Code {
				case 401:
					return true
				case 405:
					return registered
				case 403:
					for _, m := range mwMessages {
						if strings.Contains(bodyText, m) {
							return true
						}
					}
				}
				return false
			}
			if len(failing) > 0 {
				if hits != 0 {
					t.Fatalf("a request that must be refused (%s) reached the endpoint logic (gateway called %d times)\n%s", failing[0].check, hits, desc())
				}
				ok := lenient[w.Code]
				for _, f := range failing {
					if f.status == w.Code && (f.msg == "" || strings.Contains(bodyText, f.msg)) {
						ok = true
					}
				}
				if !ok {
					t.Fatalf("a request that must be refused was not answered with the documented refusal\n%s", desc())
				}
			} else if !excluded {
				if isMwRefusal() && !lenient[w.Code] {
					t.Fatalf("a request that satisfies every documented condition was refused by access control\n%s", desc())
				}
				if registered && q.WithGoodInput && hits > 0 {
					r.Count("admitted_reached_gateway")
				}
			}
			nt := !excluded && registered && len(failing) <= 1
			r.CaseS(nt, fmt.Sprintf("%+v|%+v|%s", c, q, ct))
			switch {
			case excluded:
			case len(failing) == 0:
				r.Count("admitted")
			case len(failing) == 1:
				r.Count("refused_by_exactly_" + failing[0].check)
			default:
				r.Count("refused_by_several")
			}
			r.Count("token_" + q.TokenKind)
			r.Count("cred_" + q.CredKind)
			if r.WantSample(nt) {
				chk := []string{}
				for _, f := range failing {
					chk = append(chk, f.check)
				}
				r.Sample(nt, map[string]interface{}{"config": c, "request": q, "status": w.Code, "model_failing_checks": chk, "gateway_hits": hits})
			}
		}
	})
}

// TestC27_SupersededToken probes the documented sentence "Requesting a CSRF token invalidates any previous CSRF token".
func TestC27_SupersededToken(t *testing.T) {
	r := ev.Get("C27")
	gw := &stubGW{}
	enabled := map[string]struct{}{sRead: {}, sWallet: {}}
	mux := skyapi.VerifNewServerMux("127.0.0.1:6420", skyapi.Config{EnabledAPISets: enabled}, gw)
	tok := func() string {
		w := httptest.NewRecorder()
		mux.ServeHTTP(w, httptest.NewRequest("GET", "http://127.0.0.1:6420/api/v1/csrf", nil))
		var m map[string]string
		_ = json.Unmarshal(w.Body.Bytes(), &m)
		return m["csrf_token"]
	}
	old := tok()
	_ = tok()
	req := httptest.NewRequest("POST", "http://127.0.0.1:6420/api/v1/wallet/unload", strings.NewReader("id=w.wlt"))
	req.Header.Set("Content-Type", "application/x-www-form-urlencoded")
	req.Header.Set("X-CSRF-Token", old)
	w := httptest.NewRecorder()
	mux.ServeHTTP(w, req)
	r.Count("superseded_token_probe")
	if w.Code == 403 && gw.hits == 0 {
		return // earlier tokens are invalidated: the documented behaviour
	}
	if hx.IsKnown("C27", "csrf-superseded-token") {
		hx.ReportKnown("C27", "csrf-superseded-token")
		return
	}
	t.Fatalf("a token issued before a newer token was requested is still accepted for a state-changing request (status %d, gateway hits %d); documentation: requesting a token invalidates any previous token", w.Code, gw.hits)
}

func catch(f func()) (p interface{}) {
	defer func() { p = recover() }()
	f()
	return nil
}

func trim(s string, n int) string {
	if len(s) > n {
		return s[:n]
	}
	return s
}

// parseBasic is an independent reading of RFC 7617: "Basic " + base64(user ":" password), split at the first colon
func parseBasic(h string) (user, pass string, ok bool) {
	const p = "basic "
	if len(h) < len(p) || strings.ToLower(h[:len(p)]) != p {
		return "", "", false
	}
	b, err := base64.StdEncoding.DecodeString(h[len(p):])
	if err != nil {
		return "", "", false
	}
	i := strings.IndexByte(string(b), ':')
	if i < 0 {
		return "", "", false
	}
	return string(b[:i]), string(b[i+1:]), true
}

// originHost gives the authority of the header values this generator produces (all are of a known shape)
func originHost(v string) (host string, parsed bool) {
	switch v {
	case "http://[::1", "%zz", "http://a b/":
		return "", false
	case "null", "localhost", "/relative/path":
		return "", true
	}
	for _, p := range []string{"http://", "https://"} {
		if strings.HasPrefix(v, p) {
			rest := v[len(p):]
			if i := strings.IndexAny(rest, "/?"); i >= 0 {
				rest = rest[:i]
			}
			return rest, true
		}
	}
	return "", true
}
