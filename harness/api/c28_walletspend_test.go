package api

import (
	"bytes"
	"encoding/json"
	"fmt"
	"net/http/httptest"
	"testing"

	"pgregory.net/rapid"

	"verif/harness/internal/ev"
	"verif/harness/internal/hx"
)

// TestC28_WalletSpends: well-formed spend requests to POST /api/v1/wallet/transaction for every wallet the node holds -
// deterministic, bip44, encrypted, collection and watch-only (xpub) - signed and unsigned, with the right, a wrong, a
// missing or a superfluous password.  The general request generator reaches this endpoint, but rarely with a request
// that gets as far as signing; here every request is valid apart from what the wallet can do.  Oracle of C28: an answer
// (never a panic, a hang or a dropped connection), and the node still answers afterwards.
func TestC28_WalletSpends(t *testing.T) {
	r := ev.Get("C28")
	r.Rule("wallet spends: POST /api/v1/wallet/transaction with a valid request (1-2 receivers, amounts within the wallet's balance, automatic or manual hours, optional change address, all wallet addresses or a named subset) for each wallet of the node {deterministic, bip44, encrypted deterministic, collection, watch-only xpub, unknown id} x {signed, unsigned} x password {right, wrong, none, superfluous}; oracle: a well-formed HTTP answer with status 200-599 and a JSON body, no panic, no hang, and /health still answers; a signed spend from a wallet that holds its keys and got the right password is answered 200; non-trivial = the wallet cannot sign (watch-only, wrong or missing password) or the request is answered 200; distinct by request body")
	tm, err := getTemplate()
	if err != nil {
		setupFailed(t, "node template: %v", err)
	}
	n, err := startNode(tm)
	if err != nil {
		setupFailed(t, "node start: %v", err)
	}
	defer n.stop()
	hx.Check(t, "C28", 80, 4000, func(t *rapid.T) {
		wid := rapid.SampledFrom([]string{"det.wlt", "bip.wlt", "enc.wlt", "col.wlt", "xpub.wlt", "xpub.wlt", "nosuch.wlt"}).Draw(t, "wallet")
		unsigned := rapid.Bool().Draw(t, "unsigned")
		pwKind := rapid.SampledFrom([]string{"fitting", "fitting", "fitting", "wrong", "none", "superfluous"}).Draw(t, "password")
		password := ""
		switch pwKind {
		case "fitting":
			if wid == "enc.wlt" && !unsigned {
				password = c28Password
			}
		case "wrong":
			password = "wrong"
		case "superfluous":
			password = c28Password
		}
		nTo := rapid.IntRange(1, 2).Draw(t, "nto")
		var to []map[string]string
		auto := rapid.Bool().Draw(t, "auto")
		for i := 0; i < nTo; i++ {
			rc := map[string]string{"address": c28Users[(i+1)%3].Addr.String(), "coins": fmt.Sprintf("%d.%03d", rapid.IntRange(0, 3).Draw(t, "coins"), rapid.IntRange(1, 999).Draw(t, "milli"))}
			if !auto {
				rc["hours"] = fmt.Sprint(rapid.IntRange(0, 50).Draw(t, "hours"))
			}
			to = append(to, rc)
		}
		hs := map[string]string{"type": "manual"}
		if auto {
			hs = map[string]string{"type": "auto", "mode": "share", "share_factor": rapid.SampledFrom([]string{"0", "0.5", "1"}).Draw(t, "share")}
		}
		body := map[string]interface{}{"wallet_id": wid, "unsigned": unsigned, "hours_selection": hs, "to": to, "ignore_unconfirmed": rapid.Bool().Draw(t, "ignore")}
		if password != "" {
			body["password"] = password
		}
		if rapid.IntRange(0, 3).Draw(t, "change") == 2 {
			body["change_address"] = c28Users[0].Addr.String()
		}
		raw, _ := json.Marshal(body)
		req := httptest.NewRequest("POST", "http://127.0.0.1:6420/api/v1/wallet/transaction", bytes.NewReader(raw))
		req.Header.Set("Content-Type", "application/json")
		s := n.serve(req, 0)
		if s.hung {
			t.Fatalf("the request did not return: %s", raw)
		}
		if s.pan != nil {
			t.Fatalf("handler panicked: %v\n request: POST /api/v1/wallet/transaction %s", s.pan, raw)
		}
		if s.code < 200 || s.code > 599 {
			t.Fatalf("status %d\n request: %s", s.code, raw)
		}
		h := n.serve(httptest.NewRequest("GET", "http://127.0.0.1:6420/api/v1/health", nil), 0)
		if h.hung || h.pan != nil || h.code != 200 {
			t.Fatalf("after the request the node no longer answers /api/v1/health (hung=%v panic=%v status=%d)\n request: %s", h.hung, h.pan, h.code, raw)
		}
		canSign := wid == "det.wlt" || wid == "bip.wlt" || wid == "col.wlt" || wid == "enc.wlt"
		pwFits := (wid == "enc.wlt" && password == c28Password) || (wid != "enc.wlt" && password == "")
		if !unsigned && canSign && pwFits && s.code != 200 {
			// (balances of the template wallets are far above 8 coins; the only pooled spends are of user outputs)
			if !bytes.Contains(s.body, []byte("unconfirmed")) && !bytes.Contains(s.body, []byte("pending")) && !bytes.Contains(s.body, []byte("duplicate")) {
				t.Fatalf("a valid signed spend from %s with the fitting password was answered %d %s\n request: %s", wid, s.code, trim(string(s.body), 300), raw)
			}
		}
		nt := s.code == 200 || wid == "xpub.wlt" || !pwFits
		r.CaseS(nt, "walletspend/"+string(raw))
		r.Count(fmt.Sprintf("wallet_spend_%s_unsigned=%v_%d", wid, unsigned, s.code))
		if r.WantSample(nt) {
			r.Sample(nt, map[string]interface{}{"request": trim(string(raw), 500), "status": s.code, "answer": trim(string(s.body), 160)})
		}
	})
}

// TestC28_SignRequests: POST /api/v2/wallet/transaction/sign for every wallet with every encoded transaction the node
// offers - confirmed, pooled, spendable, unsigned, and transactions over real outputs whose signature array is shorter
// or longer than their inputs or empty - with and without index lists.  The wallet id and the password fit, so that the
// request gets as far as the wallet; what is wrong (if anything) is the transaction.
func TestC28_SignRequests(t *testing.T) {
	r := ev.Get("C28")
	tm, err := getTemplate()
	if err != nil {
		setupFailed(t, "node template: %v", err)
	}
	n, err := startNode(tm)
	if err != nil {
		setupFailed(t, "node start: %v", err)
	}
	defer n.stop()
	hx.Check(t, "C28", 120, 6000, func(t *rapid.T) {
		c := &c28Ctx{t: t, n: n, tm: tm}
		c.collectLive()
		wid := rapid.SampledFrom([]string{"det.wlt", "bip.wlt", "enc.wlt", "col.wlt", "xpub.wlt"}).Draw(t, "wallet")
		raws := append([]string{tm.spendableHex, tm.spentTxnHex, tm.unsignedHex}, c.rawtxs...)
		raw := raws[rapid.IntRange(0, len(raws)-1).Draw(t, "rawtx")]
		body := map[string]interface{}{"wallet_id": wid, "encoded_transaction": raw}
		if wid == "enc.wlt" {
			body["password"] = c28Password
		}
		switch rapid.IntRange(0, 3).Draw(t, "indexes") {
		case 1:
			body["sign_indexes"] = []int{0}
		case 2:
			body["sign_indexes"] = []int{}
		case 3:
			body["sign_indexes"] = []int{1, 0}
		}
		rb, _ := json.Marshal(body)
		req := httptest.NewRequest("POST", "http://127.0.0.1:6420/api/v2/wallet/transaction/sign", bytes.NewReader(rb))
		req.Header.Set("Content-Type", "application/json")
		s := n.serve(req, 0)
		if s.hung {
			t.Fatalf("the request did not return: %s", trim(string(rb), 600))
		}
		if s.pan != nil {
			t.Fatalf("handler panicked: %v\n request: POST /api/v2/wallet/transaction/sign %s", s.pan, trim(string(rb), 900))
		}
		if s.code < 200 || s.code > 599 || !json.Valid(s.body) {
			t.Fatalf("status %d body %q\n request: %s", s.code, trim(string(s.body), 200), trim(string(rb), 600))
		}
		h := n.serve(httptest.NewRequest("GET", "http://127.0.0.1:6420/api/v1/health", nil), 0)
		if h.hung || h.pan != nil || h.code != 200 {
			t.Fatalf("after the request the node no longer answers /api/v1/health\n request: %s", trim(string(rb), 600))
		}
		nt := s.code != 200
		r.CaseS(nt, "signreq/"+wid+"/"+raw[:minLen(len(raw), 80)]+fmt.Sprint(body["sign_indexes"]))
		r.Count(fmt.Sprintf("sign_request_%d", s.code))
	})
}

func minLen(a, b int) int {
	if a < b {
		return a
	}
	return b
}
