package net

import (
	"fmt"
	"reflect"
	"sort"
	"strings"
	"testing"

	"pgregory.net/rapid"

	"github.com/skycoin/skycoin/src/daemon"

	"verif/harness/internal/ev"
	"verif/harness/internal/hx"
)

const ruleC24 = "rapid state machine over daemon.Connections with 3 IPs x 3 ports (9 addresses), mirror values {0,1,2}, reported listen ports {0,6000,6001}, fresh connection ids plus deliberately wrong / zero ids; actions: outgoing attempt (pending), connect, introduce, remove with right or wrong id, remove-all; model = set of live connections; after every action the five bookkeeping maps must equal what the model derives (per-IP counts without zero entries, IP+mirror registry only for introduced connections, id map for connected/introduced ones, listen-address map) and each action's success must equal the model's legality; non-trivial = history had two connections on one IP, an introduce with mirror 0 or listen port 0, and a removal of a never-introduced connection; distinct by action list"

type mconn struct {
	state      string // pending, connected, introduced
	outgoing   bool
	mirror     uint32
	listenPort uint16
	gnetID     uint64
}

type connModel struct {
	conns map[string]*mconn
}

func ipOf(addr string) string { return addr[:strings.LastIndex(addr, ":")] }

func portOf(addr string) uint16 {
	var p int
	fmt.Sscanf(addr[strings.LastIndex(addr, ":")+1:], "%d", &p)
	return uint16(p)
}

func (m *connModel) listenAddr(addr string, c *mconn) string {
	if c.listenPort == 0 {
		return ""
	}
	return fmt.Sprintf("%s:%d", ipOf(addr), c.listenPort)
}

// derive computes the expected bookkeeping maps from the live connection set.
func (m *connModel) derive() daemon.VerifConnSnapshot {
	s := daemon.VerifConnSnapshot{
		Conns: map[string]daemon.VerifConn{}, Mirrors: map[uint32]map[string]uint16{}, IPCounts: map[string]int{},
		GnetIDs: map[uint64]string{}, ListenAddrs: map[string][]string{},
	}
	for addr, c := range m.conns {
		s.Conns[addr] = daemon.VerifConn{Addr: addr, State: daemon.ConnectionState(c.state), Outgoing: c.outgoing, Mirror: c.mirror, ListenPort: c.listenPort, GnetID: c.gnetID}
		s.IPCounts[ipOf(addr)]++
		if c.state == "introduced" {
			if s.Mirrors[c.mirror] == nil {
				s.Mirrors[c.mirror] = map[string]uint16{}
			}
			s.Mirrors[c.mirror][ipOf(addr)] = c.listenPort
		}
		if c.gnetID != 0 {
			s.GnetIDs[c.gnetID] = addr
		}
		if c.outgoing {
			s.ListenAddrs[addr] = append(s.ListenAddrs[addr], addr)
		} else if c.state == "introduced" && c.listenPort != 0 {
			la := m.listenAddr(addr, c)
			s.ListenAddrs[la] = append(s.ListenAddrs[la], addr)
		}
	}
	return s
}

func normSnap(s daemon.VerifConnSnapshot) daemon.VerifConnSnapshot {
	for k := range s.ListenAddrs {
		sort.Strings(s.ListenAddrs[k])
	}
	return s
}

func diffSnap(got, want daemon.VerifConnSnapshot) string {
	got, want = normSnap(got), normSnap(want)
	var d []string
	if !reflect.DeepEqual(got.Conns, want.Conns) {
		d = append(d, fmt.Sprintf("conns: got %v want %v", got.Conns, want.Conns))
	}
	if !reflect.DeepEqual(got.Mirrors, want.Mirrors) {
		d = append(d, fmt.Sprintf("mirrors: got %v want %v", got.Mirrors, want.Mirrors))
	}
	if !reflect.DeepEqual(got.IPCounts, want.IPCounts) {
		d = append(d, fmt.Sprintf("ipCounts: got %v want %v", got.IPCounts, want.IPCounts))
	}
	if !reflect.DeepEqual(got.GnetIDs, want.GnetIDs) {
		d = append(d, fmt.Sprintf("gnetIDs: got %v want %v", got.GnetIDs, want.GnetIDs))
	}
	if !reflect.DeepEqual(got.ListenAddrs, want.ListenAddrs) {
		d = append(d, fmt.Sprintf("listenAddrs: got %v want %v", got.ListenAddrs, want.ListenAddrs))
	}
	return strings.Join(d, "\n   ")
}

func TestC24_Connections(t *testing.T) {
	r := ev.Get("C24")
	r.Rule(ruleC24)
	r.Assume("connection ids handed to 'connect' are fresh, as gnet allocates them; the addresses are well-formed ip:port strings")
	var addrs []string
	for _, ip := range []string{"10.0.0.1", "10.0.0.2", "192.168.7.7"} {
		for _, p := range []int{6000, 6001, 40000} {
			addrs = append(addrs, fmt.Sprintf("%s:%d", ip, p))
		}
	}
	hx.Check(t, "C24", 3000, 200000, func(t *rapid.T) {
		c := daemon.NewConnections()
		m := &connModel{conns: map[string]*mconn{}}
		nextID := uint64(1)
		var hist []string
		sawTwoOnIP, sawZeroIntro, sawRemoveUnintroduced := false, false, false
		check := func(action string, err error, wantOK bool) {
			hist = append(hist, fmt.Sprintf("%s -> %v", action, err))
			if wantOK != (err == nil) {
				t.Fatalf("%s: err=%v but the model says legal=%v\n history:\n  %s", action, err, wantOK, strings.Join(hist, "\n  "))
			}
			if d := diffSnap(c.VerifSnapshot(), m.derive()); d != "" {
				t.Fatalf("bookkeeping differs from the live connection set after %s:\n   %s\n history:\n  %s", action, d, strings.Join(hist, "\n  "))
			}
			for _, n := range m.derive().IPCounts {
				if n >= 2 {
					sawTwoOnIP = true
				}
			}
		}
		pickID := func(t *rapid.T, addr string) uint64 {
			// mostly the right id, sometimes a wrong / zero / another connection's id
			right := uint64(0)
			if mc := m.conns[addr]; mc != nil {
				right = mc.gnetID
			}
			switch rapid.IntRange(0, 9).Draw(t, "idmode") {
			case 0:
				return 0
			case 1:
				return right + 1000
			case 2:
				for _, o := range m.conns {
					if o.gnetID != 0 && o.gnetID != right {
						return o.gnetID
					}
				}
			}
			return right
		}
		t.Repeat(map[string]func(*rapid.T){
			"pending": func(t *rapid.T) {
				a := rapid.SampledFrom(addrs).Draw(t, "addr")
				_, exists := m.conns[a]
				err := c.VerifPending(a)
				if !exists {
					m.conns[a] = &mconn{state: "pending", outgoing: true, listenPort: portOf(a)}
				}
				check("pending("+a+")", err, !exists)
			},
			"connected": func(t *rapid.T) {
				a := rapid.SampledFrom(addrs).Draw(t, "addr")
				id := nextID
				nextID++
				if rapid.IntRange(0, 9).Draw(t, "zero") == 0 {
					id = 0
				}
				mc := m.conns[a]
				ok := id != 0 && (mc == nil || mc.state == "pending")
				err := c.VerifConnected(a, id)
				if ok {
					if mc == nil {
						mc = &mconn{}
						m.conns[a] = mc
					}
					mc.state, mc.gnetID = "connected", id
				}
				check(fmt.Sprintf("connected(%s,%d)", a, id), err, ok)
			},
			"introduced": func(t *rapid.T) {
				a := rapid.SampledFrom(addrs).Draw(t, "addr")
				id := pickID(t, a)
				mirror := uint32(rapid.IntRange(0, 2).Draw(t, "mirror"))
				lp := rapid.SampledFrom([]uint16{0, 6000, 6001}).Draw(t, "listen")
				mc := m.conns[a]
				ok := id != 0 && mc != nil && mc.state == "connected" && mc.gnetID == id
				if ok {
					for oa, o := range m.conns {
						if o.state == "introduced" && o.mirror == mirror && ipOf(oa) == ipOf(a) {
							ok = false
						}
					}
				}
				err := c.VerifIntroduced(a, id, mirror, lp)
				if ok {
					mc.state, mc.mirror = "introduced", mirror
					if !mc.outgoing {
						mc.listenPort = lp
					}
					if mirror == 0 || mc.listenPort == 0 {
						sawZeroIntro = true
					}
				}
				check(fmt.Sprintf("introduced(%s,%d,mirror=%d,listen=%d)", a, id, mirror, lp), err, ok)
			},
			"remove": func(t *rapid.T) {
				a := rapid.SampledFrom(addrs).Draw(t, "addr")
				id := pickID(t, a)
				mc := m.conns[a]
				ok := mc != nil && mc.gnetID == id
				err := c.VerifRemove(a, id)
				if ok {
					if mc.state != "introduced" {
						sawRemoveUnintroduced = true
					}
					delete(m.conns, a)
				}
				check(fmt.Sprintf("remove(%s,%d)", a, id), err, ok)
			},
			"remove_all": func(t *rapid.T) {
				if len(m.conns) == 0 {
					t.Skip("nothing to remove")
				}
				var keys []string
				for a := range m.conns {
					keys = append(keys, a)
				}
				sort.Strings(keys)
				for _, a := range keys {
					id := m.conns[a].gnetID
					err := c.VerifRemove(a, id)
					delete(m.conns, a)
					check(fmt.Sprintf("remove(%s,%d) [remove_all]", a, id), err, true)
				}
				s := c.VerifSnapshot()
				if len(s.Conns)+len(s.Mirrors)+len(s.IPCounts)+len(s.GnetIDs)+len(s.ListenAddrs) != 0 {
					t.Fatalf("maps not empty after removing every connection: %+v\n history:\n  %s", s, strings.Join(hist, "\n  "))
				}
			},
		})
		nt := sawTwoOnIP && sawZeroIntro && sawRemoveUnintroduced
		r.CaseS(nt, strings.Join(hist, ";"))
		if r.WantSample(nt) && len(hist) < 40 {
			r.Sample(nt, map[string]interface{}{"kind": "connection_history", "actions": hist})
		}
	})
}
