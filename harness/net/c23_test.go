package net

import (
	"fmt"
	"reflect"
	"testing"

	"pgregory.net/rapid"

	"github.com/skycoin/skycoin/src/cipher"
	"github.com/skycoin/skycoin/src/coin"
	"github.com/skycoin/skycoin/src/daemon"
	"github.com/skycoin/skycoin/src/daemon/gnet"
	"github.com/skycoin/skycoin/src/daemon/pex"

	"verif/harness/internal/ev"
	"verif/harness/internal/gen"
	"verif/harness/internal/hx"
	"verif/harness/internal/ref/enc"
)

const ruleC23 = "item lists for the four truncating constructors (peers: 0-600 valid ip:port strings; hashes: 0-300; blocks: 0-140 signed blocks with 0-3 transactions of varied shape; transactions: 0-300 with 1-4 inputs/outputs) and a maximum length drawn from {12..2^20 uniformly, the exact framed size of k items +-9 for a random k, header size 12..20}; oracle: the framed message (length prefix + id + body, what sendMessage measures) is <= the maximum, the kept items are a prefix of the request, and one more requested item would exceed the maximum or the documented item cap (512/256/128/256); sizes computed with the independent reference encoder; non-trivial = truncation by the byte limit happened; distinct by (kind, item sizes, max)"

const framing = 8 // 4-byte length prefix + 4-byte message id

func framedLen(m gnet.Message) (int, error) {
	b, err := gnet.EncodeMessage(m)
	return len(b), err
}

type truncCase struct {
	kind     string
	build    func(max uint64) gnet.Message
	itemSize []int // reference-encoded size of every requested item
	cap      int
	kept     func(m gnet.Message) int
	prefixOK func(m gnet.Message) bool
}

func genTruncCase(t *rapid.T) truncCase {
	kind := rapid.SampledFrom([]string{"peers", "announce_txns", "get_txns", "give_blocks", "give_txns"}).Draw(t, "kind")
	switch kind {
	case "peers":
		n := rapid.IntRange(0, 600).Draw(t, "n")
		peers := make([]pex.Peer, n)
		for i := range peers {
			peers[i] = pex.Peer{Addr: fmt.Sprintf("%d.%d.%d.%d:%d", 1+i%200, (i/7)%256, i%256, 1+i%250, 1024+i)}
		}
		return truncCase{kind: kind, cap: 512, itemSize: constSizes(n, 6),
			build: func(max uint64) gnet.Message { return daemon.NewGivePeersMessage(peers, max) },
			kept:  func(m gnet.Message) int { return len(m.(*daemon.GivePeersMessage).Peers) },
			prefixOK: func(m gnet.Message) bool {
				for i, p := range m.(*daemon.GivePeersMessage).Peers {
					if p.String() != peers[i].Addr {
						return false
					}
				}
				return true
			}}
	case "announce_txns", "get_txns":
		n := rapid.IntRange(0, 300).Draw(t, "n")
		hs := make([]cipher.SHA256, n)
		for i := range hs {
			hs[i][0], hs[i][1], hs[i][31] = byte(i), byte(i>>8), 1
		}
		build := func(max uint64) gnet.Message { return daemon.NewAnnounceTxnsMessage(hs, max) }
		get := func(m gnet.Message) []cipher.SHA256 { return m.(*daemon.AnnounceTxnsMessage).Transactions }
		if kind == "get_txns" {
			build = func(max uint64) gnet.Message { return daemon.NewGetTxnsMessage(hs, max) }
			get = func(m gnet.Message) []cipher.SHA256 { return m.(*daemon.GetTxnsMessage).Transactions }
		}
		return truncCase{kind: kind, cap: 256, itemSize: constSizes(n, 32), build: build,
			kept: func(m gnet.Message) int { return len(get(m)) },
			prefixOK: func(m gnet.Message) bool {
				for i, h := range get(m) {
					if h != hs[i] {
						return false
					}
				}
				return true
			}}
	case "give_txns":
		n := rapid.IntRange(0, 300).Draw(t, "n")
		txns := make([]coin.Transaction, n)
		sz := make([]int, n)
		shape := rapid.SliceOfN(rapid.IntRange(0, 15), 1, 8).Draw(t, "shapes")
		for i := range txns {
			txns[i] = shapedTxn(shape[i%len(shape)], i)
			sz[i] = len(enc.Encode(&txns[i]))
		}
		return truncCase{kind: kind, cap: 256, itemSize: sz,
			build: func(max uint64) gnet.Message { return daemon.NewGiveTxnsMessage(txns, max) },
			kept:  func(m gnet.Message) int { return len(m.(*daemon.GiveTxnsMessage).Transactions) },
			prefixOK: func(m gnet.Message) bool {
				for i := range m.(*daemon.GiveTxnsMessage).Transactions {
					if !reflect.DeepEqual(m.(*daemon.GiveTxnsMessage).Transactions[i], txns[i]) {
						return false
					}
				}
				return true
			}}
	default:
		n := rapid.IntRange(0, 140).Draw(t, "n")
		blocks := make([]coin.SignedBlock, n)
		sz := make([]int, n)
		shape := rapid.SliceOfN(rapid.IntRange(0, 63), 1, 6).Draw(t, "shapes")
		for i := range blocks {
			s := shape[i%len(shape)]
			for j := 0; j < s%4; j++ {
				blocks[i].Body.Transactions = append(blocks[i].Body.Transactions, shapedTxn(s/4, i*4+j))
			}
			blocks[i].Head.BkSeq = uint64(i)
			sz[i] = len(enc.Encode(&blocks[i]))
		}
		return truncCase{kind: kind, cap: 128, itemSize: sz,
			build: func(max uint64) gnet.Message { return daemon.NewGiveBlocksMessage(blocks, max) },
			kept:  func(m gnet.Message) int { return len(m.(*daemon.GiveBlocksMessage).Blocks) },
			prefixOK: func(m gnet.Message) bool {
				for i := range m.(*daemon.GiveBlocksMessage).Blocks {
					if !reflect.DeepEqual(m.(*daemon.GiveBlocksMessage).Blocks[i], blocks[i]) {
						return false
					}
				}
				return true
			}}
	}
}

func constSizes(n, s int) []int {
	out := make([]int, n)
	for i := range out {
		out[i] = s
	}
	return out
}

// shapedTxn builds a transaction with 1-4 inputs and 1-4 outputs (content is irrelevant for sizes).
func shapedTxn(shape, salt int) coin.Transaction {
	var tx coin.Transaction
	nin, nout := 1+shape%4, 1+(shape/4)%4
	for i := 0; i < nin; i++ {
		var h cipher.SHA256
		h[0], h[1], h[2] = byte(salt), byte(salt>>8), byte(i)
		tx.In = append(tx.In, h)
		tx.Sigs = append(tx.Sigs, cipher.Sig{})
	}
	for i := 0; i < nout; i++ {
		tx.Out = append(tx.Out, coin.TransactionOutput{Address: gen.KeyN(0).Addr, Coins: uint64(1 + i), Hours: uint64(salt)})
	}
	return tx
}

func TestC23_Truncation(t *testing.T) {
	r := ev.Get("C23")
	r.Rule(ruleC23)
	r.Assume("the limit is the one sendMessage enforces: len(EncodeMessage(m)) <= MaxOutgoingMessageLength; maximum lengths start at the size of an empty framed message (12)")
	hx.Check(t, "C23", 4000, 300000, func(t *rapid.T) {
		c := genTruncCase(t)
		// cumulative framed size with k items
		cum := make([]int, len(c.itemSize)+1)
		cum[0] = framing + 4
		for i, s := range c.itemSize {
			cum[i+1] = cum[i] + s
		}
		var max int
		switch rapid.IntRange(0, 3).Draw(t, "maxmode") {
		case 0:
			max = rapid.IntRange(12, 1<<20).Draw(t, "max")
		case 1, 2:
			k := rapid.IntRange(0, len(c.itemSize)).Draw(t, "k")
			max = cum[k] + rapid.IntRange(-9, 9).Draw(t, "off")
		default:
			max = rapid.IntRange(12, 20).Draw(t, "max")
		}
		if max < 12 {
			max = 12
		}
		var m gnet.Message
		if p := call(func() { m = c.build(uint64(max)) }); p != nil {
			t.Fatalf("%s constructor panicked with max=%d and %d items: %v", c.kind, max, len(c.itemSize), p)
		}
		n, err := framedLen(m)
		if err != nil {
			t.Fatalf("%s: EncodeMessage failed: %v", c.kind, err)
		}
		kept := c.kept(m)
		if n != cum[kept] {
			t.Fatalf("%s: harness size model wrong: framed %d, model %d for %d items", c.kind, n, cum[kept], kept)
		}
		if n > max {
			t.Fatalf("%s: message with %d of %d items is %d bytes framed, maximum %d (sendMessage would refuse it)", c.kind, kept, len(c.itemSize), n, max)
		}
		if !c.prefixOK(m) {
			t.Fatalf("%s: kept items are not a prefix of the request", c.kind)
		}
		limit := len(c.itemSize)
		if limit > c.cap {
			limit = c.cap
		}
		if kept > limit {
			t.Fatalf("%s: kept %d items, cap %d, requested %d", c.kind, kept, c.cap, len(c.itemSize))
		}
		truncatedByBytes := false
		if kept < limit {
			truncatedByBytes = true
			if cum[kept+1] <= max {
				t.Fatalf("%s: kept %d items (%d bytes) but %d items would still fit: %d <= %d", c.kind, kept, n, kept+1, cum[kept+1], max)
			}
		}
		r.Count("kind_" + c.kind)
		if truncatedByBytes {
			r.Count("truncated_by_bytes")
		}
		if kept == c.cap && len(c.itemSize) > c.cap {
			r.Count("truncated_by_cap")
		}
		r.CaseS(truncatedByBytes, fmt.Sprintf("%s/%v/%d", c.kind, c.itemSize, max))
		if r.WantSample(truncatedByBytes) {
			r.Sample(truncatedByBytes, map[string]interface{}{"kind": c.kind, "requested_items": len(c.itemSize), "kept": kept, "max": max, "framed_bytes": n})
		}
	})
}
