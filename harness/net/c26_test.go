package net

import (
	"fmt"
	"os"
	"path/filepath"
	"regexp"
	"sort"
	"strconv"
	"strings"
	"sync"
	"testing"
	"time"

	"pgregory.net/rapid"

	"github.com/skycoin/skycoin/src/daemon/pex"

	"verif/harness/internal/ev"
	"verif/harness/internal/hx"
)

const ruleC26 = "rapid state machine over pex.Pex (Max in {0 = unbounded, 3, 8}, localhost allowed or not, 0-2 trusted default peers): stop + start on the same data directory with the loopback setting redrawn, AddPeer / AddPeers with address strings from {valid pool of 14, whitespace-laden, ports 0/1023/1024/65535/65536, multicast, broadcast, unspecified, link-local, loopback, IPv6 forms, host names, malformed}, RemovePeer, trust, retry increments, ageing of last-seen times by up to 30 days followed by the stale-peer pass; oracle: every stored address passes an independent ip:port predicate (dotted IPv4, not unspecified/broadcast/multicast/link-local, loopback only when allowed, 1024 <= port <= 65535), bulk additions never grow the list beyond max(Max, size before), trusted peers are present until explicitly removed; non-trivial = history in which the list reached Max (or has >= 6 peers when unbounded) with a trusted peer present and an ageing pass ran; distinct by action list"

var peerAddrRe = regexp.MustCompile(`^(\d{1,3})\.(\d{1,3})\.(\d{1,3})\.(\d{1,3}):(\d{1,5})$`)

// validPeerAddr is the independent statement of "ip:port with a global unicast IPv4 address
// (or loopback when allowed) and a port of at least 1024".
func validPeerAddr(s string, allowLoopback bool) bool {
	m := peerAddrRe.FindStringSubmatch(s)
	if m == nil {
		return false
	}
	var o [4]int
	for i := 0; i < 4; i++ {
		if len(m[i+1]) > 1 && m[i+1][0] == '0' {
			return false // no octal-looking octets
		}
		v, _ := strconv.Atoi(m[i+1])
		if v > 255 {
			return false
		}
		o[i] = v
	}
	port, _ := strconv.Atoi(m[5])
	if port < 1024 || port > 65535 {
		return false
	}
	switch {
	case o[0] == 127:
		return allowLoopback
	case o[0] == 0 && o[1] == 0 && o[2] == 0 && o[3] == 0:
		return false
	case o[0] == 255 && o[1] == 255 && o[2] == 255 && o[3] == 255:
		return false
	case o[0] >= 224 && o[0] <= 239:
		return false
	case o[0] == 169 && o[1] == 254:
		return false
	}
	return true
}

var validPool = []string{
	"1.2.3.4:6000", "1.2.3.4:6001", "8.8.8.8:1024", "8.8.4.4:65535", "10.0.0.1:6000", "172.16.5.5:7000", "192.168.1.1:6000",
	"44.33.22.11:30000", "99.1.1.1:6000", "100.100.100.100:8000", "203.0.113.9:6000", "198.51.100.7:6000", "5.6.7.8:20000", "240.1.1.1:6000",
}

var hostilePool = []string{
	"1.2.3.4:0", "1.2.3.4:1023", "1.2.3.4:65536", "1.2.3.4:99999", "1.2.3.4:-1", "1.2.3.4:+6000", "1.2.3.4:", ":6000", "1.2.3.4", "",
	"224.0.0.1:6000", "239.255.255.255:6000", "255.255.255.255:6000", "0.0.0.0:6000", "169.254.1.1:6000", "127.0.0.1:6000", "127.5.5.5:7000",
	"[::1]:6000", "::1:6000", "[2001:db8::1]:6000", "2001:db8::1:6000", "::ffff:1.2.3.4:6000", "example.com:6000", "localhost:6000",
	"1.2.3:6000", "1.2.3.4.5:6000", "256.1.1.1:6000", "1.2.3.4:6000:1", "1.2.3.4:60 00x", "١.٢.٣.٤:6000", "1.2.3.4:６０００", "01.2.3.4:6000",
	" 1.2.3.4 : 6002 ", "\t9.9.9.9:6000\n", "1.2.3.4:6000\x00", "1.2.3.4:06000",
	// bracketed hosts (the URL spelling of a literal address) are not ip:port
	"[1.2.3.4]:6000", "[34.12.56.78]:6000", "[::ffff:34.12.56.78]:6000", "[8.8.8.8]:1024", "[1.2.3.4]:6000]", "[[1.2.3.4]]:6000",
}

func TestC26_PeerList(t *testing.T) {
	r := ev.Get("C26")
	r.Rule(ruleC26)
	r.Assume("time-dependent rules (eviction of peers not seen for a day, stale-peer removal) are driven by rewriting LastSeen through the verif hook, not by waiting")
	hx.Check(t, "C26", 1500, 100000, func(t *rapid.T) {
		dir := hx.TempDir("pex")
		defer os.RemoveAll(dir)
		cfg := pex.NewConfig()
		cfg.DataDirectory = dir
		cfg.Max = rapid.SampledFrom([]int{0, 3, 8}).Draw(t, "max")
		cfg.AllowLocalhost = rapid.Bool().Draw(t, "localhost")
		cfg.NetworkDisabled = true
		nTrusted := rapid.IntRange(0, 2).Draw(t, "ntrusted")
		cfg.DefaultConnections = append([]string(nil), validPool[:nTrusted]...)
		px, err := pex.New(cfg)
		if err != nil {
			t.Fatalf("pex.New: %v", err)
		}
		trusted := map[string]bool{}
		for _, a := range cfg.DefaultConnections {
			trusted[a] = true
		}
		var hist []string
		reachedMax, aged, restarted := false, false, false
		_ = restarted
		genAddr := func(t *rapid.T) string {
			if rapid.IntRange(0, 2).Draw(t, "hostile") == 0 {
				return rapid.SampledFrom(hostilePool).Draw(t, "haddr")
			}
			a := rapid.SampledFrom(validPool).Draw(t, "addr")
			if rapid.IntRange(0, 5).Draw(t, "ws") == 0 {
				a = " " + a[:3] + "\t" + a[3:] + "\n"
			}
			return a
		}
		snapshot := func() map[string]pex.Peer {
			out := map[string]pex.Peer{}
			for _, p := range px.VerifPeers() {
				out[p.Addr] = p
			}
			return out
		}
		invariant := func(action string, before map[string]pex.Peer, bulk bool) {
			now := snapshot()
			for a := range now {
				if !validPeerAddr(a, cfg.AllowLocalhost) {
					t.Fatalf("peer list contains %q after %s (allowLocalhost=%v)\n history: %v", a, action, cfg.AllowLocalhost, hist)
				}
			}
			for a := range trusted {
				if _, ok := now[a]; !ok {
					t.Fatalf("trusted peer %s disappeared after %s\n history: %v", a, action, hist)
				}
				if !now[a].Trusted {
					t.Fatalf("peer %s lost its trusted flag after %s", a, action)
				}
			}
			if bulk && cfg.Max > 0 {
				limit := cfg.Max
				if len(before) > limit {
					limit = len(before)
				}
				if len(now) > limit {
					t.Fatalf("bulk addition grew the list to %d peers (Max %d, before %d)\n history: %v", len(now), cfg.Max, len(before), hist)
				}
			}
			if (cfg.Max > 0 && len(now) >= cfg.Max || cfg.Max == 0 && len(now) >= 6) && len(trusted) > 0 {
				reachedMax = true
			}
		}
		t.Repeat(map[string]func(*rapid.T){
			"AddPeer": func(t *rapid.T) {
				a := genAddr(t)
				before := snapshot()
				err := px.AddPeer(a)
				hist = append(hist, fmt.Sprintf("AddPeer(%q)=%v", a, err))
				clean := strings.Join(strings.Fields(a), "")
				okAddr := validPeerAddr(clean, cfg.AllowLocalhost)
				switch {
				case !okAddr && err == nil:
					// an address that is not valid was accepted: the invariant below names it if it was stored
					if _, stored := snapshot()[clean]; stored {
						t.Fatalf("AddPeer(%q) stored an invalid address", a)
					}
				case okAddr && err != nil && err != pex.ErrPeerlistFull:
					t.Fatalf("AddPeer(%q) refused a valid address: %v", a, err)
				case okAddr && err == nil:
					if _, stored := snapshot()[clean]; !stored {
						t.Fatalf("AddPeer(%q) returned nil but the peer is not in the list", a)
					}
				}
				if err != nil {
					now := snapshot()
					if len(now) != len(before) {
						t.Fatalf("failed AddPeer(%q) changed the list size %d -> %d", a, len(before), len(now))
					}
				}
				invariant("AddPeer", before, false)
			},
			"AddPeers": func(t *rapid.T) {
				n := rapid.IntRange(0, 12).Draw(t, "n")
				var as []string
				for i := 0; i < n; i++ {
					as = append(as, genAddr(t))
				}
				before := snapshot()
				got := px.AddPeers(as)
				hist = append(hist, fmt.Sprintf("AddPeers(%q)=%d", as, got))
				invariant("AddPeers", before, true)
			},
			"ConcurrentAddPeers": func(t *rapid.T) {
				// several peers answer a peer request at the same moment: bulk additions that overlap in time must respect
				// the maximum together, not each for itself
				if cfg.Max == 0 {
					t.Skip("no maximum configured")
				}
				workers := rapid.IntRange(2, 4).Draw(t, "workers")
				base := rapid.IntRange(0, 200).Draw(t, "base")
				before := snapshot()
				var wg sync.WaitGroup
				start := make(chan struct{})
				for w := 0; w < workers; w++ {
					var as []string
					for i := 0; i < 300; i++ {
						as = append(as, fmt.Sprintf("11.%d.%d.%d:6000", base, w, i%250+1))
					}
					wg.Add(1)
					go func(as []string) {
						defer wg.Done()
						<-start
						px.AddPeers(as)
					}(as)
				}
				close(start)
				wg.Wait()
				hist = append(hist, fmt.Sprintf("%d overlapping AddPeers of 300 addresses", workers))
				invariant("overlapping AddPeers", before, true)
			},
			"Restart": func(t *rapid.T) {
				// the node stops (the list is saved), and starts again on the same data directory, possibly with the
				// loopback setting changed: the invariant speaks about the list, however it was filled
				before := snapshot()
				done := make(chan error, 1)
				go func() { done <- px.Run() }()
				px.Shutdown()
				<-done
				cfg.AllowLocalhost = rapid.Bool().Draw(t, "localhost_after_restart")
				np, err := pex.New(cfg)
				if err == pex.ErrPeerlistFull {
					// observed, not judged here (the property is about the content of the list): a saved list that is
					// full of fresh peers and lacks a configured default peer makes pex.New fail
					r.Count("restart_refused_peer_list_full")
					np, err = nil, nil
					os.Remove(filepath.Join(dir, pex.PeerCacheFilename))
					np, err = pex.New(cfg)
				}
				if err != nil {
					t.Fatalf("pex.New after restart: %v", err)
				}
				px = np
				// only the configured default peers are trusted after a start
				trusted = map[string]bool{}
				for _, a := range cfg.DefaultConnections {
					trusted[a] = true
				}
				hist = append(hist, fmt.Sprintf("Restart(allowLocalhost=%v)", cfg.AllowLocalhost))
				restarted = true
				invariant("Restart", before, false)
			},
			"RemovePeer": func(t *rapid.T) {
				a := rapid.SampledFrom(validPool).Draw(t, "addr")
				before := snapshot()
				px.RemovePeer(a)
				delete(trusted, a)
				hist = append(hist, "RemovePeer("+a+")")
				invariant("RemovePeer", before, false)
			},
			"Trust": func(t *rapid.T) {
				cur := snapshot()
				if len(cur) == 0 {
					t.Skip("no peers")
				}
				var keys []string
				for a := range cur {
					keys = append(keys, a)
				}
				sort.Strings(keys)
				a := rapid.SampledFrom(keys).Draw(t, "addr")
				if err := px.VerifSetTrusted(a); err != nil {
					t.Fatalf("setTrusted(%s): %v", a, err)
				}
				trusted[a] = true
				hist = append(hist, "Trust("+a+")")
				invariant("Trust", cur, false)
			},
			"Retry": func(t *rapid.T) {
				a := rapid.SampledFrom(validPool).Draw(t, "addr")
				before := snapshot()
				for i := rapid.IntRange(1, 12).Draw(t, "times"); i > 0; i-- {
					px.IncreaseRetryTimes(a)
				}
				hist = append(hist, "Retry("+a+")")
				invariant("Retry", before, false)
			},
			"AgeAndClear": func(t *rapid.T) {
				cur := snapshot()
				var keys []string
				for a := range cur {
					keys = append(keys, a)
				}
				sort.Strings(keys)
				now := time.Now().UTC().Unix()
				for _, a := range keys {
					if rapid.Bool().Draw(t, "age") {
						px.VerifSetLastSeen(a, now-int64(rapid.IntRange(0, 30*24*3600).Draw(t, "secs")))
					}
				}
				px.VerifClearOld(cfg.Expiration)
				aged = true
				hist = append(hist, "AgeAndClear")
				invariant("AgeAndClear", cur, false)
			},
		})
		nt := reachedMax && aged
		if restarted {
			r.Count("histories_with_restart")
		}
		r.CaseS(nt, strings.Join(hist, ";"))
		if r.WantSample(nt) && len(hist) < 30 {
			r.Sample(nt, map[string]interface{}{"kind": "peer_history", "max": cfg.Max, "allow_localhost": cfg.AllowLocalhost, "actions": hist})
		}
	})
}

// TestC26_Validate runs the address predicate differential on single strings (exhaustive over the pools plus edits).
func TestC26_Validate(t *testing.T) {
	r := ev.Get("C26")
	r.Rule(ruleC26)
	hx.Check(t, "C26", 4000, 200000, func(t *rapid.T) {
		base := rapid.SampledFrom(append(append([]string{}, validPool...), hostilePool...)).Draw(t, "base")
		s := base
		if rapid.Bool().Draw(t, "edit") && len(s) > 0 {
			rs := []rune(s)
			pos := rapid.IntRange(0, len(rs)-1).Draw(t, "pos")
			rs[pos] = rapid.SampledFrom([]rune("0123456789.: -+x[]")).Draw(t, "ch")
			s = string(rs)
		}
		allow := rapid.Bool().Draw(t, "localhost")
		cfg := pex.NewConfig()
		cfg.DataDirectory = hx.TempDir("pexv")
		defer os.RemoveAll(cfg.DataDirectory)
		cfg.AllowLocalhost = allow
		cfg.NetworkDisabled = true
		px, err := pex.New(cfg)
		if err != nil {
			t.Fatal(err)
		}
		aerr := px.AddPeer(s)
		clean := strings.Join(strings.Fields(s), "")
		want := validPeerAddr(clean, allow)
		if want != (aerr == nil) {
			t.Fatalf("AddPeer(%q) err=%v but the independent predicate says valid=%v (allowLocalhost=%v)", s, aerr, want, allow)
		}
		peers := px.VerifPeers()
		if want && (len(peers) != 1 || peers[0].Addr != clean) {
			t.Fatalf("AddPeer(%q) stored %v, want [%s]", s, peers, clean)
		}
		if !want && len(peers) != 0 {
			t.Fatalf("AddPeer(%q) stored %v", s, peers)
		}
		r.CaseS(s != base || !want, fmt.Sprintf("v/%s/%v", s, allow))
	})
}
