package net

import (
	"bytes"
	"encoding/binary"
	"encoding/hex"
	"fmt"
	"reflect"
	"strings"
	"testing"

	"pgregory.net/rapid"

	"github.com/skycoin/skycoin/src/daemon/gnet"

	"verif/harness/internal/ev"
	"verif/harness/internal/hx"
	"verif/harness/internal/ref/enc"
)

const ruleC22 = "sequences of 1-12 of the 12 registered wire messages with reflection-generated bodies, framed with EncodeMessage and concatenated; chunkings drawn from {all-in-one, 1-byte chunks, random cut points, a cut inside a length prefix, a cut inside the message id, a cut right after k complete frames plus a partial one}; each chunk is appended to the connection buffer and decoded as the read loop does, with a handler that keeps up or lags 1, 2, 5 or 31 messages behind (framed messages wait in the receive queue while later reads are written into the buffer and must not change); hostile streams: a valid stream with one frame replaced by {length 0..3, length > max, unknown id, body truncated, body extended, id truncated} or random bytes; oracle: delivered messages == sent messages in order (same type, same encoding), buffer empty at the end; hostile frame => one of the documented disconnect errors (a body with trailing bytes or cut short must disconnect, for every message type including the empty-bodied ones), otherwise possibly a decode, nothing delivered out of order or altered, never a panic; non-trivial = some chunk ends with >=1 complete frame followed by a partial frame, or the stream is hostile; distinct by (stream, chunking)"

var disconnectErrs = map[error]bool{
	gnet.ErrDisconnectInvalidMessageLength:   true,
	gnet.ErrDisconnectMalformedMessage:       true,
	gnet.ErrDisconnectUnknownMessage:         true,
	gnet.ErrDisconnectMessageDecodeUnderflow: true,
	gnet.ErrDisconnectTruncatedMessageID:     true,
}

type delivered struct {
	typ  string
	body []byte // reference encoding of the decoded message
}

// feed pushes chunks through Buffer + decodeData + convertToMessage exactly like readLoop/receiveMessage.
func feed(chunks [][]byte, maxLen int) (out []delivered, rest int, err error, panicMsg string) {
	return feedQueued(chunks, maxLen, 0)
}

// feedQueued is the receive loop with a handler that lags behind: the framed messages returned by decodeData wait in a
// queue (the connection's receive queue holds up to 32) while further reads are written into the buffer, and are only
// converted once `lag` newer messages have arrived (lag 0 = converted at once).  The bytes of a queued message must
// not change while it waits.
func feedQueued(chunks [][]byte, maxLen int, lag int) (out []delivered, rest int, err error, panicMsg string) {
	buf := &bytes.Buffer{}
	var queue [][]byte
	convert := func(d []byte) (error, string) {
		var m gnet.Message
		var cerr error
		if p := call(func() { m, cerr = gnet.VerifConvertToMessage(1, d) }); p != nil {
			return nil, fmt.Sprintf("convertToMessage panicked: %v", p)
		}
		if cerr != nil {
			return cerr, ""
		}
		out = append(out, delivered{typ: reflect.TypeOf(m).Elem().Name(), body: enc.Encode(m)})
		return nil, ""
	}
	drain := func(keep int) (error, string) {
		for len(queue) > keep {
			d := queue[0]
			queue = queue[1:]
			if e, p := convert(d); e != nil || p != "" {
				return e, p
			}
		}
		return nil, ""
	}
	for _, ch := range chunks {
		buf.Write(ch)
		var datas [][]byte
		var derr error
		if p := call(func() { datas, derr = gnet.VerifDecodeData(buf, maxLen) }); p != nil {
			return out, buf.Len(), nil, fmt.Sprintf("decodeData panicked: %v", p)
		}
		if derr != nil {
			if e, p := drain(0); e != nil || p != "" {
				return out, buf.Len(), e, p
			}
			return out, buf.Len(), derr, ""
		}
		if lag > 0 {
			queue = append(queue, datas...)
			if len(queue) > 32 {
				lag = 0 // the real queue is bounded: from here on the handler keeps up
			}
			if e, p := drain(lag); e != nil || p != "" {
				return out, buf.Len(), e, p
			}
			continue
		}
		if e, p := drain(0); e != nil || p != "" {
			return out, buf.Len(), e, p
		}
		for _, d := range datas {
			var m gnet.Message
			var cerr error
			if p := call(func() { m, cerr = gnet.VerifConvertToMessage(1, d) }); p != nil {
				return out, buf.Len(), nil, fmt.Sprintf("convertToMessage panicked: %v", p)
			}
			if cerr != nil {
				return out, buf.Len(), cerr, ""
			}
			out = append(out, delivered{typ: reflect.TypeOf(m).Elem().Name(), body: enc.Encode(m)})
		}
	}
	if e, p := drain(0); e != nil || p != "" {
		return out, buf.Len(), e, p
	}
	return out, buf.Len(), nil, ""
}

// frameBounds returns the end offset of every frame in the stream.
func chunkStream(t *rapid.T, stream []byte, ends []int) ([][]byte, string) {
	mode := rapid.SampledFrom([]string{"all", "bytes", "random", "in_prefix", "in_id", "complete_plus_partial", "complete_plus_partial", "frame_by_frame"}).Draw(t, "chunking")
	cutSet := map[int]bool{}
	switch mode {
	case "all":
	case "bytes":
		if len(stream) <= 600 {
			for i := 1; i < len(stream); i++ {
				cutSet[i] = true
			}
		} else {
			mode = "random"
		}
	case "frame_by_frame":
		for _, e := range ends {
			cutSet[e] = true
		}
	case "in_prefix", "in_id", "complete_plus_partial":
		// choose a frame k>=1 (so that complete frames precede it) and cut inside it
		k := 0
		if len(ends) > 1 {
			k = rapid.IntRange(1, len(ends)-1).Draw(t, "frame")
		}
		start := 0
		if k > 0 {
			start = ends[k-1]
		}
		var off int
		switch mode {
		case "in_prefix":
			off = rapid.IntRange(1, 3).Draw(t, "off")
		case "in_id":
			off = rapid.IntRange(5, 7).Draw(t, "off")
		default:
			off = rapid.IntRange(1, ends[k]-start-1).Draw(t, "off")
		}
		if start+off < len(stream) {
			cutSet[start+off] = true
		}
		// the chunk before this cut should start at an earlier frame boundary (or 0) so that it holds complete frames + a partial one
		if k >= 2 && rapid.Bool().Draw(t, "earlier") {
			cutSet[ends[rapid.IntRange(0, k-2).Draw(t, "from")]] = true
		}
	}
	if mode == "random" {
		n := rapid.IntRange(1, 8).Draw(t, "ncuts")
		for i := 0; i < n && len(stream) > 1; i++ {
			cutSet[rapid.IntRange(1, len(stream)-1).Draw(t, "cut")] = true
		}
	}
	var chunks [][]byte
	prev := 0
	for i := 1; i < len(stream); i++ {
		if cutSet[i] {
			chunks = append(chunks, stream[prev:i])
			prev = i
		}
	}
	chunks = append(chunks, stream[prev:])
	return chunks, mode
}

// partialAfterComplete: does some chunk boundary leave >=1 complete frame followed by a partial frame in the buffer?
func partialAfterComplete(chunks [][]byte, ends []int) bool {
	pos := 0
	consumed := 0 // end of the last frame fully delivered
	for _, ch := range chunks {
		pos += len(ch)
		complete := 0
		last := consumed
		for _, e := range ends {
			if e > consumed && e <= pos {
				complete++
				last = e
			}
		}
		if complete >= 1 && pos > last && pos-last > 4 {
			return true
		}
		consumed = last
	}
	return false
}

func TestC22_Framing(t *testing.T) {
	r := ev.Get("C22")
	r.Rule(ruleC22)
	r.Assume("the read loop is modelled as: append chunk to the connection buffer, decodeData, convertToMessage for every returned frame (pool.go readLoop/receiveMessage); bursts are small enough for the receive queue")
	hx.Check(t, "C22", 3000, 200000, func(t *rapid.T) {
		n := rapid.IntRange(1, 12).Draw(t, "nmsgs")
		var want []delivered
		var stream []byte
		var ends []int
		maxFrame := 0
		for i := 0; i < n; i++ {
			m, name := genMessageEncodable(t)
			b, err := gnet.EncodeMessage(m)
			if err != nil {
				t.Fatalf("EncodeMessage(%s): %v", name, err)
			}
			if got := binary.LittleEndian.Uint32(b); int(got) != len(b)-4 {
				t.Fatalf("EncodeMessage(%s): length prefix %d for %d bytes", name, got, len(b))
			}
			stream = append(stream, b...)
			ends = append(ends, len(stream))
			if len(b) > maxFrame {
				maxFrame = len(b)
			}
			want = append(want, delivered{typ: reflect.TypeOf(m).Elem().Name(), body: enc.Encode(m)})
		}
		chunks, mode := chunkStream(t, stream, ends)
		maxLen := maxFrame + rapid.IntRange(0, 100).Draw(t, "slack")
		lag := rapid.SampledFrom([]int{0, 0, 1, 2, 5, 31}).Draw(t, "handler_lag")
		got, rest, err, pm := feedQueued(chunks, maxLen, lag)
		if lag > 0 {
			r.Count("lagging_handler")
		}
		if pm != "" {
			t.Fatalf("%s\n stream=%x", pm, stream)
		}
		if err != nil {
			t.Fatalf("valid stream refused: %v (chunking %s, %d chunks, handler lag %d)\n stream=%x", err, mode, len(chunks), lag, stream)
		}
		if len(got) != len(want) {
			t.Fatalf("sent %d messages, %d delivered (chunking %s, chunk sizes %v, frame ends %v)", len(want), len(got), mode, sizes(chunks), ends)
		}
		for i := range want {
			if got[i].typ != want[i].typ || !bytes.Equal(got[i].body, want[i].body) {
				t.Fatalf("message %d differs (handler lag %d, chunk sizes %v): sent %s %x, delivered %s %x", i, lag, sizes(chunks), want[i].typ, want[i].body, got[i].typ, got[i].body)
			}
		}
		if rest != 0 {
			t.Fatalf("%d bytes left in the buffer after a complete stream", rest)
		}
		nt := partialAfterComplete(chunks, ends)
		r.Count("chunking_" + mode)
		if nt {
			r.Count("complete_frames_followed_by_partial")
		}
		key := append(append([]byte{}, stream...), []byte(fmt.Sprint(sizes(chunks)))...)
		r.Case(nt, key)
		if r.WantSample(nt) && len(stream) < 400 {
			r.Sample(nt, map[string]interface{}{"kind": "framing", "messages": typesOf(want), "chunk_sizes": sizes(chunks), "frame_ends": ends, "stream": hex.EncodeToString(stream)})
		}
	})
}

func genMessageEncodable(t *rapid.T) (gnet.Message, string) {
	mt := rapid.SampledFrom(msgTypes).Draw(t, "msgtype")
	m := mt.mk()
	f := &fillerMaxOnly{}
	f.fill(t, m)
	return m, mt.name
}

func sizes(chunks [][]byte) []int {
	out := make([]int, len(chunks))
	for i, c := range chunks {
		out[i] = len(c)
	}
	return out
}

func typesOf(d []delivered) []string {
	out := make([]string, len(d))
	for i := range d {
		out[i] = d[i].typ
	}
	return out
}

func TestC22_Hostile(t *testing.T) {
	r := ev.Get("C22")
	r.Rule(ruleC22)
	hx.Check(t, "C22", 3000, 200000, func(t *rapid.T) {
		n := rapid.IntRange(1, 6).Draw(t, "nmsgs")
		bad := rapid.IntRange(0, n-1).Draw(t, "bad")
		maxLen := 4096
		var stream []byte
		var want []delivered
		class := rapid.SampledFrom([]string{"short_length", "over_max", "unknown_id", "body_truncated", "body_extended", "id_truncated", "random_frame", "garbage_stream"}).Draw(t, "hostile")
		expectLenErr := false
		idCollides := false
		bodyCut := false
		overAt, overBy := -1, uint32(0)
		for i := 0; i < n; i++ {
			m, _ := genMessageEncodable(t)
			b, err := gnet.EncodeMessage(m)
			if err != nil {
				t.Fatal(err)
			}
			if len(b) > maxLen {
				maxLen = len(b)
			}
			if i != bad {
				stream = append(stream, b...)
				if i < bad {
					want = append(want, delivered{typ: reflect.TypeOf(m).Elem().Name(), body: enc.Encode(m)})
				}
				continue
			}
			body := append([]byte(nil), b[8:]...)
			id := append([]byte(nil), b[4:8]...)
			frame := func(id, body []byte) []byte {
				out := make([]byte, 4)
				binary.LittleEndian.PutUint32(out, uint32(len(id)+len(body)))
				return append(append(out, id...), body...)
			}
			switch class {
			case "short_length":
				f := make([]byte, 4)
				binary.LittleEndian.PutUint32(f, uint32(rapid.IntRange(0, 3).Draw(t, "len")))
				stream = append(stream, append(f, rapid.SliceOfN(rapid.Byte(), 4, 12).Draw(t, "tail")...)...)
				expectLenErr = true
			case "over_max":
				f := make([]byte, 4)
				overBy = rapid.SampledFrom([]uint32{1, 2, 101, 0x7fffffff, 0x80000000, 0xffffffff}).Draw(t, "over")
				overAt = len(stream)
				stream = append(stream, append(f, rapid.SliceOfN(rapid.Byte(), 4, 12).Draw(t, "tail")...)...)
				expectLenErr = true
			case "unknown_id":
				id[rapid.IntRange(0, 3).Draw(t, "pos")] ^= byte(1 + rapid.IntRange(0, 254).Draw(t, "x"))
				var pfx gnet.MessagePrefix
				copy(pfx[:], id)
				if _, ok := gnet.MessageIDReverseMap[pfx]; ok {
					idCollides = true // the edit produced another registered id (GETP/GETB/GETT ...)
				}
				stream = append(stream, frame(id, body)...)
			case "body_truncated":
				if len(body) > 0 {
					body = body[:rapid.IntRange(0, len(body)-1).Draw(t, "keep")]
					// (a message whose last field is tagged omitempty has proper prefixes that are complete encodings
					// themselves - the introduction without its optional part; only the other types must fail)
					bodyCut = !hasOmitEmpty(m)
				}
				stream = append(stream, frame(id, body)...)
			case "body_extended":
				body = append(body, rapid.SliceOfN(rapid.Byte(), 1, 9).Draw(t, "extra")...)
				stream = append(stream, frame(id, body)...)
			case "id_truncated":
				// cannot be framed with length < 4 (that is the short_length class): a frame of exactly the id
				stream = append(stream, frame(id, nil)...)
			case "random_frame":
				stream = append(stream, frame(id, rapid.SliceOfN(rapid.Byte(), 0, 60).Draw(t, "rb"))...)
			default:
				stream = append(stream, rapid.SliceOfN(rapid.Byte(), 5, 80).Draw(t, "garbage")...)
			}
		}
		if overAt >= 0 {
			// the over-long prefix is written once the limit is known (the limit is the longest well-formed frame of the stream)
			v := uint64(maxLen) + uint64(overBy)
			if v > 0xffffffff || overBy >= 0x7fffffff {
				v = uint64(overBy)
				if v <= uint64(maxLen) {
					v = 0xffffffff
				}
			}
			binary.LittleEndian.PutUint32(stream[overAt:], uint32(v))
		}
		chunks := [][]byte{stream}
		if rapid.Bool().Draw(t, "split") && len(stream) > 2 {
			c := rapid.IntRange(1, len(stream)-1).Draw(t, "cut")
			chunks = [][]byte{stream[:c], stream[c:]}
		}
		got, _, err, pm := feed(chunks, maxLen)
		if pm != "" {
			t.Fatalf("%s\n class=%s stream=%x", pm, class, stream)
		}
		if err != nil && !disconnectErrs[err] {
			t.Fatalf("hostile stream [%s] ended with an undocumented error %T %v\n stream=%x", class, err, err, stream)
		}
		if expectLenErr && err != gnet.ErrDisconnectInvalidMessageLength {
			t.Fatalf("frame with an invalid length [%s] gave %v, want ErrDisconnectInvalidMessageLength\n stream=%x", class, err, stream)
		}
		// whatever was delivered must be a prefix of the well-formed messages that precede the hostile frame
		// (frames that share a read with the hostile one may be dropped together with the connection)
		for i := range got {
			if i >= len(want) {
				break
			}
			if got[i].typ != want[i].typ || !bytes.Equal(got[i].body, want[i].body) {
				t.Fatalf("[%s] message %d before the hostile frame was altered", class, i)
			}
		}
		if expectLenErr && len(got) > len(want) {
			t.Fatalf("[%s] %d messages delivered but only %d precede the invalid length", class, len(got), len(want))
		}
		if class == "body_extended" && err == nil {
			t.Fatalf("a frame whose body carries trailing bytes after a complete message was accepted (%d messages delivered, no disconnect)\n stream=%x", len(got), stream)
		}
		if class == "body_truncated" && bodyCut && err == nil {
			t.Fatalf("a frame whose body is a proper prefix of a message encoding was accepted (%d messages delivered, no disconnect)\n stream=%x", len(got), stream)
		}
		if (class == "body_extended" || (class == "body_truncated" && bodyCut)) && len(got) > len(want) {
			t.Fatalf("[%s] %d messages delivered but only %d precede the malformed frame\n stream=%x", class, len(got), len(want), stream)
		}
		if class == "unknown_id" && !idCollides && err != gnet.ErrDisconnectUnknownMessage {
			t.Fatalf("unknown message id gave %v\n stream=%x", err, stream)
		}
		r.Count("hostile_" + class)
		if err == nil {
			r.Count("hostile_decoded_anyway")
		}
		r.Case(true, append([]byte(class+"/"), stream...))
		if r.WantSample(true) && len(stream) < 300 {
			r.Sample(true, map[string]interface{}{"kind": "hostile", "class": class, "stream": hex.EncodeToString(stream), "result": fmt.Sprint(err), "delivered": len(got)})
		}
	})
}

// FuzzC22_Stream: arbitrary bytes through the receive path; only documented errors, no panic,
// and whatever is delivered re-frames to a prefix of the input.
func FuzzC22_Stream(f *testing.F) {
	f.Add([]byte{4, 0, 0, 0, 'P', 'I', 'N', 'G'})
	f.Add([]byte{4, 0, 0, 0, 'G', 'E', 'T', 'P', 12, 0, 0, 0, 'A', 'N', 'N', 'B', 1, 2, 3, 4, 5, 6, 7, 8})
	f.Add([]byte{0, 0, 0, 0, 0})
	f.Add([]byte{0xff, 0xff, 0xff, 0xff, 0})
	f.Fuzz(func(t *testing.T, b []byte) {
		cut := 0
		if len(b) > 0 {
			cut = int(b[0]) % (len(b) + 1)
		}
		_, _, err, pm := feed([][]byte{b[:cut], b[cut:]}, 1<<16)
		if pm != "" {
			t.Fatal(pm)
		}
		if err != nil && !disconnectErrs[err] {
			t.Fatalf("undocumented error %v", err)
		}
	})
}

// hasOmitEmpty: does the message struct carry a field tagged enc:",omitempty"?
func hasOmitEmpty(m interface{}) bool {
	tp := reflect.TypeOf(m)
	for tp.Kind() == reflect.Ptr {
		tp = tp.Elem()
	}
	for i := 0; i < tp.NumField(); i++ {
		if strings.Contains(tp.Field(i).Tag.Get("enc"), "omitempty") {
			return true
		}
	}
	return false
}
