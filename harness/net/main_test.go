package net

import (
	"fmt"
	"reflect"
	"testing"

	"pgregory.net/rapid"

	"github.com/skycoin/skycoin/src/daemon"
	"github.com/skycoin/skycoin/src/daemon/gnet"

	"verif/harness/internal/gen"
	"verif/harness/internal/hx"
)

func TestMain(m *testing.M) {
	mc := daemon.NewMessagesConfig()
	mc.Register()
	hx.Main(m)
}

func call(f func()) (p interface{}) {
	defer func() { p = recover() }()
	f()
	return nil
}

func errf(format string, a ...interface{}) error { return fmt.Errorf(format, a...) }

// message constructors for all 12 registered wire messages
var msgTypes = []struct {
	name string
	mk   func() gnet.Message
}{
	{"INTR", func() gnet.Message { return &daemon.IntroductionMessage{} }},
	{"GETP", func() gnet.Message { return &daemon.GetPeersMessage{} }},
	{"GIVP", func() gnet.Message { return &daemon.GivePeersMessage{} }},
	{"PING", func() gnet.Message { return &daemon.PingMessage{} }},
	{"PONG", func() gnet.Message { return &daemon.PongMessage{} }},
	{"GETB", func() gnet.Message { return &daemon.GetBlocksMessage{} }},
	{"GIVB", func() gnet.Message { return &daemon.GiveBlocksMessage{} }},
	{"ANNB", func() gnet.Message { return &daemon.AnnounceBlocksMessage{} }},
	{"GETT", func() gnet.Message { return &daemon.GetTxnsMessage{} }},
	{"GIVT", func() gnet.Message { return &daemon.GiveTxnsMessage{} }},
	{"ANNT", func() gnet.Message { return &daemon.AnnounceTxnsMessage{} }},
	{"DISC", func() gnet.Message { return &daemon.DisconnectMessage{} }},
}

// genMessage draws one wire message with a generated body.
func genMessage(t *rapid.T) (gnet.Message, string) {
	mt := rapid.SampledFrom(msgTypes).Draw(t, "msgtype")
	m := mt.mk()
	f := &gen.Filler{T: t, Budget: 12}
	f.Fill(reflect.ValueOf(m).Elem(), 0)
	return m, mt.name
}

type fillerMaxOnly struct{}

// fill generates a body that the generated encoder accepts (slice lengths never above maxlen).
func (fillerMaxOnly) fill(t *rapid.T, m gnet.Message) {
	f := &gen.Filler{T: t, Budget: 12, MaxOnly: true}
	f.Fill(reflect.ValueOf(m).Elem(), 0)
}
