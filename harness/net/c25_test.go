package net

import (
	"encoding/binary"
	"encoding/hex"
	"fmt"
	"testing"

	"github.com/sirupsen/logrus"
	"pgregory.net/rapid"

	"github.com/skycoin/skycoin/src/cipher"
	"github.com/skycoin/skycoin/src/daemon"

	"verif/harness/internal/ev"
	"verif/harness/internal/gen"
	"verif/harness/internal/hx"
)

const ruleC25 = "introduction messages with generated mirror / protocol version / listen port and an Extra field built field by field (blockchain pubkey | burn factor u32, max txn size u32, precision u8 | length-prefixed user agent | optional 32-byte genesis hash) where each field is independently valid or broken: wrong or truncated pubkey, parameters below/at/above their limits, user agent from a pool of grammatical and ungrammatical strings, length prefix beyond the data or above 256, 0..40 trailing bytes; plus Extra cut at every generated position and random Extra bytes; daemon configuration with generated pubkey, minimum version and mirror; oracle: independent field-by-field parser: Verify accepts <=> all documented conditions hold; never a panic; non-trivial = exactly one condition is broken, or none; distinct by (message bytes, config)"

// user agents with an unambiguous verdict under the documented grammar NAME:SEMVER[(REMARK)]
var uaValid = []string{"skycoin:0.25.1", "skycoin:0.26.0(remark; ok)", "Sky-Coin_+:1.2.3-rc1", "a:0.0.0+build.5", "skycoin:10.20.30(a=b,c.d?~ !$%)", "x:1.2.3-alpha.1+exp.sha.5114f85"}
var uaInvalid = []string{"", "skycoin", "skycoin:", "skycoin:1.2", ":1.2.3", "sky coin:1.2.3", "skycoin:1.2.3()", "skycoin:01.2.3", "skycoin:1.2.3(remark", "skycoin:1.2.3(re(mark)", "skycoin:1.2.3 ", "skycoin;1.2.3", "skycoin:1.2.3(remark)x", "skycoin:v1.2.3", "skycoin:1.2.3(/)"}

type introCase struct {
	msg      daemon.IntroductionMessage
	dc       daemon.DaemonConfig
	broken   []string
	unsure   bool // verdict not pinned down by the documentation (sanitised user agents)
	extraLen int
}

func le32(v uint32) []byte { b := make([]byte, 4); binary.LittleEndian.PutUint32(b, v); return b }

func genIntroCase(t *rapid.T) introCase {
	var c introCase
	pub := gen.KeyN(rapid.IntRange(0, 2).Draw(t, "pub")).Pub
	c.dc.BlockchainPubkey = pub
	c.dc.Mirror = rapid.Uint32().Draw(t, "ourmirror")
	c.dc.MinProtocolVersion = rapid.Int32Range(-3, 5).Draw(t, "minver")
	c.msg.Mirror = rapid.Uint32().Draw(t, "mirror")
	if rapid.IntRange(0, 11).Draw(t, "self") == 0 {
		c.msg.Mirror = c.dc.Mirror
	}
	if c.msg.Mirror == c.dc.Mirror {
		c.broken = append(c.broken, "self_connection")
	}
	c.msg.ProtocolVersion = c.dc.MinProtocolVersion + rapid.SampledFrom([]int32{0, 0, 0, 0, 1, 1, 2, 3, 100, -1, -2}).Draw(t, "verdelta")
	if rapid.IntRange(0, 19).Draw(t, "verext") == 0 {
		c.msg.ProtocolVersion = rapid.SampledFrom([]int32{-2147483648, 2147483647, 0, -1}).Draw(t, "verx")
	}
	if c.msg.ProtocolVersion < c.dc.MinProtocolVersion {
		c.broken = append(c.broken, "version")
	}
	c.msg.ListenPort = rapid.Uint16().Draw(t, "port")

	mode := rapid.SampledFrom([]string{"fields", "fields", "fields", "fields", "empty", "cut", "random"}).Draw(t, "extramode")
	// build from fields
	var extra []byte
	var fieldBroken []string
	// pubkey
	pk := pub
	switch rapid.IntRange(0, 13).Draw(t, "pkmode") {
	case 0:
		pk = gen.KeyN(5).Pub
		fieldBroken = append(fieldBroken, "pubkey")
	case 1:
		pk[rapid.IntRange(0, 32).Draw(t, "pkbyte")] ^= 1
		fieldBroken = append(fieldBroken, "pubkey")
	}
	extra = append(extra, pk[:]...)
	// params
	burn := rapid.SampledFrom([]uint32{2, 2, 10, 10, 10, 4294967295, 3, 0, 1}).Draw(t, "burn")
	size := rapid.SampledFrom([]uint32{1024, 1024, 32768, 32768, 4294967295, 1025, 1023, 0}).Draw(t, "maxsize")
	prec := rapid.SampledFrom([]uint8{0, 3, 3, 6, 6, 6, 7, 255}).Draw(t, "prec")
	if burn < 2 {
		fieldBroken = append(fieldBroken, "burn")
	}
	if size < 1024 {
		fieldBroken = append(fieldBroken, "maxsize")
	}
	if prec > 6 {
		fieldBroken = append(fieldBroken, "precision")
	}
	extra = append(extra, le32(burn)...)
	extra = append(extra, le32(size)...)
	extra = append(extra, prec)
	// user agent
	var ua string
	uaMode := rapid.SampledFrom([]string{"valid", "valid", "valid", "valid", "valid", "invalid", "too_long", "max_len", "len_beyond", "sanitised"}).Draw(t, "uamode")
	uaLenField := -1
	switch uaMode {
	case "valid":
		ua = rapid.SampledFrom(uaValid).Draw(t, "ua")
	case "invalid":
		ua = rapid.SampledFrom(uaInvalid).Draw(t, "ua")
		fieldBroken = append(fieldBroken, "useragent")
	case "too_long":
		ua = "skycoin:1.2.3(" + string(make256('a', 257-15)) + ")"
		fieldBroken = append(fieldBroken, "useragent_maxlen")
	case "max_len":
		ua = "skycoin:1.2.3(" + string(make256('a', 256-15)) + ")"
	case "len_beyond":
		ua = "skycoin:0.25.1"
		uaLenField = len(ua) + 1 + rapid.IntRange(0, 100).Draw(t, "beyond")
		fieldBroken = append(fieldBroken, "useragent_len_prefix")
	case "sanitised":
		ua = rapid.SampledFrom([]string{"sky<coin:1.2.3", "skycoin:1.2.3\x00", "skycoin:1.2.3(a|b)", "skycoin:1.2.3\n", "skyécoin:1.2.3"}).Draw(t, "ua")
		c.unsure = true
	}
	if uaLenField < 0 {
		uaLenField = len(ua)
	}
	extra = append(extra, le32(uint32(uaLenField))...)
	extra = append(extra, ua...)
	// genesis hash / trailing bytes
	tail := rapid.SampledFrom([]int{0, 0, 32, 32, 32, 1, 31, 33, 40}).Draw(t, "tail")
	if uaMode == "len_beyond" {
		tail = 0 // otherwise the trailing bytes would be swallowed by the oversized length prefix
	}
	if tail > 0 && tail < 32 {
		fieldBroken = append(fieldBroken, "genesis_hash_partial")
	}
	extra = append(extra, rapid.SliceOfN(rapid.Byte(), tail, tail).Draw(t, "tailbytes")...)

	switch mode {
	case "fields":
		c.msg.Extra = extra
		c.broken = append(c.broken, fieldBroken...)
	case "empty":
		c.msg.Extra = nil
		if rapid.Bool().Draw(t, "emptynonnil") {
			c.msg.Extra = []byte{}
		}
		c.broken = append(c.broken, "no_extra")
	case "cut":
		// a prefix of a fully valid Extra: valid only if the cut falls at the end of the user agent or keeps >= 32 bytes after it
		good := append(append(append(append([]byte{}, pub[:]...), le32(10)...), le32(32768)...), 6)
		uaGood := "skycoin:0.25.1"
		good = append(append(good, le32(uint32(len(uaGood)))...), uaGood...)
		uaEnd := len(good)
		good = append(good, make([]byte, 32)...)
		cut := rapid.IntRange(0, len(good)).Draw(t, "cut")
		c.msg.Extra = good[:cut]
		if cut == 0 {
			c.broken = append(c.broken, "no_extra")
		} else if !(cut == uaEnd || cut == len(good)) {
			c.broken = append(c.broken, fmt.Sprintf("cut_at_%d", cut))
		}
	default:
		c.msg.Extra = rapid.SliceOfN(rapid.Byte(), 1, 120).Draw(t, "rawextra")
		// a random Extra can only be valid if it starts with the configured pubkey: 2^-264
		c.broken = append(c.broken, "random_extra")
	}
	c.extraLen = len(c.msg.Extra)
	return c
}

func make256(ch byte, n int) []byte {
	b := make([]byte, n)
	for i := range b {
		b[i] = ch
	}
	return b
}

func TestC25_IntroductionVerify(t *testing.T) {
	r := ev.Get("C25")
	r.Rule(ruleC25)
	r.Assume("user agents that only become grammatical after the documented sanitising step are generated but their verdict is not asserted")
	hx.Check(t, "C25", 5000, 300000, func(t *rapid.T) {
		c := genIntroCase(t)
		msg := c.msg
		var err error
		if p := call(func() { err = msg.Verify(c.dc, logrus.Fields{}) }); p != nil {
			t.Fatalf("IntroductionMessage.Verify panicked: %v\n extra=%x", p, c.msg.Extra)
		}
		wantOK := len(c.broken) == 0
		if !c.unsure && wantOK != (err == nil) {
			t.Fatalf("Verify err=%v, reference says valid=%v (broken: %v)\n mirror=%d ours=%d version=%d min=%d\n extra=%x", err, wantOK, c.broken, c.msg.Mirror, c.dc.Mirror, c.msg.ProtocolVersion, c.dc.MinProtocolVersion, c.msg.Extra)
		}
		if err == nil && !c.unsure {
			// accepted: the parsed fields must be the ones that were sent
			if msg.UnconfirmedVerifyTxn.BurnFactor < 2 || msg.UnconfirmedVerifyTxn.MaxTransactionSize < 1024 || msg.UnconfirmedVerifyTxn.MaxDropletPrecision > 6 {
				t.Fatalf("accepted introduction carries invalid verification parameters %+v", msg.UnconfirmedVerifyTxn)
			}
			if msg.UserAgent.Coin == "" || msg.UserAgent.Version == "" {
				t.Fatalf("accepted introduction without a parsed user agent")
			}
		}
		for _, b := range c.broken {
			r.Count("broken_" + cls(b))
		}
		if err == nil {
			r.Count("accepted")
		}
		nt := len(c.broken) <= 1
		key := append([]byte(fmt.Sprintf("%d/%d/%d/%d/%x/", c.msg.Mirror, c.dc.Mirror, c.msg.ProtocolVersion, c.dc.MinProtocolVersion, c.dc.BlockchainPubkey[:4])), c.msg.Extra...)
		r.Case(nt, key)
		if r.WantSample(nt) {
			r.Sample(nt, map[string]interface{}{"kind": "introduction", "broken": c.broken, "extra": hex.EncodeToString(c.msg.Extra), "result": fmt.Sprint(err)})
		}
	})
}

func cls(b string) string {
	if len(b) > 7 && b[:7] == "cut_at_" {
		return "cut"
	}
	return b
}

// FuzzC25_Extra: arbitrary Extra bytes never panic and are accepted only with the configured pubkey in front.
func FuzzC25_Extra(f *testing.F) {
	pub := gen.KeyN(0).Pub
	good := append(append(append(append([]byte{}, pub[:]...), le32(10)...), le32(32768)...), 6)
	good = append(append(good, le32(14)...), "skycoin:0.25.1"...)
	f.Add(good)
	f.Add(append(good, make([]byte, 32)...))
	f.Add([]byte{})
	f.Add(pub[:])
	f.Fuzz(func(t *testing.T, extra []byte) {
		m := daemon.IntroductionMessage{Mirror: 1, ProtocolVersion: 3, Extra: extra}
		dc := daemon.DaemonConfig{Mirror: 2, MinProtocolVersion: 2, BlockchainPubkey: pub}
		var err error
		if p := call(func() { err = m.Verify(dc, logrus.Fields{}) }); p != nil {
			t.Fatalf("panic: %v", p)
		}
		if err == nil {
			var got cipher.PubKey
			if len(extra) < 33+9+4 {
				t.Fatalf("accepted a %d byte Extra", len(extra))
			}
			copy(got[:], extra)
			if got != pub {
				t.Fatalf("accepted a foreign pubkey")
			}
		}
	})
}
