#!/usr/bin/env python3
"""Regenerates MANIFEST.json from checks_config.py (claimed checks) and properties.jsonl (not_applicable = the rest)."""
import json, os, subprocess
ROOT = os.path.dirname(os.path.abspath(__file__))
import sys
sys.path.insert(0, ROOT)
from checks_config import CHECKS, NOT_APPLICABLE
props = [json.loads(l) for l in open(os.path.join(ROOT, "properties.jsonl"))]
checks = []
for p in props:
    c = CHECKS.get(p["id"])
    if not c:
        continue
    checks.append({
        "property_id": p["id"],
        "quick_cmd": "./check %s quick" % p["id"],
        "thorough_cmd": "./check %s thorough" % p["id"],
        "evidence_file": "/verif/evidence/%s.json" % p["id"],
        "replay_cmd_template": "./check %s --replay {path}" % p["id"],
        "engine": "harness/" + c["pkg"],
        "level_claimed": {"category": c.get("level", "exploration"), "text": c["text"], "design_ref": "DESIGN.md section 3, " + p["id"]},
        "level_note": c["note"],
        "technique": c["technique"],
    })
na = []
for p in props:
    if p["id"] not in CHECKS:
        na.append({"property_id": p["id"], "reason": NOT_APPLICABLE.get(p["id"], "check not built yet in this round; not claimed")})
hooks = []
try:
    out = subprocess.run(["git", "-C", "/repo", "log", "--format=%h %s"], stdout=subprocess.PIPE, text=True).stdout
    hooks = [l.split()[0] for l in out.splitlines() if " verif hook:" in l or l.split(" ", 1)[1].startswith("verif hook")]
except Exception:
    pass
engines = {}
for k, c in CHECKS.items():
    engines.setdefault(c["pkg"], []).append(k)
m = {
    "version": 1,
    "setup_cmd": "./check --setup",
    "hooks": {
        "guard": "verif",
        "enable": "go test -tags verif (the driver ./check builds every harness package with -tags verif against /repo through a replace directive)",
        "baseline_off_cmd": "cd /repo && GOFLAGS=-mod=mod GOPROXY=off GOSUMDB=off go test -json -vet=off -count=1 -timeout 25m ./...",
        "source_commits": hooks,
        "add_only": True,
    },
    "engines": [{"name": "harness/" + k, "path": "/verif/harness/" + k, "serves_properties": sorted(v),
                 "kind_free_text": "Go test package: rapid v1.3.0 properties / state machines and native fuzz targets with explicit oracles"} for k, v in sorted(engines.items())],
    "checks": checks,
    "not_applicable": na,
    "notes": "Driver: ./check <ID> quick|thorough|--replay <file>. Exit 0 held, 1 VIOLATION, 2 inconclusive. Known findings: KNOWN_FINDINGS.txt. See DESIGN.md.",
}
json.dump(m, open(os.path.join(ROOT, "MANIFEST.json"), "w"), indent=1)
print("claimed", len(checks), "not_applicable", len(na))
