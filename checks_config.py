# per-property run configuration for ./check and gen_manifest.py
PBT = "property-based testing (rapid) against a math/big reference model"
CHECKS = {
    "C31": {"pkg": "arith", "shards": 8, "timeout_quick": 600, "timeout_thorough": 1800,
            "technique": "property-based testing (rapid generators with boundary bias + exhaustive edge grid) against math/big oracles",
            "text": "Generated-input search: every helper is compared with exact big-integer arithmetic on an exhaustive 214x214 edge grid and on 10^5 (quick) / 5*10^6 (thorough) boundary-biased random tuples, including tuples constructed to reach each overflow class of the coin-hour formula. Exploration, not proof: the property asks for all 2^128 pairs.",
            "note": "math/big is the trusted reference; absence of failures on the sampled points is not a proof over the full domain"},
}
NOT_APPLICABLE = {}
CHECKS["C30"] = {"pkg": "arith", "shards": 8,
    "technique": "property-based testing (rapid grammar-based string generator) against a regexp + big.Rat reference parser; round-trip oracle",
    "text": "Generated-input search: ToString/FromString round trip on boundary-biased uint64 values and FromString against an independent exact-rational parser on grammar-generated, mutated and random strings. Completeness is demanded for plain decimals with <=6 places that fit, soundness (accepted => exact) for every string.",
    "note": "reference parser (regexp + math/big.Rat) is trusted; exponent magnitudes are bounded to 40 in this check"}
CHECKS["C29"] = {"pkg": "arith", "more_pkgs": ["api"], "shards": 8,
    "technique": "property-based testing (rapid) plus exhaustive small-space enumeration against an exact big-integer slice model",
    "text": "PageIndex.Cal is enumerated exhaustively for sizes 1..100 x lengths 0..220 x all pages (partition oracle: consecutive, covering, empty beyond N) and sampled over 64-bit page numbers including ones constructed so that (page-1)*size wraps 2^64; the same partition oracle is applied to address queries on a real node (chain + pool) through Visor.GetTransactions and GET /api/v2/transactions, which must agree with each other.",
    "note": "the exact model is [min((p-1)s,n),min(ps,n)) in math/big"}


CHECKS["C14"] = {"pkg": "crypto", "shards": 12,
    "technique": "differential property-based testing (rapid) against an independent textbook secp256k1 (math/big, affine, double-and-add)",
    "text": "Generated-input search with a differential oracle: key derivation, public-key parsing, signing, verification, recovery, ECDH and the deterministic key iterator are compared with a 300-line textbook implementation on edge-biased scalars, every invalid public-key class and structurally mutated signatures.",
    "note": "trusted: math/big, crypto/sha256 and the reference curve code (harness/internal/ref/curve); the s in (n/2,2^255) band is judged under C10, not here"}

CHECKS["C10"] = {"pkg": "crypto", "shards": 12,
    "technique": "mutation-based property testing (rapid): structured and bit-level third-party mutations of valid signatures, signed transactions and signed blocks; algebraically constructed chosen-s signatures; big-integer low-s oracle",
    "text": "Generated-input search: every generated valid signature / signed transaction / signed block is mutated without the keys (all single bits in thorough, s negation, r+n, recovery-id re-encodings, appended bytes, reordering with recomputed public fields) and any accepted mutant must equal the original; signatures with a chosen s are constructed algebraically to test the low-s rule on both sides of n/2. Structural malleability only - no cryptanalysis.",
    "note": "acceptance role = the node-side predicates (DeserializeTransaction+Verify+VerifyInputSignatures against the spent outputs; SignedBlock.VerifySignature+body hash); known finding high-s-band is probed and excluded by construction"}

CHECKS["C15"] = {"pkg": "crypto", "shards": 8,
    "technique": "exhaustive short-input enumeration plus property-based testing (rapid) against the big-integer definition of base58 and a reference address construction",
    "text": "All byte strings of length <=2 and all strings of length <=3 over a 70-symbol hostile alphabet are enumerated; longer inputs and mutated address texts are sampled. Oracle: math/big base58 in both directions, decode => canonical re-encode, address text decodes iff reference construction says so.",
    "note": "trusted: math/big, crypto/sha256; ripemd160 of public keys is not part of this property (addresses are generated from random 20-byte keys)"}

CHECKS["C16"] = {"pkg": "crypto", "shards": 12,
    "technique": "differential property-based testing (rapid) against a from-the-spec BIP39/BIP32/BIP44 reference built on the textbook curve, stdlib HMAC/PBKDF2 and x/crypto ripemd160",
    "text": "Generated-input search with a differential oracle: mnemonic generation/validation/entropy recovery/seed derivation, master keys, hardened and normal child derivation to depth 5 with boundary child numbers, xprv/xpub serialisation, N(CKDpriv)==CKDpub(N) and BIP44 paths are compared value-for-value with the reference; invalid sizes, mutated sentences and corrupted encodings must be refused.",
    "note": "ASCII-only sentences and passphrases (NFKD is the identity there); the English list is recovered through the API and pinned by the published SHA-256; IL>=n / zero-key branches are unreachable by sampling (2^-127)"}

CHECKS["C09"] = {"pkg": "txn", "shards": 12, "fuzz": [{"target": "FuzzC09_Decode", "seconds": 90}],
    "technique": "property-based testing (rapid constructive generator + rule-breaking mutations) against an independent well-formedness predicate; decode/encode round-trip oracle; native go fuzzing of the decoder in thorough",
    "text": "Generated-input search: Verify()/VerifyUnsigned() must equal an independently written predicate (big-int sums, reference encoder, textbook-curve signature judgement) on well-formed transactions carrying 0-2 targeted rule violations; every byte string either fails to decode or re-encodes identically; 65535/65536-element boundaries are exercised explicitly.",
    "note": "trusted: reference encoder (harness/internal/ref/txref) and textbook curve; the high-s band of C10 is not generated"}

CHECKS["C11"] = {"pkg": "txn", "shards": 12,
    "technique": "property-based testing (rapid boundary-aimed generator) against a big-integer model of the soft and hard transaction rules",
    "text": "Generated-input search with a model oracle: VerifySingleTxnSoftConstraints / VerifySingleTxnHardConstraints / VerifyBlockTxnConstraints must accept exactly what the math/big model accepts and report failures with the right constraint type; generators aim output hours at ceil(total/burn)+-1, sizes at the limit +-1, coins at precision boundaries, accruals at the overflow classes and inputs at locked distribution addresses.",
    "note": "trusted: harness/internal/ref/rules (model), textbook curve for signatures; verification parameters are drawn only from the range params.VerifyTxn.Validate accepts"}

CHECKS["C12"] = {"pkg": "txn", "shards": 12,
    "technique": "property-based testing (rapid) of transaction.Create against a validity predicate (reference rules) and a completeness oracle over the offered set",
    "text": "Generated-input search: many correct outputs are possible, so the result is judged by a validity predicate - well formed and hard-valid under the reference model, inputs distinct and offered, receivers paid exactly, change amount and documented change address, automatic hours summing to the allotted amount and proportional, burn >= required fee - and failures must be user-level and, for 'insufficient', justified by the whole offered set.",
    "note": "trusted: harness/internal/ref/rules; burn factor = params.UserVerifyTxn; offered totals < 2^62 without accrual overflow"}

CHECKS["C21"] = {"pkg": "codec", "shards": 12, "fuzz": [{"target": "FuzzC21_Decode", "seconds": 120}],
    "technique": "three-way differential property-based testing (rapid, reflection-driven value and byte-string generators): generated codec vs reflection encoder vs independent reference encoder; native fuzzing of all decoders in thorough",
    "text": "For each of the 29 generated codecs, generated values must encode to identical bytes and sizes under all three encoders and decode back; mutated and random byte strings must give the same error kind, consumed length and value under the generated and the reflection decoder; exact decoding must re-encode to the input; no decoder may panic.",
    "note": "trusted: harness/internal/ref/enc (written from the encoder documentation); documented asymmetry accepted: the reflection encoder does not enforce maxlen on encode (package doc), the generated one does"}

CHECKS["C22"] = {"pkg": "net", "shards": 12, "fuzz": [{"target": "FuzzC22_Stream", "seconds": 90}],
    "technique": "property-based testing (rapid): generated message sequences x generated chunkings through the real framing code, round-trip oracle; hostile-frame mutations with an error-class oracle; native fuzzing of the receive path in thorough",
    "text": "Generated-input search: sequences of all 12 wire message types with generated bodies are framed, concatenated and cut at generated points (inside the length prefix, inside the id, after k complete frames plus a partial one, byte by byte); the receive path must deliver exactly the sent sequence and leave an empty buffer. Hostile frames must end in a documented disconnect error after delivering every earlier message; nothing may panic.",
    "note": "the receive loop is driven through the verif hooks VerifDecodeData/VerifConvertToMessage chunk by chunk, as readLoop does; the TCP layer and the bounded receive queue are not part of this check"}

CHECKS["C23"] = {"pkg": "net", "shards": 8,
    "technique": "property-based testing (rapid) with limits aimed at the exact framed size of k items +-9; size oracle from the independent reference encoder",
    "text": "Generated-input search: for every truncating message constructor, generated item lists and maximum lengths (uniform, header-sized, and exactly around the cumulative framed size of k items) must yield a framed message no longer than the maximum, made of a prefix of the request that cannot be extended by one more requested item without exceeding the maximum or the item cap.",
    "note": "the bound is the one gnet.sendMessage enforces (length prefix + id + body); item sizes are computed with harness/internal/ref/enc"}

CHECKS["C24"] = {"pkg": "net", "shards": 8,
    "technique": "model-based stateful property testing (rapid state machine) of daemon.Connections against a set-of-live-connections model",
    "text": "Generated operation sequences (attempt, connect, introduce, remove with right/wrong ids, remove-all) over 9 addresses on 3 IPs with mirrors {0,1,2} and listen ports {0,6000,6001}; after every step the five bookkeeping maps must equal what the model derives from the live set and each operation must succeed exactly when the model says the transition is legal; removing everything must leave all maps empty.",
    "note": "maps are observed through the verif hook VerifSnapshot; connection ids passed to connect are fresh (as gnet allocates them)"}

CHECKS["C26"] = {"pkg": "net", "shards": 8,
    "technique": "stateful property-based testing (rapid state machine) of pex.Pex with an independent address predicate and size/trust invariants; differential single-address validation",
    "text": "Generated histories of AddPeer / AddPeers / RemovePeer / trust / retry / ageing+stale-pass over valid, whitespace-laden and hostile address strings; after every step all stored addresses must satisfy an independently written ip:port predicate, bulk additions must respect the bound, trusted peers must survive everything but explicit removal; single strings (pools + one-character edits) are judged valid/invalid against the same predicate.",
    "note": "LastSeen is rewritten through the verif hook to exercise the time-dependent eviction rules; the predicate follows the definition of a global unicast IPv4 address (excluding unspecified, broadcast, multicast, link-local; loopback only when allowed)"}

CHECKS["C25"] = {"pkg": "net", "more_pkgs": ["api"], "shards": 8, "fuzz": [{"target": "FuzzC25_Extra", "seconds": 60}],
    "technique": "property-based testing (rapid field-by-field generator) of IntroductionMessage.Verify against an independent parser of the Extra layout; message-order state machine against a real in-process daemon over loopback; native fuzzing of Extra in thorough",
    "text": "Generated-input search: introduction messages are assembled field by field with each documented condition independently satisfied or broken (self mirror, protocol version, pubkey, burn factor, max size, precision, user agent grammar and length, genesis hash length), cut at arbitrary positions or random; Verify must accept exactly when no condition is broken and never panic.",
    "note": "user-agent verdicts are asserted only for strings whose status under the documented grammar is unambiguous; sanitised variants are exercised for crashes only"}

LT = 'model-based stateful property testing (rapid state machine) of real visor nodes on bolt files against an independent reference ledger model'
LN = 'trusted: harness/internal/ref/{ledger,rules,txref,curve}; signatures of generated transactions are made with the code under test and judged by the textbook curve; bolt files live on /dev/shm'
CHECKS["C01"] = {"pkg": "ledger", "shards": 14, "timeout_quick": 900, "timeout_thorough": 3000, "technique": LT, "note": LN,
    "text": "Generated histories of injections, publisher blocks, deliveries, crafted (valid and mutated) signed blocks, pool maintenance and restarts on a publisher and 1-2 followers, with genesis volumes up to 2^64-1; after every action the coin sum of the unspent set (math/big) must equal the genesis volume and the full unspent set must equal the model's, and every transaction the node accepts into a block has passed the model's exact in==out rule."}
CHECKS["C02"] = {"pkg": "ledger", "shards": 14, "timeout_quick": 900, "timeout_thorough": 3000, "technique": LT, "note": LN,
    "text": "Same state machine with crafted blocks weighted up: double spends inside a block, across blocks, of spent outputs, of outputs created in the same block, duplicate outputs; the node's unspent set (ids, bodies, creation time and sequence) must equal created-minus-spent of the model after every step and block acceptance must equal the model's verdict."}
CHECKS["C04"] = {"pkg": "ledger", "shards": 14, "timeout_quick": 900, "timeout_thorough": 3000, "technique": LT, "note": LN,
    "text": "Crafted next blocks with one of 19 header mutations (re-signed with the publisher key, so only the structural rule can reject them) or 8 body mutations are submitted at random points of random histories to publisher and followers; acceptance must equal the model's rule set, a rejection must leave chain, unspent set, pool and stored blocks identical, every stored header must verify against its stored signature, and the node's own CheckDatabase must pass at the end of every history."}
CHECKS["C05"] = {"pkg": "ledger", "shards": 14, "timeout_quick": 900, "timeout_thorough": 3000, "technique": LT, "note": LN,
    "text": "Pools reached by random injection histories (conflicting spends, soft-invalid and later-hard-invalid entries, more bytes than the block limit); the block the publisher assembles must contain exactly the reference selection (eligible by hard+soft rules, ordered by saturating fee*1024/size descending then hash ascending, cut at the size limit, first of each conflict class) in that order and must be acceptable to an independent node model."}
CHECKS["C06"] = {"pkg": "ledger", "shards": 14, "timeout_quick": 900, "timeout_thorough": 3000, "technique": LT, "note": LN,
    "text": "Interleavings of foreign/user injections (incl. re-injection), block acceptance, refresh and invalid-removal passes and restarts; admission must equal the model's hard (foreign) / hard+soft+user (user) verdict with the right error type, re-injection must report known and not duplicate, block transactions must leave the pool, validity flags and pool contents must equal the model after every step."}

CHECKS["C07"] = {"pkg": "ledger", "shards": 14, "timeout_quick": 900, "timeout_thorough": 3000, "technique": LT, "note": LN + "; predicted balances are compared only while every pooled transaction still resolves its inputs; unconfirmed address queries are checked for soundness (returned transactions involve the address) and absence of crashes",
    "text": "The ledger state machine with view actions: after steps of random histories the per-address unspent index, address count, history records of every output ever created (incl. which block and transaction spent it), confirmed transactions by hash and per address, transaction count, confirmed and predicted balances and block range queries are recomputed from the reference model and compared; a rebuild action erases the index and history progress markers, restarts the node and compares all views again."}
CHECKS["C03"] = {"pkg": "ledger", "shards": 14, "timeout_quick": 900, "timeout_thorough": 3000, "technique": LT + "; plus property-based testing of UxOut.CoinHours against the exact formula", "note": LN + "; directly crafted blocks whose output-hour sum wraps 2^64 are not generated (documented legacy behaviour for existing blocks), the wrap class is counted if it ever occurs",
    "text": "Ledger state machine with block times up to 2^40 seconds ahead and hour values aimed at the burn boundary: for every transaction of every block a node accepts, the output hours must not exceed the input hours accrued at the previous block's time, evaluated exactly in math/big with the documented legacy exception; injections whose output hours overflow must be rejected; accrued hours must equal initial + floor(coins*dt/3.6e9) and be monotone in time."}

CHECKS["C33"] = {"pkg": "ledger", "shards": 14, "timeout_quick": 900, "timeout_thorough": 3000,
    "technique": "property-based testing (rapid) of block synchronisation: generated delivery plans (order, duplication, loss, splitting, forgeries) through the real GiveBlocksMessage.process on a recording daemon over real visors, against a sequential reference model and a prefix-of-publisher invariant",
    "note": LN + "; blocks inside one peer message are ascending; the network is replaced by the verif hook VerifDaemon (records sends, executes blocks on the real visor)",
    "text": "A publisher chain of 3-10 blocks is delivered to a fresh follower as a generated plan of GiveBlocks messages (gaps, overlaps, duplicates, permuted message order, interleaved forged blocks). After every message the follower must equal the sequential reference model, be a block-for-block prefix of the publisher chain with valid publisher signatures, and emit AnnounceBlocks/GetBlocks for its new head; after an honest peer answers its requests it must hold exactly the longest gap-free prefix of the blocks it was given."}

CHECKS["C18"] = {"pkg": "wallet", "shards": 12, "fuzz": [{"target": "FuzzC18_DecryptScrypt", "seconds": 90}, {"target": "FuzzC18_DecryptSha256Xor", "seconds": 60}],
    "technique": "property-based testing (rapid): structured ciphertext mutation for both ciphers with a no-panic / authenticity oracle; lock/serialise/unlock round trips of every lockable wallet type with a secret-absence oracle; native fuzzing of both Decrypt functions in thorough",
    "text": "Generated ciphertexts (valid, bit-flipped, truncated, spliced, re-checksummed, metadata length prefix and JSON fields patched to boundary values, random, empty) are decrypted with the right and a wrong password: the result must be the plaintext or an error, never a panic, and never different data. Wallets of each lockable type are locked with generated passwords: the serialised form must not contain any seed, passphrase or secret key, unlocking with the same password must restore the identical wallet, any other password must be refused.",
    "note": "scrypt parameters inside generated metadata are capped (N<=2^14, r<=8, p<=2) to protect the harness; wallets use the fast cipher variants (sha256-xor, scrypt N=2^15)"}

CHECKS["C17"] = {"pkg": "wallet", "shards": 12,
    "technique": "metamorphic stateful property testing (rapid state machine per wallet type): batch-split generation, scanning, reload, clone and lock/unlock must equal one-shot generation; independent re-derivation with the reference BIP39/32/44 and the documented deterministic iterator",
    "text": "Generated histories of generate / scan (with generated activity patterns) / serialise-load / clone / lock-unlock on deterministic, bip44 (both chains), xpub and collection wallets; after every step the entries must equal the first addresses of a fresh wallet of the same seed that generates everything at once, every entry must be internally consistent (address of public key, public key of secret key), the watch-only wallet must match the seed wallet, and the first addresses are re-derived independently at the end.",
    "note": "reference: harness/internal/ref/{bip,curve,rules}; lock/unlock uses sha256-xor for speed; collection wallets (no seed) are checked for consistency and invariance only"}

CHECKS["C13"] = {"pkg": "wallet", "shards": 12,
    "technique": "property-based testing (rapid) of wallet.SignTransaction with a success predictor and a before/after comparison oracle; signatures judged by the code verifier and the textbook curve",
    "text": "Generated wallets of every type, transactions with 1-6 inputs of mixed ownership and partial pre-signatures, and index selections (none, subset, out of range, negative, duplicate, already signed, too many): success must be exactly what the documented contract predicts; on success exactly the addressed inputs gain a signature that verifies against the spent output's address and nothing else changes; on failure an error and no panic; the caller's transaction is never modified.",
    "note": "pre-signatures are made with the deterministic reference signer; watch-only and encrypted wallets are negative cases"}

CHECKS["C19"] = {"pkg": "wallet", "shards": 12,
    "technique": "model-based stateful property testing (rapid state machine) of wallet.Service with memory / file / fresh-service comparison after every step and an unchanged-on-failure oracle",
    "text": "Generated sequences of create (4 wallet types, temporary, encrypted, duplicate seeds, bad parameters), new addresses, scan, label, encrypt, decrypt, recover, unload and secret updates with right, wrong and missing passwords and unknown ids; after every step each loaded non-temporary wallet must serialise identically in memory, in its file and in a freshly started service, temporary wallets must have no file, no two loaded wallets may share a fingerprint, and a failed operation must leave directory and memory byte-identical.",
    "note": "file-system faults are the subject of C20, not injected here; unloaded wallets keep their file by design and are tracked by the model"}

CHECKS["C20"] = {"pkg": "wallet", "shards": 12, "helpers": ["cmd/savehelper"], "level": "fault_enumeration", "timeout_quick": 900, "timeout_thorough": 3000,
    "technique": "fault injection over generated save scenarios: every file-system syscall of the save is enumerated with strace and the process is killed immediately before it (plus torn-write variants); restart oracle old-or-new",
    "text": "For generated wallet / key-value save scenarios the helper process performing the save is killed (SIGKILL injected by strace) before each of its file-system syscalls in turn, so every prefix of the save's file operations is materialised on a real directory; torn variants truncate the last written file. A fresh wallet service / storage manager must start on every crash state and hold the old or the new content. The crash points are those of the real implementation, whatever it is changed to; scenarios are sampled.",
    "note": "ordered-write crash model (no reordering below the syscall level); needs a working ptrace (strace); scenario content is sampled, crash points per scenario are enumerated exhaustively"}

CHECKS["C08"] = {"pkg": "ledger", "shards": 14, "level": "fault_enumeration", "timeout_quick": 900, "timeout_thorough": 3000,
    "technique": "fault enumeration over generated node life cycles: every bolt commit boundary (verif commit hook) and reconstructed write-prefix states inside each commit are restarted and must converge to the never-crashed twin; watchdog on the node's own verification",
    "note": LN + "; commit boundaries come from the hook in dbutil.DB.Update; intra-commit states follow bolt's documented write order (data pages ascending, sync, meta page, sync) and are rebuilt from page diffs of the before/after images",
    "text": "For each generated life cycle (database creation, version stamp, visor.New, genesis, 2-8 blocks interleaved with pool updates) all crash states are enumerated: the file after every commit and, inside every commit, prefixes of the changed data pages with torn last page and torn meta page. Every state is restarted with and without forced verification (and through ResetCorruptDB), must pass CheckDatabase within 20 s, accept the remaining blocks and end with the twin's chain, unspent set, history and views. Life cycles are sampled, crash states per life cycle are enumerated (prefix lengths sampled when a commit changes more than 4 pages)."}

CHECKS["C27"] = {"pkg": "api", "shards": 12,
    "technique": "property-based testing (rapid) of the real request multiplexer against a table-driven model of the documented access conditions, with a recording stub gateway as reach detector and a pinned route table",
    "text": "Generated configurations (interface host, whitelist, header and token checks, API-set subsets, credentials) and requests (every route of a pinned route table and unregistered paths, 7 methods, Host / Origin / Referer variants, 9 token kinds incl. superseded, expired, re-signed and edited ones, 11 credential presentations incl. user/password boundary shifts, content types) are served in process; a request the model refuses must not reach the gateway and must get the documented refusal, a request the model admits must not be refused by access control.",
    "note": "reach detection = stub gateway hit count plus refusal signature of the response; known finding csrf-superseded-token is probed separately and its class excluded from the main search; unconfigured-credentials and content-type refusals are tolerated either way"}

CHECKS["C28"] = {"pkg": "api", "shards": 14, "timeout_quick": 900, "timeout_thorough": 3000,
    "technique": "stateful property-based testing / grammar-based API fuzzing (rapid): generated request sequences against a real in-process node (chain, pool, wallets, storage, running daemon) with a no-panic / no-hang / well-formed-response / still-alive oracle",
    "text": "Generated request sequences over every endpoint, with parameters drawn from live node values and mutated per field (missing, wrong type, huge, boundary numbers, scientific notation, unicode, long lists), JSON bodies with wrong-typed / missing / unknown members and broken JSON, and encoded transactions that spend spent, unknown and unsigned inputs; every request must return within the watchdog with a status in 200-599 and a body that parses as its content type, no handler may panic, and the node must still answer /health afterwards; the verify endpoint must return a verdict for any encoded transaction.",
    "note": "in-process serving through the verif hook VerifNewServerMux (a panic is seen directly); address-derivation counts are bounded to 10 and wallets use sha256-xor to keep cases cheap; every case runs on a fresh copy of a node template built once per process"}

CHECKS["C32"] = {"pkg": "pool", "race": True, "shards": 14, "shrinktime": "5s", "timeout_quick": 900, "timeout_thorough": 3000,
    "technique": "generated concurrent programs (rapid) against a real gnet.ConnectionPool under the Go race detector, with drawn scheduling perturbation; invariants on return values, termination (watchdog with reproduce-before-report) and post-shutdown state",
    "text": "Generated concurrent programs: 2-6 worker goroutines run drawn operation lists (connect, raw inbound dials with valid / hostile bytes, disconnect, send, broadcast, queries, peer-side closes) with drawn pauses while one of them calls Shutdown at a drawn point; the binary is built with -race and stops at the first report. No race, no panic, every call returns, calls issued after Shutdown returned yield the pool-closed error, Shutdown and Run return, no connection stays registered and every peer socket is closed.",
    "note": "sampling of schedules, not enumeration; a race or a reproducible hang is evidence, their absence is not a proof; failing programs are saved as JSON and replayed 30 times by --replay"}
