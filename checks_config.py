# per-property run configuration for ./check and gen_manifest.py
PBT = "property-based testing (rapid) against a math/big reference model"
CHECKS = {
    "C31": {"pkg": "arith", "shards": 8, "timeout_quick": 600, "timeout_thorough": 1800,
            "technique": "property-based testing (rapid generators with boundary bias + exhaustive edge grid) against math/big oracles",
            "text": "Generated-input search: every helper is compared with exact big-integer arithmetic on an exhaustive 214x214 edge grid and on 10^5 (quick) / 5*10^6 (thorough) boundary-biased random tuples, including tuples constructed to reach each overflow class of the coin-hour formula. Exploration, not proof: the property asks for all 2^128 pairs.",
            "note": "math/big is the trusted reference; absence of failures on the sampled points is not a proof over the full domain"},
}
NOT_APPLICABLE = {}
